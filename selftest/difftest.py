#!/usr/bin/env python3
"""Differential test of the pyvc executor against CPython: the engine's result on CONCRETE random inputs must equal the
real function's result (run under python3-vt with PYTHONPATH=/repo).  Exit 1 on any disagreement."""
import os, random, sys
V = os.path.dirname(os.path.dirname(os.path.abspath(__file__)))
sys.path.insert(0, V)
from pyvc import REPO
sys.path.insert(0, REPO)
import logging; logging.disable(logging.CRITICAL)
from pyvc.loader import Repo
from pyvc.core import Executor
from pyvc.values import Sym, Obj, PyRaise, SStr
from props.common import record
import z3

repo = Repo()
rng = random.Random(int(os.environ.get('VERIF_SEED', '0') or 0))


def conc(v):
    if isinstance(v, Sym):
        e = z3.simplify(v.e)
        if z3.is_rational_value(e):
            return e.numerator_as_long() / e.denominator_as_long()
        if z3.is_int_value(e):
            return e.as_long()
        if z3.is_algebraic_value(e):
            return float(e.approx(20).as_decimal(20).rstrip('?'))
        return ('sym', str(e))
    if isinstance(v, (list, tuple)):
        return type(v)(conc(x) for x in v)
    return v


def engine(fullname, args, kwargs=None, self_obj=None):
    ex = Executor(repo)
    fi = repo.func(fullname)
    out = []

    def thunk(ex, ctx):
        return ex.call_function(fi, list(args), dict(kwargs or {}), self_obj=self_obj)
    paths = ex.run_paths(thunk)
    assert len(paths) == 1, 'concrete input must give one path, got %d' % len(paths)
    ctx, kind, val = paths[0]
    if kind == 'raise':
        return ('raise', val.exc_name)
    return ('ok', conc(val))


def native(f, args, kwargs=None):
    try:
        r = f(*args, **(kwargs or {}))
        if hasattr(r, '__next__'):
            r = list(r)
        return ('ok', r)
    except Exception as e:
        return ('raise', type(e).__name__)


def close(a, b):
    if isinstance(a, float) or isinstance(b, float):
        try:
            return abs(a - b) <= 1e-9 * (1 + abs(b))
        except TypeError:
            return False
    if isinstance(a, (list, tuple)) and isinstance(b, (list, tuple)):
        return len(a) == len(b) and all(close(x, y) for x, y in zip(a, b))
    return a == b


class P:
    pass


def params():
    p = P()
    p.Nmin, p.Nmax = 280, 560
    p.desolvationSurfaceScalingFactor = 0.25
    p.coulomb_cutoff1, p.coulomb_cutoff2 = 4.0, 10.0
    return p


def prec():
    p = params()
    return record('P', None, **p.__dict__)


import propka.energy as energy
import propka.hybrid36 as hybrid36
import propka.lib as lib
import propka.calculations as calc
import propka.input as inp

bad = n = 0
cases = []
for _ in range(300):
    d, w = rng.uniform(0, 12), rng.uniform(0, 1)
    cases.append(('propka.energy.coulomb_energy', energy.coulomb_energy, (d, w, params()), (d, w, prec())))
    nv = rng.randint(0, 900)
    cases.append(('propka.energy.calculate_weight', energy.calculate_weight, (params(), nv), (prec(), nv)))
    cases.append(('propka.energy.calculate_pair_weight', energy.calculate_pair_weight, (params(), nv, nv // 2), (prec(), nv, nv // 2)))
    cases.append(('propka.energy.calculate_scale_factor', energy.calculate_scale_factor, (params(), w), (prec(), w)))
    c0 = rng.uniform(1, 3)
    cases.append(('propka.energy.hydrogen_bond_energy', energy.hydrogen_bond_energy, (d, rng.uniform(-1, 1), [c0, c0 + 1], rng.uniform(-1, 1)),) * 1 + ())
for _ in range(600):
    s = ''.join(rng.choice('0123456789ABYZabyz -_+x') for _ in range(rng.randint(0, 6)))
    cases.append(('propka.hybrid36.decode', hybrid36.decode, (s,), (s,)))
    r = ''.join(rng.choice('AB:10-9x,') for _ in range(rng.randint(1, 6)))
    cases.append(('propka.lib.parse_res_string', lib.parse_res_string, (r,), (r,)))
for _ in range(100):
    lo = round(rng.uniform(0, 7), 1)
    hi = lo + rng.randint(0, 70) / 10.0
    st = rng.choice([0.1, 0.25, 0.5, 1.0, 2.0, 0.7])
    cases.append(('propka.lib.make_grid', lib.make_grid, (lo, hi, st), (lo, hi, st)))
    cf = '%d%s' % (rng.randint(0, 30), rng.choice('ABCa1 '))
    cases.append(('propka.input.conformation_sorter', inp.conformation_sorter, (cf,), (cf,)))
for c in cases:
    name, f = c[0], c[1]
    nargs = c[2]
    eargs = c[3] if len(c) > 3 else c[2]
    n += 1
    a = native(f, nargs)
    try:
        b = engine(name, eargs)
    except Exception as e:      # Unsupported etc.
        b = ('engine-error', repr(e)[:80])
    if a[0] != b[0] or not close(a[1], b[1]):
        bad += 1
        if bad <= 10:
            print('DISAGREE', name, nargs if name.startswith(('propka.hyb', 'propka.lib', 'propka.input')) else '', 'CPython', a, 'engine', b)
# symbolic string models evaluated under concrete assignments: X.strip() == 'LIT' formula and strip_forks vs CPython
import ast as _ast
from pyvc.ctx import Ctx as _Ctx
from pyvc.core import Env as _Env
for lit in ('TER', '', 'A'):
    for L in (0, 1, 3, 5, 7):
        ex = Executor(repo)
        ex.ctx = _Ctx()
        chars = [Sym(z3.Int('ch%d' % i)) for i in range(L)]
        node = _ast.parse('line.strip() == %r' % lit, mode='eval').body
        got = ex._strip_eq_literal(node, _Env(repo.module('propka.input'), {'line': SStr(chars)})) if L else None
        for _ in range(60):
            n += 1
            txt = ''.join(rng.choice(' \tTERAX') for _ in range(L))
            want = (txt.strip() == lit)
            if got is None:
                continue
            f = got[0]
            if isinstance(f, Sym):
                val = z3.simplify(z3.substitute(f.e, *[(c.e, z3.IntVal(ord(t))) for c, t in zip(chars, txt)]))
                f = z3.is_true(val)
            if bool(f) != want:
                bad += 1
                print('DISAGREE strip-eq', repr(txt), lit, f, want)
print('difftest: %d cases, %d disagreements' % (n, bad))
sys.exit(1 if bad else 0)
