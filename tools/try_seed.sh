#!/bin/bash
# try_seed.sh <seed-id> [property] : run one check on a scratch copy of /repo with the seeded change applied (full output)
s="$1"; p="${2:-$(python3 -c "import json;print(json.load(open('/verif/seeded/$s/meta.json'))['breaks_property'])")}"
d=$(mktemp -d /tmp/tryseed-XXXX); cp -r /repo "$d/repo"; rm -rf "$d/repo/.git"
(cd "$d/repo" && patch -p1 -s -i /verif/seeded/$s/patch.diff) || { rm -rf "$d"; exit 2; }
cp /verif/evidence/$p.json "$d/ev.json"
cd /verif; VERIF_REPO="$d/repo" ./check "$p" --tier quick; rc=$?
cp "$d/ev.json" /verif/evidence/$p.json
rm -rf "$d"; echo "exit=$rc"
