#!/usr/bin/env python3
"""Record, from the evidence of a CLEAN run, which obligation families each check must generate (vacuity guard)."""
import json, os, re
V = os.path.dirname(os.path.dirname(os.path.abspath(__file__)))
req = {}
for f in sorted(os.listdir(os.path.join(V, 'evidence'))):
    e = json.load(open(os.path.join(V, 'evidence', f)))
    fam = {}
    for o in e['coverage']['obligation_list']:
        k = re.split(r'[\[\(:]', o['name'])[0].strip()[:50]
        fam[k] = fam.get(k, 0) + 1
    req[e['property_id']] = sorted(fam)
json.dump(req, open(os.path.join(V, 'props', 'required.json'), 'w'), indent=1)
print({k: len(v) for k, v in req.items()})
