#!/usr/bin/env python3
"""Regenerate MANIFEST.json from the table below (claimed properties) + properties.jsonl."""
import json, os
V = os.path.dirname(os.path.dirname(os.path.abspath(__file__)))
CLAIMED = {
 # id: (category, technique, text, note)
 'C01': ('other', 'deductive VCs from the real AST (pyvc): one arbitrary iteration of the record loop against the specification automaton (stutter/simulation rule), decision tables of the classifiers over the whole shipped mapping / ion table / ligand classes, Group.setup, extract_groups, section writer, average census; GROUND table values',
         'terminus tagging proved per record for every loop state and column content (atom-name field from listed classes); classification, model pKa assignment and once-only extraction proved; the nine table values by ground evaluation. The clause "once in the reported summary" is refuted for groups discarded due to covalent coupling (known finding D15: N-terminal Asp/His/Cys), so the level is "other".',
         'stutter rule + composition step (bounded census monitor); Atom.set_properties under contract in C07; A-ASCII'),
 'C02': ('proof', 'deductive VCs from the real AST (pyvc): representation invariant pKa = model + SUM established by calculate_total_pka (fold rule), ghost stale-flag sequencing proof of calculate_pka, swap/undo proof of the coupling probe on symbolic determinant lists, averaging, rendering ropes; frame census of writers',
         'INV proved to be established, preserved by the coupling probe and by averaging, and re-established on every path of calculate_pka; printed rows proved to be exactly the determinants. Numeric text (2 decimals) only by the bounded monitor.',
         'A-REAL; writers abstracted by the declared frame list; list shapes <= 4 in swap proofs'),
 'C03': ('other', 'frame censuses over the real AST (global/singleton state writers, ambient reads, set-iteration sites, reflection) + deductive VCs for the one mutable shared table, the singleton parameter hand-over, per-call object freshness, stream rewind, descriptor statelessness; bounded history monitor',
         'every mechanism through which an earlier computation, the cwd, the hash seed or an address could reach a result is enumerated and each is proved harmless, except the iteration order of identity-hashed sets in the coupled-residue display, which stays undecided; the quantifier over histories itself is only bounded-checked.',
         'A-REFL; composition step; CPython dict order; print_system order (-d) undecided'),
 'C04': ('other', 'deductive VCs from the real AST (pyvc): invariance / equivariance of every geometric leaf under the 24 proper signed permutations and arbitrary translations (ring normalisation), box search on a pair at arbitrary placement (C11), hydrogen placement equivariance (C17); frame census of coordinate readers and of the PDB columns',
         'squared_distance, inter-atomic vectors, group centres, angle factors, bond perception and hydrogen construction proved independent of / equivariant under the motions, for all real coordinates; coordinates proved to enter only through these leaves.',
         'A-REAL (float re-association in the last ulp: bounded pose monitor); hetero rotamers excluded as in the property. Level "other": the '
         'hydrogen clause does NOT hold for a backbone nitrogen that follows a chain break (known finding D16, refuted and replayed on every run)'),
 'C05': ('proof', 'deductive VCs from the real AST (pyvc): cut-off stutter lemmas on the desolvation / reorganisation loops, pair-enumeration proof of set_determinants with equally labelled groups, closest-pair post of get_smallest_distance over abstract squared distances, identity of Iterative objects, early return of the coupling probe; GROUND cut-offs',
         'beyond the cut-off every interaction routine leaves its state unchanged; pair loops and the iterative solver tell groups apart by identity; the closest pair is always found (no sentinel) - proved for all real inputs. Fixed point of the iterative sweep: not proved (bounded).',
         'composition step + bounded monitor (two sets at 85 A ... 9000 A, both file orders, own copy)'),
 'C06': ('other', 'deductive VCs from the real AST (pyvc) for every reader of residue/chain labels (label equality only), sort-key monotonicity, identity of equally labelled groups; frame census of the label fields; bounded relabelling monitor',
         'labels enter the numbers only through equality tests - proved for the identity the code uses (chain, number). The insertion-code clause is refuted (known finding D9), so the level is "other".',
         'composition step; atom order only permutes commutative sums (A-REAL)'),
 'C07': ('proof', 'deductive VCs from the real AST (pyvc): stutter lemmas and hydrogen-absorption lemma on the record loop, element-inference VC on a symbolic atom-name field, idempotence of protonate_atom, option plumbing; syntactic column frame of Atom.set_properties and sink-only frame of serial/occupancy/B-factor',
         'records the model ignores leave the reader state unchanged and yield nothing (all loop states, all column contents); hydrogen records are absorbed; set_properties reads only the documented columns; stored-but-unused fields reach sinks only.',
         'stutter rule + composition step; the own-hydrogens round trip and --protonate-all rest on idempotence + bounded monitor'),
 'C08': ('other', 'deductive VCs from the real AST (pyvc): average_of_conformations with the real clone/+=/divide/find_group inlined, for every presence pattern of two groups over 2 and 3 conformations (values symbolic) and for label twins; top_up_from_atoms by exhaustive ground evaluation over a stated atom universe against an independent specification; sort key VC',
         'average = arithmetic mean over the containing conformations, one entry per existing group: proved per presence pattern for all real values; top-up: no residue-type merging, exhaustive over the universe.',
         'patterns bounded to 2 groups x <= 3 conformations and a 7-atom universe (stated in evidence); residue identity = atom label as in the code (insertion codes: known finding D9). Level "other": under -d the averaged table of a single-conformation input is not the conformation\'s table (known finding D17, reported by the monitor on every run)'),
 'C09': ('proof', 'deductive VCs from the real AST (pyvc) discharged by z3: closed form/bounds/monotonicity of calculate_charge, fold rule for the container sums, inductive contract of the nested bisection, rendering contract',
         'Every obligation is a VC generated from the working tree and discharged by z3; a bounded monitor on real runs stands in for the composition step only.',
         'A-REAL, A-EXP (10**x as positive strictly monotone function), IVT for "bracket => root", termination of the bisection not proved'),
 'C12': ('proof', 'deductive safety VCs from the real AST (pyvc): setup_atoms of every group class over all subsets of the expected neighbours with abstracted protonation, interaction routines over short/empty atom lists (asserts as obligations), rejection posts of read_molecule_file, precheck; census obligations shared with C01',
         'no exception escapes the group set-up and pair-interaction code for any subset of atoms around a defining atom; missing files/suffixes are rejected with ValueError only. The pipeline as a whole is bounded-checked by random deletions.',
         'protonation abstracted; whole-pipeline exception freedom is NOT proved (bounded deletion monitor)'),
 'C13': ('proof', 'deductive VCs from the real AST (pyvc): stutter lemma and specification automaton for one arbitrary iteration of the record loop under chain selections; option plumbing VC + AST ground check of the argparse declaration; frame census of .chains',
         'records of unselected chains leave the reader state unchanged and yield nothing; all other records are processed as without the option - for every loop state and column content; hence (simulation rule) the atom sequence equals that of the file with those records deleted.',
         'stutter/simulation rule; composition step for the rest of the pipeline (bounded monitor: selection vs deletion on real runs)'),
 'C14': ('proof', 'deductive VCs from the real AST (pyvc): character-level parse of residue strings (symbolic chain/digits/icode), init_group post over list shapes incl. a symbolic entry, use_in_calculations, make_copy field frame; frame census of titrate_only / titratable readers',
         'titratable and report flags after init_group are exactly "was titratable and listed by chain, number and insertion code"; unlisted groups stay in the conformation; parse is exact.',
         'composition step (bounded monitor: listed vs titrated sets, all-residues list vs no option)'),
 'C15': ('proof', 'deductive VCs from the real AST (pyvc): swap/undo of the coupling probe on symbolic determinant lists (object identity, values, labels), involution of transfer_determinant, symmetric registration, positive-factor rule, star rule',
         'every return path of is_coupled_protonation_state_probability restores both groups exactly (over the reals); coupling marks symmetric as read by every consumer; star <=> partner.',
         'A-REAL (float sums after re-ordering: monitored to 1e-9); membership read through Group.__eq__ (labels; known finding D9 for insertion codes)'),
 'C16': ('proof', 'deductive VCs from the real AST (pyvc) for every energy / determinant constructor, preconditions = GROUND facts of the shipped propka.cfg, ghost lemmas (Lagrange identity via ring normalisation)',
         'Sign and bound postconditions (incl. frame: already listed determinants untouched) proved per constructor for all real inputs; cfg facts by exhaustive evaluation.',
         'A-REAL; callee contracts used at call sites are proved in the same run; loop rule for the desolvation sum'),
 'C10': ('proof', 'deductive VCs from the real AST (pyvc): extraction of the folding-energy expression, fold rule, optimum/range posts, make_grid count/step obligations, window filter under a real-arithmetic model of Decimal/round; Lean 4 + Mathlib for the derivative lemma',
         'd(dG)/dpH = 1.36 (Q_folded - Q_unfolded) decomposed into a z3-proved extraction VC, a z3-proved charge identity and a Lean-checked calculus lemma; grid and window posts proved over the reals, float behaviour of make_grid by an exhaustive lattice monitor.',
         'A-REAL (Decimal and round modelled over the reals), window start/step from a finite list, Lean kernel/Mathlib, range() semantics'),
 'C11': ('proof', 'deductive VCs from the real AST (pyvc): criterion spec of check_distance per element pair, whole box search on two atoms at arbitrary real coordinates (symbolic cell indices via ToInt, symbolic dict keys), cell lemma, ground check of the offset list in the AST',
         'bonds found <=> pairwise criterion proved for any placement of a pair relative to the cell grid, any sign, both orders, with prior bonds; bridge flags; Group.setup/calculate_total_pka for bridged CYS.',
         'A-REAL (floor over reals); pair-independence for n > 2 atoms argued from the coverage obligations, backed by a bounded monitor on random clouds'),
 'C17': ('proof', 'deductive VCs from the real AST (pyvc): rescale/set_bond_distance length contracts, add_proton post, electron-count ground evaluation through the real tables, hydrogen counts with abstracted geometry, obtuse-angle and equivariance obligations via pure lemmas (ring normalisation / ideal membership in sympy, z3) instantiated at the values the real code computes',
         'bond length, single heavy neighbour, number of hydrogens and the expected complement proved; 2-bond trigonal / 3-bond tetrahedral placements proved obtuse to existing bonds and equivariant under the 24 proper signed permutations; sequential placements bounded only.',
         'A-REAL, A-TRIG; "regular covalent geometry" encoded as stated bounds on bond-angle cosines; H-H >= 0.5 A for sequentially built hydrogens is bounded (monitor)'),
 'C18': ('other', 'deductive VCs from the real AST (pyvc) for the matrix invariants and the squared_property descriptor + exhaustive GROUND evaluation of the shipped propka.cfg through the real parser',
         'Invariant step of PairwiseMatrix.add from every pre-state over a 3-name universe, InteractionMatrix.add for 0-4 rows, descriptor consistency under interleaved assignments: proved. Shipped-file completeness: 3 genuine gaps recorded as known findings (so not "proof").',
         'parse_line dispatch not symbolically executed (bounded monitor on generated files); universe/row-count bounds stated in the evidence'),
 'C19': ('proof', 'deductive VCs from the real AST (pyvc), strings as symbolic code-point vectors, character-level model of int()/strip(), z3 LIA; frame census for Atom.numb',
         'Complete functional specification of decode on all printable strings up to width 5 (8 padded), round trip through the reference encoder for every segment of every width, monotonicity; serial-number independence by frame census + bounded pipeline monitor.',
         'A-ASCII; CPython int()/strip() model (cross-checked exhaustively for widths <= 3 on every run); fields wider than 5 not covered'),
 'C20': ('proof', 'deductive VCs from the real AST (pyvc): per-path alignment and conjugation obligations, pure real-arithmetic lemmas, z3 NRA (nlsat) + ring normalisation (sympy) for polynomial identities',
         'result == Rodrigues(theta, axis, vec) proved for every path of the real function, for all real inputs with a non-zero axis.',
         'A-REAL, A-TRIG (sin/cos/asin/acos axiomatised by their algebraic facts); float rounding of cos(pi/2) etc. not modelled (bounded monitor with 1e-9 tolerance)'),
}
props = [json.loads(l) for l in open(os.path.join(V, 'properties.jsonl'))]
m = {
 'version': 1,
 'setup_cmd': '/opt/veriftools/pyvenv/bin/python -m compileall -q pyvc props checkmain.py >/dev/null && ./check --selfcheck',
 'hooks': {
  'guard': 'JENSENGROUP_PROPKA_VERIF',
  'enable': 'no source hook exists: contracts are sidecar files under /verif/props and /verif/pyvc, monitors call the real code unmodified; the guard variable is set by ./check but read by nothing in /repo',
  'baseline_off_cmd': 'cd /repo && /venv/bin/python -m pytest -ra -q -p no:cacheprovider --timeout=900 --continue-on-collection-errors',
  'source_commits': [],
  'add_only': True,
 },
 'engines': [{'name': 'pyvc', 'path': 'pyvc/', 'serves_properties': sorted(CLAIMED),
              'kind_free_text': 'verification-condition generator: symbolic execution of FunctionDef nodes parsed from /repo working tree on every run; sidecar contracts; back ends z3 (default+nlsat), cvc5, sympy ring normalisation, exhaustive ground evaluation, syntactic frame census'}],
 'checks': [], 'not_applicable': [],
 'notes': 'exit 0 held / 1 VIOLATION (replay file) / 3 checker crash; UNDECIDED lines are printed when a proof is not re-established and the bounded stand-in decides; see DESIGN.md',
}
for p in props:
    pid = p['id']
    if pid in CLAIMED:
        cat, tech, text, note = CLAIMED[pid]
        m['checks'].append({
            'property_id': pid, 'quick_cmd': './check %s --tier quick' % pid, 'thorough_cmd': './check %s --tier thorough' % pid,
            'evidence_file': 'evidence/%s.json' % pid, 'replay_cmd_template': './check --replay {path}', 'engine': 'pyvc',
            'level_claimed': {'category': cat, 'text': text, 'design_ref': 'DESIGN.md section 4 (%s) and section 10 (as built)' % pid},
            'level_note': note, 'technique': tech})
    else:
        m['not_applicable'].append({'property_id': pid, 'reason': 'deductive core not constructed yet (framework under construction); not claimed on the strength of a monitor alone'})
json.dump(m, open(os.path.join(V, 'MANIFEST.json'), 'w'), indent=1)
print('claimed', sorted(CLAIMED))
