#!/usr/bin/env python3
"""Run every claimed check (quick tier) on the current tree, validate evidence against the schema."""
import json, os, subprocess, sys, time
from concurrent.futures import ThreadPoolExecutor
V = os.path.dirname(os.path.dirname(os.path.abspath(__file__)))
m = json.load(open(os.path.join(V, 'MANIFEST.json')))
tier = sys.argv[1] if len(sys.argv) > 1 else 'quick'
def run(c):
    t = time.time()
    cmd = c['quick_cmd'] if tier == 'quick' else c.get('thorough_cmd', c['quick_cmd'])
    p = subprocess.run(cmd, shell=True, cwd=V, capture_output=True, text=True)
    return c['property_id'], p.returncode, time.time() - t, [l for l in p.stdout.splitlines() if l.startswith(('VIOL', 'UNDEC', 'KNOWN', 'CHECKER'))]
bad = 0
with ThreadPoolExecutor(max_workers=3) as pool:
    for pid, rc, dt, lines in pool.map(run, m['checks']):
        print(pid, 'exit', rc, '%.0fs' % dt, '|', '; '.join(l[:100] for l in lines[:3]))
        bad += rc != 0
r = subprocess.run(['/opt/veriftools/pyvenv/bin/python', '-c', '''
import json, jsonschema, sys
m = json.load(open("MANIFEST.json")); es = json.load(open("/root/.vp/EVIDENCE.schema.json"))
jsonschema.validate(m, json.load(open("/root/.vp/MANIFEST.schema.json")))
for c in m["checks"]:
    e = json.load(open(c["evidence_file"])); jsonschema.validate(e, es)
    lvl = c["level_claimed"]["category"]
    if e["level"] != lvl or (lvl == "proof" and e["coverage"]["obligations"] != e["coverage"]["discharged"]):
        print("EVIDENCE MISMATCH", c["property_id"], e["level"], lvl, e["coverage"]["obligations"], e["coverage"]["discharged"])
print("schemas ok")
'''], cwd=V, capture_output=True, text=True)
print(r.stdout, r.stderr[-500:])
sys.exit(1 if bad else 0)
