#!/bin/bash
# try_patch.sh <patch.diff> <property> : run one quick check on a scratch copy of /repo with the patch applied
pf="$1"; p="$2"
d=$(mktemp -d /tmp/trypatch-XXXX); cp -r /repo "$d/repo"; rm -rf "$d/repo/.git"
(cd "$d/repo" && patch -p1 -s -i "$pf") || { rm -rf "$d"; exit 2; }
cp -r /verif "$d/verif"; rm -rf "$d/verif/.git" "$d/verif/seeded" "$d/verif/replays"
cd "$d/verif"; VERIF_REPO="$d/repo" ./check "$p" --tier quick | sed "s#$d##g"; rc=${PIPESTATUS[0]}
rm -rf "$d"; echo "exit=$rc"
