#!/usr/bin/env python3
"""Harmless refactors (selftest/harmless/*) must keep every listed check at exit 0 (no false alarm). Scratch copies under /tmp."""
import json, os, shutil, subprocess, sys, tempfile
from concurrent.futures import ThreadPoolExecutor
V = os.path.dirname(os.path.dirname(os.path.abspath(__file__)))
H = os.path.join(V, 'selftest', 'harmless')
jobs = []
for h in sorted(os.listdir(H)):
    if os.path.isdir(os.path.join(H, h)) and (not sys.argv[1:] or h in sys.argv[1:]):
        for p in json.load(open(os.path.join(H, h, 'meta.json')))['checks'].split(','):
            jobs.append((h, p))
def work(j):
    h, p = j
    d = tempfile.mkdtemp(prefix='harmless-')
    try:
        repo, ver = os.path.join(d, 'repo'), os.path.join(d, 'verif')
        shutil.copytree('/repo', repo, ignore=shutil.ignore_patterns('.git', '__pycache__'))
        shutil.copytree(V, ver, ignore=shutil.ignore_patterns('.git', '__pycache__', 'replays', 'seeded'))
        r = subprocess.run(['patch', '-p1', '-s', '-i', os.path.join(H, h, 'patch.diff')], cwd=repo, capture_output=True, text=True)
        assert r.returncode == 0, r.stdout
        c = subprocess.run(['./check', p, '--tier', 'quick'], cwd=ver, capture_output=True, text=True, env=dict(os.environ, VERIF_REPO=repo))
        und = [l for l in c.stdout.splitlines() if l.startswith('UNDECIDED')]
        return h, p, c.returncode, len(und), (und[0][:160] if und else c.stdout.strip().splitlines()[-1][:120])
    finally:
        shutil.rmtree(d, ignore_errors=True)
bad = 0
res = {}
with ThreadPoolExecutor(max_workers=4) as pool:
    for h, p, rc, nu, msg in pool.map(work, jobs):
        print(h, p, 'exit', rc, 'undecided', nu, '|', msg)
        res['%s/%s' % (h, p)] = {'exit': rc, 'undecided': nu}
        bad += rc != 0
rp = os.path.join(V, 'selftest', 'harmless', 'RESULTS.json')
if sys.argv[1:] and os.path.exists(rp):
    res = dict(json.load(open(rp)), **res)
json.dump(res, open(rp, 'w'), indent=1, sort_keys=True)
print('FALSE ALARMS:', bad)
sys.exit(1 if bad else 0)
