#!/usr/bin/env python3
"""store_round.py <round-dir> <letters> <round-no>: validate the sub-agents' changes (<round-dir>/Cxx/_seed/<letter>) with
tools/validate_seed.sh and store the confirmed ones as /verif/seeded/Cxx<letter> (patch.diff, demo.py, notes.md, meta.json)."""
import json, os, re, shutil, subprocess, sys
from concurrent.futures import ThreadPoolExecutor
V = os.path.dirname(os.path.dirname(os.path.abspath(__file__)))
rd, letters, rno = sys.argv[1], sys.argv[2], sys.argv[3]
only = sys.argv[4:]
head = subprocess.run(['git', '-C', '/repo', 'rev-parse', '--short', 'HEAD'], capture_output=True, text=True).stdout.strip()
jobs = []
for i in range(1, 21):
    pid = 'C%02d' % i
    for L in letters:
        src = os.path.join(rd, pid, '_seed', L)
        if only and pid + L not in only:
            continue
        if os.path.exists(os.path.join(src, 'patch.diff')) and os.path.exists(os.path.join(src, 'demo.py')):
            jobs.append((pid, L, src))
        else:
            print(pid + L, 'MISSING')
def work(j):
    pid, L, src = j
    r = subprocess.run([os.path.join(V, 'tools', 'validate_seed.sh'), src, pid + L], capture_output=True, text=True)
    return j, r.stdout.strip().splitlines()[-1] if r.stdout.strip() else r.stderr[-200:]
ok = 0
with ThreadPoolExecutor(max_workers=6) as pool:
    for (pid, L, src), line in pool.map(work, jobs):
        m = re.search(r'base_demo=(\d+) pytest=(\d+) \((.*?)\) mutant_demo=(\d+)', line)
        good = bool(m) and m.group(1) == '0' and m.group(2) == '0' and m.group(4) == '1' and '49 passed' in m.group(3)
        print(line, '-> STORED' if good else '-> REJECTED')
        if not good:
            continue
        ok += 1
        dst = os.path.join(V, 'seeded', pid + L)
        shutil.rmtree(dst, ignore_errors=True)
        os.makedirs(dst)
        for f in os.listdir(src):
            if os.path.isfile(os.path.join(src, f)) and os.path.getsize(os.path.join(src, f)) < 400000:
                shutil.copy(os.path.join(src, f), dst)
        files = sorted(set(re.findall(r'^\+\+\+ b/(\S+)', open(os.path.join(dst, 'patch.diff')).read(), re.M)))
        meta = {'id': pid + L, 'breaks_property': pid, 'files_touched': files,
                'origin': 'independent sub-agent (round %s) given only the property text, a short description of the earlier rounds\' changes '
                          'to avoid, and a scratch worktree (prompt: tools/seeding/PROMPT_round%s.txt)' % (rno, rno),
                'needs_to_manifest': 'see notes.md (written by the sub-agent)',
                'confirmed': {'procedure': 'tools/validate_seed.sh on a fresh worktree of /repo HEAD: demo without patch, git apply, full '
                                           'pytest suite, demo with patch', 'demo_without_change_exit': 0, 'pytest_with_change': '49 passed',
                              'demo_with_change_exit': 1, 'repo_head': head},
                'what_i_ran': 'tools/validate_seed.sh (confirmation) and tools/run_seeded_par.py (detection) - see DESIGN.md 10.7'}
        json.dump(meta, open(os.path.join(dst, 'meta.json'), 'w'), indent=1, sort_keys=True)
print('stored', ok, 'of', len(jobs))
