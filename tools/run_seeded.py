#!/usr/bin/env python3
"""Apply each seeded change to /repo, run the given checks, undo it straight afterwards.
usage: tools/run_seeded.py [--props C20,C19] [--seeds C20a,C20b] [--tier quick]
Writes seeded/RESULTS.json (merged).  /repo must be clean before and is clean after."""
import argparse, json, os, subprocess, sys
V = os.path.dirname(os.path.dirname(os.path.abspath(__file__)))
ap = argparse.ArgumentParser(); ap.add_argument('--props'); ap.add_argument('--seeds'); ap.add_argument('--tier', default='quick')
a = ap.parse_args()
def sh(cmd, **k): return subprocess.run(cmd, shell=True, capture_output=True, text=True, **k)
assert sh('git -C /repo status --porcelain --untracked-files=no').stdout.strip() == '', '/repo not clean'
seeds = sorted(os.listdir(os.path.join(V, 'seeded')))
seeds = [s for s in seeds if os.path.isdir(os.path.join(V, 'seeded', s))]
if a.seeds: seeds = [s for s in seeds if s in a.seeds.split(',')]
import shutil, tempfile
evbak = tempfile.mkdtemp(prefix='evbak')
shutil.copytree(os.path.join(V, 'evidence'), os.path.join(evbak, 'evidence'))
respath = os.path.join(V, 'seeded', 'RESULTS.json')
res = json.load(open(respath)) if os.path.exists(respath) else {}
for s in seeds:
    props = a.props.split(',') if a.props else [s[:3]]
    patch = os.path.join(V, 'seeded', s, 'patch.diff')
    r = sh('git -C /repo apply %s' % patch)
    if r.returncode != 0:
        print(s, 'PATCH DOES NOT APPLY', r.stderr.strip()[:200]); continue
    try:
        for p in props:
            c = sh('cd %s && ./check %s --tier %s' % (V, p, a.tier))
            lines = [l for l in c.stdout.splitlines() if l.startswith(('VIOLATION', 'UNDECIDED', 'KNOWN', 'CHECKER'))]
            res.setdefault(s, {})[p] = {'exit': c.returncode, 'lines': lines[:6]}
            print(s, p, 'exit', c.returncode, '|', (lines[0][:150] if lines else c.stdout.strip().splitlines()[-1:] ))
    finally:
        sh('git -C /repo checkout -- .')
json.dump(res, open(respath, 'w'), indent=1, sort_keys=True)
shutil.rmtree(os.path.join(V, 'evidence'))
shutil.copytree(os.path.join(evbak, 'evidence'), os.path.join(V, 'evidence'))
shutil.rmtree(evbak)
