#!/usr/bin/env python3
"""Refresh the obligation counts (and level) of DESIGN.md 10.3 from evidence/*.json (quick tier, unchanged tree)."""
import json, os, re
V = os.path.dirname(os.path.dirname(os.path.abspath(__file__)))
p = os.path.join(V, 'DESIGN.md')
s = open(p).read()
for i in range(1, 21):
    pid = 'C%02d' % i
    e = json.load(open(os.path.join(V, 'evidence', pid + '.json')))
    c = e['coverage']
    kf = len(c.get('known_findings_reported') or [])
    cell = '%d%s' % (c['obligations'], ' (%d known finding%s)' % (kf, 's' if kf > 1 else '') if kf else '')
    s, n = re.subn(r'(?m)^\| %s \| \w+ \| [^|]* \|' % pid, '| %s | %s | %s |' % (pid, e['level'], cell), s, count=1)
    assert n == 1, pid
open(p, 'w').write(s)
print('ok')
