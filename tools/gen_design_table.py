#!/usr/bin/env python3
"""Regenerate the 'which check catches which change' table in DESIGN.md from seeded/RESULTS.json and the notes."""
import json, os, re
V = os.path.dirname(os.path.dirname(os.path.abspath(__file__)))
res = json.load(open(os.path.join(V, 'seeded', 'RESULTS.json')))
rows = ['| change | property | what it does / needs to manifest | verdict of ./check | deciding obligation (first reported) |', '|---|---|---|---|---|']
for s in sorted(res):
    r = res[s]
    d = os.path.join(V, 'seeded', s)
    what = ''
    if os.path.exists(os.path.join(d, 'notes.md')):
        txt = open(os.path.join(d, 'notes.md')).read()
        m = re.search(r'(?im)^[-* ]*\**(?:change|what)[^:\n]*:\**\s*(.+)$', txt)
        what = (m.group(1) if m else [l for l in txt.splitlines() if l.strip() and not l.startswith('#')][0]).strip()
    else:
        what = json.load(open(os.path.join(d, 'meta.json'))).get('origin', '')
    what = re.sub(r'[|`]', '', what)[:150]
    fv = r.get('first_violation') or ''
    m = re.search(r'replays/C\d\d-(.+?)-[0-9a-f]{10}\.json', fv)
    ob = (m.group(1).replace('_', ' ')[:70] if m else '')
    kind = 'bounded monitor' if 'monitor' in ob else ('proof obligation' if ob else '')
    rows.append('| %s | %s | %s | exit %s%s | %s: %s |' % (s, r.get('property'), what, r.get('exit'),
                ' (no-failing-input-found)' if 'no-failing' in fv else (' (replayed)' if fv else ''), kind, ob))
table = '\n'.join(rows)
p = os.path.join(V, 'DESIGN.md')
s = open(p).read()
a, b = '<!-- SEEDED-TABLE-BEGIN -->', '<!-- SEEDED-TABLE-END -->'
if a in s:
    s = s[:s.index(a) + len(a)] + '\n' + table + '\n' + s[s.index(b):]
    open(p, 'w').write(s)
print(len(rows) - 2, 'rows')
