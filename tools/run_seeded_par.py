#!/usr/bin/env python3
"""Run every seeded change against its own property's check, on scratch COPIES of /repo (VERIF_REPO), in parallel.
Scratch copies live under /tmp and are removed afterwards. Writes seeded/RESULTS.json."""
import json, os, shutil, subprocess, sys, tempfile
from concurrent.futures import ThreadPoolExecutor
V = os.path.dirname(os.path.dirname(os.path.abspath(__file__)))
seeds = sorted(d for d in os.listdir(os.path.join(V, 'seeded')) if os.path.isdir(os.path.join(V, 'seeded', d)))
if len(sys.argv) > 1:
    seeds = [s for s in seeds if s in sys.argv[1].split(',')]
def prop_of(s):
    return json.load(open(os.path.join(V, 'seeded', s, 'meta.json')))['breaks_property']
def work(s):
    d = tempfile.mkdtemp(prefix='seedrun-')
    repo = os.path.join(d, 'repo')
    ver = os.path.join(d, 'verif')
    try:
        shutil.copytree('/repo', repo, ignore=shutil.ignore_patterns('.git', '__pycache__'))
        shutil.copytree(V, ver, ignore=shutil.ignore_patterns('.git', '__pycache__', 'replays', 'seeded'))
        r = subprocess.run(['patch', '-p1', '-s', '-i', os.path.join(V, 'seeded', s, 'patch.diff')], cwd=repo, capture_output=True, text=True)
        if r.returncode != 0:
            return s, {'error': 'patch failed: ' + r.stdout[-200:]}
        p = prop_of(s)
        env = dict(os.environ, VERIF_REPO=repo)
        c = subprocess.run(['./check', p, '--tier', 'quick'], cwd=ver, capture_output=True, text=True, env=env)
        lines = [l for l in c.stdout.splitlines() if l.startswith(('VIOLATION', 'UNDECIDED', 'KNOWN', 'CHECKER'))]
        viol = [l for l in lines if l.startswith('VIOLATION')]
        return s, {'property': p, 'exit': c.returncode, 'first_violation': (viol[0][:220] if viol else None), 'n_violations': len(viol),
                   'n_undecided': len([l for l in lines if l.startswith('UNDECIDED')])}
    finally:
        shutil.rmtree(d, ignore_errors=True)
res = {}
with ThreadPoolExecutor(max_workers=4) as pool:
    for s, r in pool.map(work, seeds):
        res[s] = r
        print(s, r.get('property'), 'exit', r.get('exit'), '|', (r.get('first_violation') or r.get('error') or '')[:140])
path = os.path.join(V, 'seeded', 'RESULTS.json')
old = json.load(open(path)) if os.path.exists(path) else {}
old = {k: v for k, v in old.items() if isinstance(v, dict) and 'exit' in v}
old.update(res)
json.dump(old, open(path, 'w'), indent=1, sort_keys=True)
missed = [s for s, r in res.items() if r.get('exit') != 1]
print('MISSED:', missed)
