#!/bin/bash
# validate_seed.sh <dir-with-patch.diff+demo.py> <tag>  : confirm on a fresh worktree of /repo HEAD
src="$1"; tag="$2"; wt="/tmp/seedval/$tag"
rm -rf "$wt"; mkdir -p /tmp/seedval
git -C /repo worktree add --detach "$wt" HEAD -q || { echo "$tag worktree-failed"; exit 1; }
cd "$wt"; mkdir -p _seed/x; cp -r "$src"/. _seed/x/
/venv/bin/python _seed/x/demo.py >/tmp/seedval/$tag.base.log 2>&1; base=$?
if git apply --check "$src/patch.diff" 2>/dev/null; then
  git apply "$src/patch.diff"
  /venv/bin/python -m pytest -q -p no:cacheprovider >/tmp/seedval/$tag.pytest.log 2>&1; pt=$?
  passed=$(tail -1 /tmp/seedval/$tag.pytest.log)
  /venv/bin/python _seed/x/demo.py >/tmp/seedval/$tag.mut.log 2>&1; mut=$?
  echo "$tag base_demo=$base pytest=$pt ($passed) mutant_demo=$mut"
else
  echo "$tag PATCH-DOES-NOT-APPLY base_demo=$base"
fi
cd /; git -C /repo worktree remove --force "$wt"
