"""C20 - rotation about an axis is the right-handed (Rodrigues) rotation for every axis.

Deductive core (per path of the REAL rotate_vector_around_an_axis):
  cuts   gamma-block: rotated axis has y == 0 and x == +-sqrt(x0^2+y0^2)      (aux)
  align  the two alignment rotations take the axis to (0, 0, |axis|), i.e. +z  (aux)
  axis-form / conj-form: the locals are M.axis0 and Rz(-g)Ry(-b)Rz(t)Ry(b)Rz(g).vec0 (aux)
  lemma-axis, lemma-rodrigues: pure real-arithmetic lemmas (for all unit pairs)  (aux)
  rodrigues: result == Rodrigues(theta, axis, vec)                              (TOP, from the property)
  no-exception for a non-zero axis                                              (TOP)
plus exact contracts of rotate_atoms_around_z/y_axis and Matrix4x4.__matmul__.
"""
import math
import random

from .common import *   # noqa: F401,F403

FN = 'propka.vector_algebra.rotate_vector_around_an_axis'


def rz(c, s, v):
    return (c * v[0] - s * v[1], s * v[0] + c * v[1], v[2])


def ry(c, s, v):
    return (c * v[0] + s * v[2], v[1], -1 * s * v[0] + c * v[2])


def rodrigues_n2(n, ct, st, a, v):
    """n^2 * Rodrigues(theta, a, v) for |a| = n (polynomial form, no division)."""
    ax, ay, az = a
    vx, vy, vz = v
    cx, cy, cz = ay * vz - az * vy, az * vx - ax * vz, ax * vy - ay * vx
    d = ax * vx + ay * vy + az * vz
    return (vx * n * n * ct + cx * n * st + ax * d * (1 - ct),
            vy * n * n * ct + cy * n * st + ay * d * (1 - ct),
            vz * n * n * ct + cz * n * st + az * d * (1 - ct))


REPLAY = r'''
import math, sys
from propka.vector_algebra import Vector, rotate_vector_around_an_axis as rot
def rodrigues(t, a, v):
    n = math.sqrt(sum(x*x for x in a)); k = [x/n for x in a]
    c, s = math.cos(t), math.sin(t)
    kxv = [k[1]*v[2]-k[2]*v[1], k[2]*v[0]-k[0]*v[2], k[0]*v[1]-k[1]*v[0]]
    kd = sum(x*y for x, y in zip(k, v))
    return [v[i]*c + kxv[i]*s + k[i]*kd*(1-c) for i in range(3)]
axis = %(axis)r; vec0 = %(vec)r; thetas = %(thetas)r
bad = 0
vecs = [vec0, [1.0, 2.0, 3.0], [-0.7, 0.4, 1.9]]
for t in thetas:
    for v in vecs:
        try:
            r = rot(t, Vector(*axis), Vector(*v))
            got = [r.x, r.y, r.z]
        except Exception as e:
            print('EXCEPTION', type(e).__name__, e, 'theta', t, 'axis', axis, 'vec', v); bad += 1; continue
        exp = rodrigues(t, axis, v)
        scale = 1.0 + max(abs(x) for x in v)
        if max(abs(g-e) for g, e in zip(got, exp)) > %(tol)r*scale:
            print('MISMATCH theta', t, 'axis', axis, 'vec', v, 'got', got, 'expected', exp); bad += 1
print('violations:', bad)
sys.exit(1 if bad else 0)
'''


def replay_builder(model):
    axis = [mval(model, 'axis_%s' % c) for c in 'xyz']
    if all(a == 0 for a in axis):
        raise ValueError('model has a zero axis')
    vec = [mval(model, 'vec_%s' % c, 1.0) for c in 'xyz']
    if all(v == 0 for v in vec):
        vec = [1.0, 1.0, 0.3]
    th = mval(model, 'theta', 0.7)
    thetas = [th if abs(th) < 50 else 0.7, 0.7, -2.1, 1.3]
    return REPLAY % {'axis': axis, 'vec': vec, 'thetas': thetas, 'tol': 1e-9}


def pure_lemmas():
    cg, sg, cb, sb, ct, st = [R(x) for x in 'L_cg L_sg L_cb L_sb L_ct L_st'.split()]
    ax, ay, az, vx, vy, vz, n = [R(x) for x in 'L_ax L_ay L_az L_vx L_vy L_vz L_n'.split()]
    hy = [cg * cg + sg * sg == 1, cb * cb + sb * sb == 1, ct * ct + st * st == 1, n > 0]
    m = ry(cb, sb, rz(cg, sg, (ax, ay, az)))
    hy += [m[0] == 0, m[1] == 0, m[2] == n]
    k = (-1 * sb * cg, sb * sg, cb)
    v = (vx, vy, vz)
    w = rz(cg, -1 * sg, ry(cb, -1 * sb, rz(ct, st, ry(cb, sb, rz(cg, sg, v)))))
    rod = rodrigues_n2(n, ct, st, (ax, ay, az), v)
    axis_nk = And(ax == n * k[0], ay == n * k[1], az == n * k[2])
    l1 = lemma('lemma-axis: M.a = (0,0,n) => a = n.M^T.ez  (for all unit (cg,sg),(cb,sb))', hy, axis_nk)
    l2 = lemma('lemma-rodrigues: a = n.k => conjugation(v) = Rodrigues(theta, a, v)', hy + [axis_nk],
               And(*[w[i] * n * n == rod[i] for i in range(3)]))
    return [l1, l2]


def cs(ctx, x):
    if isinstance(x, Sym):
        return ctx.cos(x), ctx.sin(x)
    if x == 0:
        return 1, 0
    return ctx.cos(Sym(to_z3(x))), ctx.sin(Sym(to_z3(x)))


def to_z3(x):
    from pyvc.values import real_val
    return real_val(x)


def after_gamma(ex, ctx, env):
    a = env.local['axis']
    a0 = ctx.inputs['axis']
    if a is a0:
        return
    x0, y0 = a0.attrs['x'], a0.attrs['y']
    r1 = ctx.sqrt(x0 * x0 + y0 * y0)
    ctx.cut('gamma-block: rotated axis has y == 0', a.attrs['y'] == 0)
    ctx.cut('gamma-block: rotated axis x == -sign(x0).sqrt(x0^2+y0^2) (x0 == 0: -y0)',
            And(Implies(x0 > 0, a.attrs['x'] == r1), Implies(x0 < 0, a.attrs['x'] == -1 * r1),
                Implies(x0 == 0, a.attrs['x'] == -1 * y0)))


def run(pr, repo):
    task_rotation(pr, repo)
    bounded(pr)


def task_rotation(pr, repo):
    ex = Executor(repo)
    fi = repo.func(FN)
    V = repo.cls('propka.vector_algebra.Vector')
    pr.under_contract(fi)
    for n in ('rotate_atoms_around_z_axis', 'rotate_atoms_around_y_axis', 'Matrix4x4.__matmul__',
              'Matrix4x4.__init__', 'Vector.__init__'):
        pr.under_contract(repo.func('propka.vector_algebra.' + n), how='exact contract proved, then inlined')
    ex.stmt_hooks[(FN, 'if axis.y != 0')] = after_gamma

    # ---- exact contracts of the helpers (proved on the real bodies)
    def helper_thunk(ex, ctx):
        th = Ctx.var('h_theta')
        c, s = ctx.cos(th), ctx.sin(th)
        v = xyz('h_v', V)
        mz = ex.call_function(repo.func('propka.vector_algebra.rotate_atoms_around_z_axis'), [th])
        my = ex.call_function(repo.func('propka.vector_algebra.rotate_atoms_around_y_axis'), [th])
        rzv = ex.binop(__import__('ast').MatMult(), mz, v)
        ryv = ex.binop(__import__('ast').MatMult(), my, v)
        vv = (v.attrs['x'], v.attrs['y'], v.attrs['z'])
        ez, ey = rz(c, s, vv), ry(c, s, vv)
        ctx.oblige('rotate_atoms_around_z_axis(t) @ v == Rz(t).v',
                   And(*[rzv.attrs[k] == ez[i] for i, k in enumerate('xyz')]), kind='aux')
        ctx.oblige('rotate_atoms_around_y_axis(t) @ v == Ry(t).v',
                   And(*[ryv.attrs[k] == ey[i] for i, k in enumerate('xyz')]), kind='aux')
        ctx.oblige('vacuity guard: helper contract with a false post is refuted', False, kind='aux',
                   meta={'expect': 'refuted'})
    pr.explore(ex, helper_thunk, 'helper contracts (rotate_atoms_around_z/y_axis, Matrix4x4.__matmul__)')

    # ---- pure lemmas
    lem = pure_lemmas()
    for l in lem:
        pr.add(l)

    # ---- the function itself
    def thunk(ex, ctx):
        theta = Ctx.var('theta')
        axis = xyz('axis', V)
        vec = xyz('vec', V)
        ctx.inputs = {'axis': axis, 'vec': vec, 'theta': theta}
        a0 = tuple(axis.attrs[c] for c in 'xyz')
        v0 = tuple(vec.attrs[c] for c in 'xyz')
        # precondition from the property: any non-zero axis
        ctx.assume(Or(a0[0] != 0, a0[1] != 0, a0[2] != 0))
        try:
            r = ex.call_function(fi, [theta, axis, vec])
            ctx.oblige('frame: the caller\'s axis and vector objects are left as they were (a Vector that is used again rotates about '
                       'the same axis)', And(*([axis.attrs[c] == a0['xyz'.index(c)] for c in 'xyz'] + [vec.attrs[c] == v0['xyz'.index(c)] for c in 'xyz'])
                                            + [r is not axis and r is not vec]), kind='top')
        except PyRaise as e:
            ctx.oblige('no exception for a non-zero axis (path raises %s)' % e.exc_name, False, kind='top',
                       meta={'replay': replay_builder})
            raise
        env = ex.top_env.local
        a, g, b = env['axis'], env['gamma'], env['beta']
        n = ctx.sqrt(a0[0] * a0[0] + a0[1] * a0[1] + a0[2] * a0[2])
        ctx.cut('|axis| > 0', n > 0)
        cg, sg = cs(ctx, g)
        cb, sb = cs(ctx, b)
        ct, st = ctx.cos(theta), ctx.sin(theta)
        m = ry(cb, sb, rz(cg, sg, a0))
        ctx.cut('axis-form: local axis == Ry(beta).Rz(gamma).axis0',
                And(*[a.attrs[k] == m[i] for i, k in enumerate('xyz')]), meta={'replay': replay_builder})
        ctx.cut('align: the alignment rotations take the axis to +z',
                And(a.attrs['x'] == 0, a.attrs['y'] == 0, a.attrs['z'] == n), meta={'replay': replay_builder})
        w = rz(cg, -1 * sg, ry(cb, -1 * sb, rz(ct, st, ry(cb, sb, rz(cg, sg, v0)))))
        ctx.cut('conj-form: result == Rz(-g).Ry(-b).Rz(theta).Ry(b).Rz(g).vec0',
                And(*[r.attrs[k] == w[i] for i, k in enumerate('xyz')]), meta={'replay': replay_builder, 'ring': True})
        # instantiate the two proved lemmas at this path's terms
        k = (-1 * sb * cg, sb * sg, cb)
        axis_nk = And(a0[0] == n * k[0], a0[1] == n * k[1], a0[2] == n * k[2])
        units = And(cg * cg + sg * sg == 1, cb * cb + sb * sb == 1, ct * ct + st * st == 1, n > 0)
        prem = And(units, m[0] == 0, m[1] == 0, m[2] == n)
        ctx.cut('lemma premises hold (unit pairs, M.axis0 = (0,0,n))', prem)
        rod = rodrigues_n2(n, ct, st, a0, v0)
        ctx.assume(Implies(prem, axis_nk), kind='def')                                      # lemma-axis instance
        ctx.assume(Implies(And(prem, axis_nk), And(*[w[i] * n * n == rod[i] for i in range(3)])), kind='def')  # lemma-rodrigues
        # r == w has just been cut (conj-form), so the post is stated on w
        ctx.oblige('rodrigues: result == Rodrigues(theta, axis, vec) (n^2-scaled polynomial form; result = conj-form)',
                   And(*[w[i] * n * n == rod[i] for i in range(3)]), kind='top',
                   meta={'replay': replay_builder})
        return r
    paths = pr.explore(ex, thunk, FN)
    pr.notes.append('%d paths of %s explored' % (len(paths), FN))
    pr.assumptions.append('the two pure lemmas are used as instantiated hypotheses of the final obligation only after '
                          'being proved for all reals in the same run')
    pr.samples = ['path decisions %s -> %s' % (c.taken, k) for c, k, _ in paths[:6]]


def bounded(pr):
    """Bounded stand-in (labelled as such): real function vs closed form on the 26 zero/sign
    axis families and random triples."""
    native_setup()
    import importlib
    va = importlib.import_module('propka.vector_algebra')
    rng = random.Random(pr.seed)
    n_rand = 300 if pr.tier == 'quick' else 20000
    axes = []
    for sx in (-1, 0, 1):
        for sy in (-1, 0, 1):
            for sz in (-1, 0, 1):
                if (sx, sy, sz) != (0, 0, 0):
                    for mag in ((1.0, 1.0, 1.0), (0.3, 2.0, 1.7), (5.0, 0.001, 40.0)):
                        axes.append((sx * mag[0], sy * mag[1], sz * mag[2]))
    for _ in range(n_rand):
        axes.append(tuple(rng.uniform(-10, 10) for _ in range(3)))
    # axes ALMOST along a coordinate axis (the tilt angles of the alignment round to 0 or pi in floating point while the in-plane
    # angle is of full size); compared with the looser tolerance 1e-6 because acos is ill-conditioned there
    near = []
    for main in range(3):
        for sgn in (1.0, -1.0):
            for eps in (1e-6, 1e-9, 1e-12):
                for da, db in ((1.0, 0.0), (0.0, 1.0), (-0.8, 0.6), (0.6, -0.8)):
                    a = [0.0, 0.0, 0.0]
                    a[main] = sgn * (1.0 if eps != 1e-9 else 4.0)
                    a[(main + 1) % 3] = da * eps
                    a[(main + 2) % 3] = db * eps
                    near.append(tuple(a))
    n_regular = len(axes)
    axes += near
    thetas = [0.0, 0.7, -2.1, math.pi / 2, math.pi, -math.pi, 3 * math.pi, 2 * math.pi, 3.9, -0.001]
    vecs = [(1.0, 1.0, 0.3), (-0.7, 0.4, 1.9), (0.0, 0.0, 1.0), (2.0, 0.0, 0.0)]
    ev = 0
    viol = []
    fams = set()
    for ia, a in enumerate(axes):
        tol = 1e-9 if ia < n_regular else 1e-6
        fams.add(tuple((x > 0) - (x < 0) for x in a) + (ia >= n_regular,))
        nrm = math.sqrt(sum(x * x for x in a))
        k = [x / nrm for x in a]
        for t in thetas:
            c, s = math.cos(t), math.sin(t)
            # ... and vectors along the axis itself (parallel, antiparallel): they stay where they are
            for v in vecs + [tuple(x * 1.0 for x in a), tuple(x * -2.5 for x in a)]:
                ev += 1
                try:
                    r = va.rotate_vector_around_an_axis(t, va.Vector(*a), va.Vector(*v))
                    got = (r.x, r.y, r.z)
                except Exception as e:     # noqa
                    got = None
                kxv = (k[1] * v[2] - k[2] * v[1], k[2] * v[0] - k[0] * v[2], k[0] * v[1] - k[1] * v[0])
                kd = sum(x * y for x, y in zip(k, v))
                exp = [v[i] * c + kxv[i] * s + k[i] * kd * (1 - c) for i in range(3)]
                if got is None or max(abs(g - e) for g, e in zip(got, exp)) > tol * (1 + max(abs(x) for x in v)):
                    if len(viol) < 3:
                        viol.append({'what': 'rotate_vector_around_an_axis(%r, %r, %r) = %r, Rodrigues = %r' % (t, a, v, got, exp),
                                     'replay': REPLAY % {'axis': list(a), 'vec': list(v), 'thetas': [t], 'tol': tol}})
    # one axis / vector object re-used and changed in place between calls (callers such as protonate.py keep Vector objects)
    ax_obj, v_obj = va.Vector(0, 0, 1), va.Vector(1, 0, 0)
    for a in axes[:60]:
        ax_obj.x, ax_obj.y, ax_obj.z = a
        v = vecs[len(fams) % len(vecs)]
        v_obj.x, v_obj.y, v_obj.z = v
        t = 0.7
        ev += 1
        nrm = math.sqrt(sum(x * x for x in a))
        k = [x / nrm for x in a]
        c, s = math.cos(t), math.sin(t)
        kxv = (k[1] * v[2] - k[2] * v[1], k[2] * v[0] - k[0] * v[2], k[0] * v[1] - k[1] * v[0])
        kd = sum(x * y for x, y in zip(k, v))
        exp = [v[i] * c + kxv[i] * s + k[i] * kd * (1 - c) for i in range(3)]
        try:
            r = va.rotate_vector_around_an_axis(t, ax_obj, v_obj)
            got = (r.x, r.y, r.z)
        except Exception:    # noqa
            got = None
        if got is None or max(abs(g - e) for g, e in zip(got, exp)) > 1e-9 * (1 + max(abs(x) for x in v)):
            if len(viol) < 3:
                viol.append({'what': 'axis object re-used and set to %r in place: result %r, Rodrigues %r' % (a, got, exp), 'replay': None})
    pr.bounded.append({'name': 'C20-monitor: real function vs closed form', 'evaluations': ev,
                       'distinct_nontrivial': len(fams), 'bound': '%d axes x %d angles x %d vectors' % (len(axes), len(thetas), len(vecs)),
                       'rule': 'all 26 zero/sign families of the axis at 3 magnitudes + %d random axes; distinct = sign families hit' % n_rand,
                       'violations': viol})
