"""C17 - added hydrogens are chemically placed and complete.

  BD  Protonate.set_bond_distance: |result| == tabulated X-H length (1.0 for untabulated elements), direction kept   (TOP)
  AP  Protonate.add_proton: stored coordinates within 0.0005 of the requested position (round to 3 decimals),
      new hydrogen bonded to exactly this heavy atom, heavy atom's bond list grows by exactly this hydrogen,
      protons-to-add decreases by one, hydrogen joins the atom's conformation with the atom's residue labels     (TOP)
  EC  electron count (real set_charge / set_number_of_protons_to_add / set_steric_number_and_lone_pairs and the real
      pi-electron tables): His ND1/NE2 1+1, Arg NE 1, NH1/NH2 2+2, Asn ND2 / Gln NE2 2, Trp NE1 1, backbone N 1
      (Pro and N-terminus excepted), each with steric number 3                                                   (TOP, ground)
  CT  trigonal / tetrahedral add min(protons to add, steric number - bonds) hydrogens (geometry abstracted)       (TOP)
  OB  2-bond trigonal and 3-bond tetrahedral placement (real vector code): hydrogen at the tabulated length, making
      an obtuse angle with every existing bond (so it coincides with no atom bonded there)                        (TOP)
  EQ  orientation: cross product and Rodrigues rotation commute with every proper signed permutation (pure lemmas);
      the 2-bond trigonal position computed by the real code is equivariant under all 24 of them                 (TOP)
  EX  EXPECTED_ATOMS tables demand exactly that complement (His 2, Arg 5, Asn/Gln 2, Trp 1, backbone amide 1)   (TOP, ground)
"""
import itertools

from .common import *   # noqa: F401,F403
from pyvc.core import Builtin
from pyvc.values import real_val
from . import C11, C20, reader

P = 'propka.protonate.Protonate'
LENGTHS = {'C': 1.09, 'N': 1.01, 'O': 0.96, 'F': 0.92, 'Cl': 1.27, 'Br': 1.41, 'I': 1.61, 'S': 1.35}


def protonator(ex, repo):
    return ex.instantiate(repo.cls(P), [], {})


def rescale_contract(repo):
    """Contract of Vector.rescale(L) (proved on the real body in task_bond_distance): result r with r*|v| == v*L.
    |v| is the executor's sqrt term of x^2+y^2+z^2, so equal inputs (also after a signed permutation) share it."""
    V = repo.cls('propka.vector_algebra.Vector')
    k = [0]

    def c(ex, ctx, fi, a, kk, so):
        L = a[0]
        if isinstance(L, float):
            L = Sym(real_val(L))        # exact decimal value: L * L must not be rounded in floating point (1.09 * 1.09 != 1.1881)
        x, y, z = so.attrs['x'], so.attrs['y'], so.attrs['z']
        n = ctx.sqrt(x * x + y * y + z * z)
        if ctx.branch(n == 0):
            raise PyRaise('ZeroDivisionError')
        k[0] += 1
        r = xyz('rs%d' % k[0], V)
        ctx.assume(And(r.attrs['x'] * n == x * L, r.attrs['y'] * n == y * L, r.attrs['z'] * n == z * L, n > 0), kind='def')
        # consequence |r|^2 == L^2 (pure lemma 'rescale-length', proved once in task_bond_distance)
        ctx.assume(r.attrs['x'] * r.attrs['x'] + r.attrs['y'] * r.attrs['y'] + r.attrs['z'] * r.attrs['z'] == L * L, kind='def')
        if not hasattr(ctx, 'rescales'):
            ctx.rescales = []
        ctx.rescales.append({'v': (x, y, z), 'L': L, 'r': (r.attrs['x'], r.attrs['y'], r.attrs['z']), 'n': n})
        return r
    return c


def task_bond_distance(pr, repo):
    ex = Executor(repo)
    V0 = repo.cls('propka.vector_algebra.Vector')

    def t_rescale(ex, ctx):
        v = xyz('v', V0)
        L = R('newlen')
        ctx.assume(Or(v.attrs['x'] != 0, v.attrs['y'] != 0, v.attrs['z'] != 0))
        r = ex.call_function(repo.func('propka.vector_algebra.Vector.rescale'), [L], self_obj=v)
        n = ctx.sqrt(v.attrs['x'] * v.attrs['x'] + v.attrs['y'] * v.attrs['y'] + v.attrs['z'] * v.attrs['z'])
        ctx.cut('|v| > 0', n > 0)
        ctx.oblige('Vector.rescale(L): result * |v| == v * L (contract used by OB/EQ)',
                   And(*[r.attrs[c] * n == v.attrs[c] * L for c in 'xyz']), kind='aux')
    pr.explore(ex, t_rescale, 'Vector.rescale')
    # BD: set_bond_distance rescales the given vector to the tabulated X-H length of the element - and to 1.0, without failing, for an
    # element that has no entry (P, Se, B, Si ... on under-coordinated atoms of truncated ligands)
    fi_bd = repo.func(P + '.set_bond_distance')
    pr.under_contract(fi_bd)
    ex2 = Executor(repo)
    seen = {}

    def resc(ex_, ctx_, fi_, a, kk, so):
        seen['L'], seen['v'] = a[0], so
        return xyz('scaled', V0)
    ex2.contracts['propka.vector_algebra.Vector.rescale'] = resc
    for el in sorted(LENGTHS) + ['P', 'Se', 'B', 'Si', 'X']:
        def t_bd(ex_, ctx, el=el):
            v = xyz('v', V0)
            seen.clear()
            want = LENGTHS.get(el, 1.0)
            try:
                r = ex_.call_function(fi_bd, [v, el], self_obj=protonator(ex_, repo))
            except PyRaise as e:
                ctx.oblige('BD[%s]: set_bond_distance returns the given vector rescaled to %s A (%s), without an exception (raises %s)'
                           % (el, want, 'tabulated' if el in LENGTHS else 'no entry: the standard value', e.exc_name), False)
                return
            ctx.oblige('BD[%s]: set_bond_distance returns the given vector rescaled to %s A (%s), without an exception'
                       % (el, want, 'tabulated' if el in LENGTHS else 'no entry: the standard value'),
                       seen.get('v') is v and isinstance(seen.get('L'), (int, float)) and abs(seen['L'] - want) < 1e-12
                       and isinstance(r, Obj) and r.name == 'scaled')
        pr.explore(ex2, t_bd, 'set_bond_distance %s' % el)
    r_, d_ = [R('Lr%d' % i) for i in range(3)], [R('Ld%d' % i) for i in range(3)]
    n_, L_ = R('Ln'), R('LL')
    pr.add(lemma('lemma rescale-length: r*n == d*L, n^2 == |d|^2, n > 0  |-  |r|^2 == L^2',
                 [r_[i] * n_ == d_[i] * L_ for i in range(3)] + [n_ * n_ == d_[0] * d_[0] + d_[1] * d_[1] + d_[2] * d_[2], n_ > 0],
                 r_[0] * r_[0] + r_[1] * r_[1] + r_[2] * r_[2] == L_ * L_))
    u1, u2, h = [R('Lu1%d' % i) for i in range(3)], [R('Lu2%d' % i) for i in range(3)], [R('Lh%d' % i) for i in range(3)]
    u3 = [R('Lu3%d' % i) for i in range(3)]
    m_ = R('Lm')
    dot = lambda a, b: a[0] * b[0] + a[1] * b[1] + a[2] * b[2]     # noqa
    ob2 = lemma('lemma obtuse-2A: unit u1; h*m == -(u1+u2)*L  |-  (h.u1)*m == -L*(1 + u1.u2)',
                [dot(u1, u1) == 1, dot(u2, u2) == 1] + [h[i] * m_ == -1 * (u1[i] + u2[i]) * L_ for i in range(3)],
                dot(h, u1) * m_ == -1 * L_ * (1 + dot(u1, u2)))
    ob2.meta['ring'] = 'all'
    pr.add(ob2)
    for i_, (ua, ub, uc) in enumerate(((u1, u2, u3),)):      # instantiated three times with the roles permuted
        ob = lemma('lemma obtuse-3A[%d]: unit u_i; h*m == -(u1+u2+u3)*L  |-  (h.u_i)*m == -L*(1 + u_i.u_j + u_i.u_k)' % i_,
                   [dot(u1, u1) == 1, dot(u2, u2) == 1, dot(u3, u3) == 1] + [h[i] * m_ == -1 * (u1[i] + u2[i] + u3[i]) * L_ for i in range(3)],
                   dot(h, ua) * m_ == -1 * L_ * (1 + dot(ua, ub) + dot(ua, uc)))
        ob.meta['ring'] = 'all'        # ideal membership (sympy), z3 as fall-back
        pr.add(ob)
    Pp, Dd = R('LP'), R('LD')
    pr.add(lemma('lemma obtuse-3B: P*m == -L*(1+D), m > 0, L > 0, D > -1  |-  P < 0', [Pp * m_ == -1 * L_ * (1 + Dd), m_ > 0, L_ > 0, Dd > -1], Pp < 0))


def task_orthogonal(pr, repo):
    ex = Executor(repo)
    fi = repo.func('propka.vector_algebra.Vector.orthogonal')
    pr.under_contract(fi)
    V = repo.cls('propka.vector_algebra.Vector')

    def thunk(ex, ctx):
        v = xyz('v', V)
        ctx.assume(Or(v.attrs['x'] != 0, v.attrs['y'] != 0, v.attrs['z'] != 0))
        r = ex.call_function(fi, [], self_obj=v)
        ctx.oblige('ORT: Vector.orthogonal() of a non-zero vector is non-zero and perpendicular to it (the rotation axis of the '
                   '1-bond placements is never the null vector)',
                   And(r.attrs['x'] * v.attrs['x'] + r.attrs['y'] * v.attrs['y'] + r.attrs['z'] * v.attrs['z'] == 0,
                       Or(r.attrs['x'] != 0, r.attrs['y'] != 0, r.attrs['z'] != 0)))
    pr.explore(ex, thunk, 'Vector.orthogonal')


def task_add_proton(pr, repo):
    ex = Executor(repo)
    fi = repo.func(P + '.add_proton')
    pr.under_contract(fi)
    A = repo.cls('propka.atom.Atom')
    V = repo.cls('propka.vector_algebra.Vector')
    for prior_h in (0, 1):
        def thunk(ex, ctx, prior_h=prior_h):
            # chains=[]: the conformation has not registered chain 'A' yet (a conformation completed from copies of another one
            # learns its chains only when hydrogens are added through add_atom)
            conf = record('conf', repo.cls('propka.conformation_container.ConformationContainer'), atoms=[], chains=[],
                          molecular_container=None)
            heavy = record('c', A, element='C', name='CA')
            at = xyz('at', A, element='N', name='NE2', res_name='HIS', chain_id='A', res_num=57, type='atom',
                     bonded_atoms=[heavy], number_of_protons_to_add=I('nprot'), conformation_container=conf,
                     residue_label='NE2  57 A', numb=I('numb'))   # every Atom has the label set by __init__
            if prior_h:
                h0 = record('h0', A, element='H', name='HE2', res_num=57, chain_id='A', bonded_atoms=[at])
                at.attrs['bonded_atoms'].append(h0)
            before = list(at.attrs['bonded_atoms'])
            pos = xyz('pos', V)
            ex.call_function(fi, [at, pos])
            now = at.attrs['bonded_atoms']
            ok = len(now) == len(before) + 1 and now[:len(before)] == before
            if not ok:
                ctx.oblige('AP: the heavy atom gains exactly one bonded atom', False)
                return
            h = now[-1]
            half = Sym(real_val(0.0005))
            conj = [h.attrs['element'] == 'H', h.attrs['bonded_atoms'] == [at],
                    at.attrs['number_of_protons_to_add'] == I('nprot') - 1,
                    any(x is h for x in conf.attrs['atoms']) and len(conf.attrs['atoms']) == 1,
                    conf.attrs['chains'] == ['A'] and h.attrs.get('conformation_container') is conf,
                    h.attrs['res_num'] == 57 and h.attrs['chain_id'] == 'A' and h.attrs['res_name'] == 'HIS' and h.attrs['type'] == 'atom']
            import z3 as _z3
            for c in 'xyz':
                d = h.attrs[c] - pos.attrs[c]
                conj.append(And(d <= half, d >= -1 * half))
                # ... and the stored coordinate is a multiple of 0.001: what a PDB file written from it holds
                hc = h.attrs[c]
                conj.append(Sym(_z3.IsInt(hc.e * 1000)) if isinstance(hc, Sym) else (abs(hc * 1000 - round(hc * 1000)) < 1e-9))
            ctx.oblige('AP[%d hydrogen(s) already there]: new hydrogen on the 0.001 A grid within 0.0005 A (per coordinate) of the requested position, '
                       'bonded to exactly this heavy atom, registered in its conformation (atom list, chain list, back reference) with its residue labels; '
                       'protons-to-add decreases by one' % prior_h, And(*conj))
        pr.explore(ex, thunk, 'add_proton')


def task_electron_count(pr, repo):
    ex = Executor(repo)
    for n in ('set_charge', 'set_number_of_protons_to_add', 'set_steric_number_and_lone_pairs'):
        pr.under_contract(repo.func(P + '.' + n))
    pr.under_contract(repo.func('propka.bonds.BondMaker.add_pi_electron_table_info'))
    A = repo.cls('propka.atom.Atom')
    # (residue, atom, heavy neighbours in a complete residue, terminal flag) -> (hydrogens, steric number)
    cases = [('HIS', 'ND1', 2, None, 1, 3), ('HIS', 'NE2', 2, None, 1, 3), ('ARG', 'NE', 2, None, 1, 3), ('ARG', 'NH1', 1, None, 2, 3),
             ('ARG', 'NH2', 1, None, 2, 3), ('ASN', 'ND2', 1, None, 2, 3), ('GLN', 'NE2', 1, None, 2, 3), ('TRP', 'NE1', 2, None, 1, 3),
             ('ALA', 'N', 2, None, 1, 3), ('LYS', 'NZ', 1, None, 3, 4), ('ALA', 'N', 1, 'N+', 3, 4)]

    def thunk(ex, ctx):
        bm = C11.bondmaker(ex, repo)
        pro = protonator(ex, repo)
        bad = []
        for (res, name, nb, term, want_full, want_s), n_h in [(c, 0) for c in cases] + [(c, 1) for c in cases if c[3] is None]:
            # n_h hydrogens already present (input read with keep-protons): the complement is topped up, never exceeded
            want_h = want_full - n_h
            at = record('a_%s_%s' % (res, name), A, type='atom', res_name=res, name=name, element='N', terminal=term, charge=0.0,
                        charge_set=False, num_pi_elec_2_3_bonds=0, num_pi_elec_conj_2_3_bonds=0, steric_num_lone_pairs_set=False,
                        bonded_atoms=[record('nb%d' % i, A, element='C') for i in range(nb)] +
                        [record('hh%d' % i, A, element='H') for i in range(n_h)], sybyl_type='')
            ex.call_function(repo.func('propka.bonds.BondMaker.add_pi_electron_table_info'), [[at]], self_obj=bm)
            ex.call_function(repo.func(P + '.set_charge'), [at], self_obj=pro)
            ex.call_function(repo.func(P + '.set_number_of_protons_to_add'), [at], self_obj=pro)
            ex.call_function(repo.func(P + '.set_steric_number_and_lone_pairs'), [at], self_obj=pro)
            got = (at.attrs['number_of_protons_to_add'], at.attrs['steric_number'])
            if got != (want_h, want_s):
                bad.append(((res, name, term, n_h), got, (want_h, want_s)))
        # the two pi-electron tables (double/triple bonds, conjugated bonds) are applied independently of each other: an entry in one
        # never hides the entry in the other (SYBYL N.pl3 is in both)
        T = bm.attrs
        badp = []
        lig_types = sorted(set(T['num_pi_elec_bonds_ligands']) | set(T['num_pi_elec_conj_bonds_ligands']) | {'C.3'})
        for sy in lig_types:
            at = record('lig_' + sy, A, type='hetatm', res_name='LIG', name='X1', element=sy.split('.')[0], sybyl_type=sy,
                        num_pi_elec_2_3_bonds=0, num_pi_elec_conj_2_3_bonds=0, bonded_atoms=[record('n0', A, element='C'), record('n1', A, element='C')])
            ex.call_function(repo.func('propka.bonds.BondMaker.add_pi_electron_table_info'), [[at]], self_obj=bm)
            want = (T['num_pi_elec_bonds_ligands'].get(sy, 0), T['num_pi_elec_conj_bonds_ligands'].get(sy, 0))
            if (at.attrs['num_pi_elec_2_3_bonds'], at.attrs['num_pi_elec_conj_2_3_bonds']) != want:
                badp.append((sy, (at.attrs['num_pi_elec_2_3_bonds'], at.attrs['num_pi_elec_conj_2_3_bonds']), want))
        keys = sorted(set(T['num_pi_elec_bonds_sidechains']) | set(T['num_pi_elec_conj_bonds_sidechains']))
        names_bb = sorted(set(T['num_pi_elec_bonds_backbone']) | set(T['num_pi_elec_conj_bonds_backbone']))
        for key in keys + ['ALA-' + n for n in names_bb]:
            res, nm = key.split('-')
            for nbonds in (1, 2):
                at = record('prot_' + key, A, type='atom', res_name=res, name=nm, element=nm[0], sybyl_type='',
                            num_pi_elec_2_3_bonds=0, num_pi_elec_conj_2_3_bonds=0, bonded_atoms=[record('n%d' % i, A, element='C') for i in range(nbonds)])
                ex.call_function(repo.func('propka.bonds.BondMaker.add_pi_electron_table_info'), [[at]], self_obj=bm)
                w1 = T['num_pi_elec_bonds_backbone'].get(nm, T['num_pi_elec_bonds_sidechains'].get(key, 0))
                w2 = T['num_pi_elec_conj_bonds_sidechains'].get(key, 0)
                if nm in T['num_pi_elec_conj_bonds_backbone'] and nbonds > 1:
                    w2 = T['num_pi_elec_conj_bonds_backbone'][nm]
                if (at.attrs['num_pi_elec_2_3_bonds'], at.attrs['num_pi_elec_conj_2_3_bonds']) != (w1, w2):
                    badp.append((key, nbonds, (at.attrs['num_pi_elec_2_3_bonds'], at.attrs['num_pi_elec_conj_2_3_bonds']), (w1, w2)))
        ctx.oblige('PT: add_pi_electron_table_info gives every atom the entries of BOTH pi-electron tables (bonds and conjugated bonds) for '
                   'its SYBYL type (hetero atoms, %d types) or residue-atom key / backbone name (%d keys)' % (len(lig_types), len(keys) + len(names_bb)),
                   not badp)
        if badp:
            ctx.notes.append(str(badp[:4]))
        ctx.oblige('EC: hydrogens to add / steric number for His ND1, NE2 (1,3); Arg NE (1,3), NH1, NH2 (2,3); Asn ND2, Gln NE2 (2,3); '
                   'Trp NE1 (1,3); backbone N (1,3); Lys NZ (3,4); N-terminus (3,4)', not bad)
        if bad:
            ctx.notes.append(str(bad))
    pr.explore(ex, thunk, 'electron count')


def task_counts(pr, repo):
    ex = Executor(repo)
    for n in ('trigonal', 'tetrahedral', 'add_protons'):
        pr.under_contract(repo.func(P + '.' + n))
    A = repo.cls('propka.atom.Atom')
    V = repo.cls('propka.vector_algebra.Vector')
    k = [0]

    def fresh_vec(*a, **kw):
        k[0] += 1
        return xyz('w%d' % k[0], V)
    ex.contracts['propka.protonate.rotate_vector_around_an_axis'] = lambda ex, ctx, fi, a, kk, so: fresh_vec()
    ex.contracts['propka.vector_algebra.rotate_vector_around_an_axis'] = lambda ex, ctx, fi, a, kk, so: fresh_vec()
    looked_up = []

    def sbd(ex, ctx, fi, a, kk, so):
        looked_up.append(a[1] if len(a) > 1 else kk.get('element'))
        return fresh_vec()
    ex.contracts[P + '.set_bond_distance'] = sbd
    ex.contracts['propka.vector_algebra.Vector.rescale'] = lambda ex, ctx, fi, a, kk, so: fresh_vec()
    ex.contracts['propka.vector_algebra.Vector.orthogonal'] = lambda ex, ctx, fi, a, kk, so: fresh_vec()
    ex.contracts[P + '.set_steric_number_and_lone_pairs'] = lambda ex, ctx, fi, a, kk, so: None
    for steric, meth in ((3, 'trigonal'), (4, 'tetrahedral')):
        for nb in range(0, steric):
            for nprot in range(0, steric - nb + 2):
                def thunk(ex, ctx, steric=steric, meth=meth, nb=nb, nprot=nprot):
                    conf = record('conf', repo.cls('propka.conformation_container.ConformationContainer'), atoms=[], chains=['A'],
                                  molecular_container=None)
                    nbs = [xyz('n%d' % i, A, element='C', steric_number=3, bonded_atoms=[None, xyz('m%d' % i, A, element='C')]) for i in range(nb)]
                    at = xyz('at', A, element='N', name='NZ', res_name='LYS', chain_id='A', res_num=5, type='atom', bonded_atoms=list(nbs),
                             number_of_protons_to_add=nprot, steric_number=steric, conformation_container=conf)
                    for n_ in nbs:
                        n_.attrs['bonded_atoms'][0] = at
                    pro = protonator(ex, repo)
                    del looked_up[:]
                    ex.call_function(repo.func(P + '.add_protons'), [at], self_obj=pro)
                    ctx.oblige('BD(call)[%s, %d bond(s), %d to add]: the X-H length of every hydrogen is looked up for the element of the '
                               'atom that is protonated (N here), never for a neighbour (C)' % (meth, nb, nprot),
                               all(e == 'N' for e in looked_up))
                    added = [a for a in at.attrs['bonded_atoms'] if a.attrs.get('element') == 'H']
                    want = min(nprot, steric - nb) if nb >= 1 else 0
                    ctx.oblige('CT[%s, %d bond(s), %d to add]: adds min(protons to add, free positions) = %d hydrogens (none for an atom '
                               'without any bond), each bonded to this atom only' % (meth, nb, nprot, want),
                               len(added) == want and all(h.attrs['bonded_atoms'] == [at] for h in added)
                               and at.attrs['number_of_protons_to_add'] == nprot - want)
                pr.explore(ex, thunk, '%s %d bonds %d protons' % (meth, nb, nprot))


REPLAY_OB = r"""
import math, sys, logging
logging.disable(logging.CRITICAL)
from propka.atom import Atom
from propka.protonate import Protonate
meth = %(meth)r; centre = %(centre)r; model_nbs = %(nbs)r; L = %(L)r
class Conf:
    def __init__(self): self.atoms = []
    def add_atom(self, a): self.atoms.append(a)
def mk(el, p, name):
    a = Atom(); a.element = el; a.name = name; a.res_name = 'HIS'; a.chain_id = 'A'; a.res_num = 5; a.type = 'atom'
    a.x, a.y, a.z = p; a.bonded_atoms = []
    return a
def regular(nbs):
    us = []
    for q in nbs:
        d = [q[i] - centre[i] for i in range(3)]; n = math.sqrt(sum(x * x for x in d))
        if n <= 0.5: return False
        us.append([x / n for x in d])
    for i in range(len(us)):
        for j in range(i + 1, len(us)):
            c = sum(a * b for a, b in zip(us[i], us[j]))
            if meth == 'trigonal' and not c > -0.9: return False
            if meth == 'tetrahedral' and not (-0.5 < c < 0.2): return False
    return True
# the solver's model first, then regular geometries (ideal angles, several orientations and bond lengths)
cands = [model_nbs]
if meth == 'tetrahedral':
    T = [(1, 1, 1), (1, -1, -1), (-1, 1, -1), (-1, -1, 1)]
    for keep in ([0, 1, 2], [1, 2, 3], [0, 2, 3], [3, 1, 0]):
        for ls in ((1.5, 1.5, 1.5), (1.3, 1.5, 1.8)):
            cands.append([[centre[i] + T[k][i] / math.sqrt(3) * l for i in range(3)] for k, l in zip(keep, ls)])
else:
    for ph in (0.0, 0.9, 2.3):
        for ls in ((1.4, 1.4), (1.2, 1.6)):
            cands.append([[centre[0] + l * math.cos(ph + s * 2.0943951), centre[1] + l * math.sin(ph + s * 2.0943951), centre[2]]
                          for s, l in zip((0, 1), ls)])
bad = 0
for nbs in cands:
    if not regular(nbs):
        continue
    at = mk('N', centre, 'NE2'); at.conformation_container = Conf()
    at.bonded_atoms = [mk('C', q, 'C%%d' %% i) for i, q in enumerate(nbs)]
    for b in at.bonded_atoms: b.bonded_atoms = [at]
    at.number_of_protons_to_add = 1; at.steric_number = 3 if meth == 'trigonal' else 4
    getattr(Protonate(), meth)(at)
    hs = [a for a in at.bonded_atoms if a.element == 'H']
    if len(hs) != 1:
        print('VIOLATION: %%d hydrogens placed for neighbours %%r' %% (len(hs), nbs)); bad += 1; continue
    h = [hs[0].x - centre[0], hs[0].y - centre[1], hs[0].z - centre[2]]
    if abs(math.sqrt(sum(x * x for x in h)) - L) > 2e-3:
        print('VIOLATION: N-H length %%.4f, tabulated %%.3f, neighbours %%r' %% (math.sqrt(sum(x * x for x in h)), L, nbs)); bad += 1
    for i, q in enumerate(nbs):
        d = [q[j] - centre[j] for j in range(3)]
        if sum(a * b for a, b in zip(h, d)) >= -1e-3:
            print('VIOLATION: new N-H bond makes a non-obtuse angle with existing bond %%d: H-offset %%r, neighbours %%r' %% (i, h, nbs)); bad += 1
print('violations:', bad)
sys.exit(1 if bad else 0)
"""


def ob_replay(meth, nb):
    def build(model):
        centre = [mval(model, 'at_%s' % c, 0.0) for c in 'xyz']
        nbs = [[mval(model, 'n%d_%s' % (i, c), 0.0) for c in 'xyz'] for i in range(nb)]
        return REPLAY_OB % {'meth': meth, 'centre': centre, 'nbs': nbs, 'L': LENGTHS['N']}
    return build


def task_obtuse(pr, repo):
    ex = Executor(repo)
    ex.contracts['propka.vector_algebra.Vector.rescale'] = rescale_contract(repo)
    A = repo.cls('propka.atom.Atom')

    def run_case(meth, nb):
        def thunk(ex, ctx):
            conf = record('conf', repo.cls('propka.conformation_container.ConformationContainer'), atoms=[], chains=['A'],
                          molecular_container=None)
            nbs = [xyz('n%d' % i, A, element='C') for i in range(nb)]
            at = xyz('at', A, element='N', name='NE2', res_name='HIS', chain_id='A', res_num=5, type='atom', bonded_atoms=list(nbs),
                     number_of_protons_to_add=1, steric_number=3 if meth == 'trigonal' else 4, conformation_container=conf)
            pos = {}
            ex.contracts[P + '.add_proton'] = lambda ex, ctx_, fi, a, k, so: pos.setdefault('p', a[1])
            for n_ in nbs:
                d = [n_.attrs[c] - at.attrs[c] for c in 'xyz']
                ctx.assume(d[0] * d[0] + d[1] * d[1] + d[2] * d[2] > Sym(real_val(0.25)))      # bonded atoms are distinct points
            pro = protonator(ex, repo)
            try:
                ex.call_function(repo.func(P + '.' + meth), [at], self_obj=pro)
            except PyRaise as e:
                if e.exc_name == 'ZeroDivisionError':
                    raise Infeasible()     # exactly opposite bonds (sum of unit vectors is zero): excluded by 'regular geometry'
                raise
            p = pos.get('p')
            rs = getattr(ctx, 'rescales', [])
            if p is None or len(rs) != nb + 1:
                ctx.oblige('OB[%s %d bonds]: one hydrogen is placed from %d unit bond vectors' % (meth, nb, nb), False)
                return
            # the code may normalise the bond vectors in any order: match each rescale(1.0) call to its bond syntactically
            import z3 as _z3

            def same(u, d):
                return all(_z3.is_true(_z3.simplify(to_bool(u[j] == d[j]))) if isinstance(u[j] == d[j], Sym) else bool(u[j] == d[j])
                           for j in range(3))
            ds = [[nbs[i].attrs[c] - at.attrs[c] for c in 'xyz'] for i in range(nb)]
            order = []
            for i in range(nb):
                hit = [j for j in range(nb) if j not in order and same(rs[j]['v'], ds[i])]
                order.append(hit[0] if hit else None)
            if None not in order:
                rs = [rs[j] for j in order] + rs[nb:]
            us = [r['r'] for r in rs[:nb]]            # unit vectors along the existing bonds (contract of rescale(1.0))
            fin = rs[nb]
            dot = lambda a, b: a[0] * b[0] + a[1] * b[1] + a[2] * b[2]     # noqa
            for i in range(nb):
                d = [nbs[i].attrs[c] - at.attrs[c] for c in 'xyz']
                ctx.cut('OB[%s]: unit vector %d points along bond %d' % (meth, i, i), And(*[rs[i]['v'][j] == d[j] for j in range(3)]),
                        meta={'replay': ob_replay(meth, nb)})
            # purification: name the dot products (ghost variables with defining equations)
            dd = {}
            for i in range(nb):
                for j in range(i + 1, nb):
                    v = ctx.fresh('dot_%d%d' % (i, j))
                    ctx.assume(v == dot(us[i], us[j]), kind='def')
                    dd[(i, j)] = dd[(j, i)] = v
                    # regular covalent geometry: existing bonds are not (nearly) opposite each other
                    if meth == 'trigonal':
                        ctx.assume(v > Sym(real_val(-0.9)))
                    else:
                        ctx.assume(And(v > Sym(real_val(-0.5)), v < Sym(real_val(0.2))))
            h = [p.attrs[c] - at.attrs[c] for c in 'xyz']
            L = Sym(real_val(LENGTHS['N']))
            ctx.cut('OB[%s]: hydrogen position == atom + rescaled direction' % meth, And(*[h[j] == fin['r'][j] for j in range(3)]),
                    meta={'replay': ob_replay(meth, nb)})
            ctx.oblige('OB[%s, %d bonds]: the hydrogen is placed at the tabulated N-H length from the atom' % (meth, nb),
                       And(dot(h, h) == L * L, fin['L'] == LENGTHS['N']))
            ssum = [sum(us[i][j] for i in range(nb)) for j in range(3)]
            prem = And(*([dot(u, u) == 1 for u in us] + [fin['n'] > 0] +
                         [fin['r'][j] * fin['n'] == -1 * ssum[j] * L for j in range(3)]))
            ctx.cut('OB[%s]: premises of the obtuse-angle lemma hold for the values computed by the code' % meth, prem,
                    meta={'replay': ob_replay(meth, nb)})
            for i in range(nb):
                pi = ctx.fresh('hdot_%d' % i)
                ctx.assume(pi == dot(fin['r'], us[i]), kind='def')
                D = sum(dd[(i, j)] for j in range(nb) if j != i)
                # instances of the pure lemmas obtuse-A (ring) and obtuse-B
                E = pi * fin['n'] == -1 * L * (1 + D)
                instA = Implies(prem, E)
                instB = Implies(And(E, fin['n'] > 0, D > -1), pi < 0)
                ctx.assume(instA, kind='def')
                ctx.assume(instB, kind='def')
                bounds = [dd[(i, j)] > Sym(real_val(-0.9 if meth == 'trigonal' else -0.5)) for j in range(nb) if j != i]
                ctx.oblige_from('OB[%s]: (h.u_%d)*|sum| == -L*(1 + sum of dot products) by lemma obtuse-A' % (meth, i), [prem, instA], E)
                # h == fin.r has been cut above, so the angle condition is stated on the rescaled direction
                ctx.oblige_from('OB[%s, %d bonds]: the new N-H bond makes an obtuse angle with existing bond %d (no clash with the atoms '
                                'bonded there)' % (meth, nb, i), [E, fin['n'] > 0, instB] + bounds, pi < 0, kind='top')
        pr.explore(ex, thunk, 'placement %s %d' % (meth, nb))
    run_case('trigonal', 2)
    run_case('tetrahedral', 3)


def perms24():
    out = []
    for perm in itertools.permutations(range(3)):
        for signs in itertools.product((1, -1), repeat=3):
            # determinant of the signed permutation matrix
            par = 1
            pl = list(perm)
            for i in range(3):
                for j in range(i + 1, 3):
                    if pl[i] > pl[j]:
                        par = -par
            if par * signs[0] * signs[1] * signs[2] == 1:
                out.append((perm, signs))
    return out


def apply(P_, v):
    perm, signs = P_
    return [signs[i] * v[perm[i]] for i in range(3)]


REPLAY_EQ = r"""
import math, sys, logging, random
logging.disable(logging.CRITICAL)
from propka.atom import Atom
from propka.protonate import Protonate
class Conf:
    def __init__(self): self.atoms = []
    def add_atom(self, a): self.atoms.append(a)
def mk(el, p, name):
    a = Atom(); a.element = el; a.name = name; a.res_name = 'HIS'; a.chain_id = 'A'; a.res_num = 5; a.type = 'atom'
    a.x, a.y, a.z = p; a.bonded_atoms = []
    return a
def place(pts):
    at = mk('N', pts[0], 'NE2'); at.conformation_container = Conf()
    at.bonded_atoms = [mk('C', q, 'C%%d' %% i) for i, q in enumerate(pts[1:])]
    for b in at.bonded_atoms: b.bonded_atoms = [at]
    at.number_of_protons_to_add = 1; at.steric_number = 3
    Protonate().trigonal(at)
    h = [a for a in at.bonded_atoms if a.element == 'H'][0]
    return [h.x, h.y, h.z]
Ps = %(Ps)r
def app(P, v): return [P[1][i] * v[P[0][i]] for i in range(3)]
rnd = random.Random(4)
bad = 0
# the solver's model first (if any), then two-neighbour geometries over the whole range of angles (1 .. 179.9 degrees)
cands = %(model)r
for ang in [1, 20, 60, 90, 109.5, 120, 150, 170, 174, 175, 176, 178, 179, 179.9]:
    for rep in range(3):
        ph, l1, l2 = rnd.uniform(0, 6.28), rnd.uniform(1.2, 1.6), rnd.uniform(1.2, 1.6)
        c = [rnd.uniform(-20, 20) for _ in range(3)]
        a = math.radians(ang)
        # a generic (not axis-aligned) plane
        e1 = [math.cos(ph), math.sin(ph) * 0.6, math.sin(ph) * 0.8]
        e2 = [-math.sin(ph), math.cos(ph) * 0.6, math.cos(ph) * 0.8]
        cands.append([c, [c[i] + l1 * e1[i] for i in range(3)],
                      [c[i] + l2 * (math.cos(a) * e1[i] + math.sin(a) * e2[i]) for i in range(3)]])
for pts in cands:
    try:
        h1 = place(pts)
    except ZeroDivisionError:
        continue
    for P in Ps:
        t = [3.0, -7.0, 11.0]
        moved = [[app(P, q)[i] + t[i] for i in range(3)] for q in pts]
        h2 = place(moved)
        want = [app(P, h1)[i] + t[i] for i in range(3)]
        if max(abs(x - y) for x, y in zip(h2, want)) > 5e-3:
            print('VIOLATION: hydrogen of the moved structure at %%r, moved hydrogen at %%r (motion %%r, atoms %%r)' %% (h2, want, P, pts))
            bad += 1
            break
print('violations:', bad)
sys.exit(1 if bad else 0)
"""


def eq_replay(model):
    pts = []
    try:
        pts = [[[mval(model, 'p%d%s' % (i, c), 0.0) for c in 'xyz'] for i in range(3)]]
    except Exception:
        pts = []
    return REPLAY_EQ % {'Ps': perms24(), 'model': pts}


def task_equivariance(pr, repo):
    ex = Executor(repo)
    ex.contracts['propka.vector_algebra.Vector.rescale'] = rescale_contract(repo)
    A = repo.cls('propka.atom.Atom')
    Ps = perms24()
    pr.add(Ground('EQ: 24 proper signed permutation matrices enumerated', len(Ps) == 24, kind='aux'))
    # pure lemmas: cross product and Rodrigues formula commute with every proper signed permutation
    a = [R('La%d' % i) for i in range(3)]
    b = [R('Lb%d' % i) for i in range(3)]
    c_, s_ = R('Lc'), R('Ls')

    def cross(u, v):
        return [u[1] * v[2] - u[2] * v[1], u[2] * v[0] - u[0] * v[2], u[0] * v[1] - u[1] * v[0]]

    def rod(k, v):
        kxv = cross(k, v)
        kd = k[0] * v[0] + k[1] * v[1] + k[2] * v[2]
        return [v[i] * c_ + kxv[i] * s_ + k[i] * kd * (1 - c_) for i in range(3)]
    for idx, P_ in enumerate(Ps):
        lhs = cross(apply(P_, a), apply(P_, b))
        rhs = apply(P_, cross(a, b))
        l2 = rod(apply(P_, a), apply(P_, b))
        r2 = apply(P_, rod(a, b))
        ob = lemma('EQ lemma[%d]: cross(Pa, Pb) == P cross(a, b) and Rodrigues(theta, Pk, Pv) == P Rodrigues(theta, k, v) for the proper '
                   'signed permutation %r' % (idx, P_), [], And(*[lhs[i] == rhs[i] for i in range(3)] + [l2[i] == r2[i] for i in range(3)]))
        ob.meta['ring'] = True
        pr.add(ob)

    # the real 2-bond trigonal placement under every P
    def place(ex, ctx, coords):
        conf = record('conf', repo.cls('propka.conformation_container.ConformationContainer'), atoms=[], chains=['A'], molecular_container=None)
        nbs = [record('n%d' % i, A, element='C', x=coords[1 + i][0], y=coords[1 + i][1], z=coords[1 + i][2]) for i in range(2)]
        at = record('at', A, element='N', name='NE2', res_name='HIS', chain_id='A', res_num=5, type='atom', bonded_atoms=list(nbs),
                    number_of_protons_to_add=1, steric_number=3, conformation_container=conf,
                    x=coords[0][0], y=coords[0][1], z=coords[0][2])
        pos = {}
        ex.contracts[P + '.add_proton'] = lambda ex, ctx_, fi, a_, k, so: pos.setdefault('p', a_[1])

        def orth(ex, ctx_, fi, a_, k, so):
            # contract ORT only: some non-zero perpendicular vector - NOT a function that commutes with rotations
            ctx_.orth_calls = getattr(ctx_, 'orth_calls', 0) + 1
            return xyz('orth%d' % ctx_.orth_calls, repo.cls('propka.vector_algebra.Vector'))
        ex.contracts['propka.vector_algebra.Vector.orthogonal'] = orth
        ex.call_function(repo.func(P + '.trigonal'), [at], self_obj=protonator(ex, repo))
        p = pos['p']
        return [p.attrs[c] for c in 'xyz']
    sample = Ps if pr.tier == 'thorough' else [Ps[5], Ps[17]]
    for idx, P_ in enumerate(sample):
        def thunk(ex, ctx, P_=P_):
            pts = [[R('p%d%s' % (i, c)) for c in 'xyz'] for i in range(3)]
            t = [R('t' + c) for c in 'xyz']
            for i in (1, 2):
                d = [pts[i][c] - pts[0][c] for c in range(3)]
                ctx.assume(d[0] * d[0] + d[1] * d[1] + d[2] * d[2] > Sym(real_val(0.25)))
            try:
                h1 = place(ex, ctx, pts)
                moved = [[apply(P_, p)[c] + t[c] for c in range(3)] for p in pts]
                h2 = place(ex, ctx, moved)
            except PyRaise as e:
                if e.exc_name == 'ZeroDivisionError':
                    raise Infeasible()
                raise
            if getattr(ctx, 'orth_calls', 0):
                rs0 = getattr(ctx, 'rescales', [])
                ctx.oblige('EQ[2-bond trigonal]: the placement with two bonded neighbours is built from the two bond vectors alone - it never '
                           'takes its direction from Vector.orthogonal(), whose contract (ORT) promises a perpendicular vector, not one that '
                           'turns with the structure (except where the bisector does not exist: the two unit bond vectors cancel)',
                           And(*[rs0[0]['r'][c] + rs0[1]['r'][c] == 0 for c in range(3)]) if len(rs0) >= 2 else False,
                           meta={'replay': eq_replay})
                return
            rs = getattr(ctx, 'rescales', [])
            if len(rs) != 6:
                ctx.oblige('EQ: each placement uses two unit bond vectors and one rescaling', False)
                return
            for k_ in range(3):
                a_, b_ = rs[k_], rs[3 + k_]
                ctx.cut('EQ: input %d of the moved run is the moved input' % k_, And(*[b_['v'][c] == apply(P_, a_['v'])[c] for c in range(3)]))
                moved_in = And(*[b_['v'][c] == apply(P_, a_['v'])[c] for c in range(3)])
                sq = lambda r_: r_['n'] * r_['n'] == r_['v'][0] * r_['v'][0] + r_['v'][1] * r_['v'][1] + r_['v'][2] * r_['v'][2]     # noqa
                ctx.oblige_from('EQ: squared length %d is unchanged by the motion' % k_, [moved_in, sq(a_), sq(b_)],
                                b_['n'] * b_['n'] == a_['n'] * a_['n'], meta={'ring': 'all'})
                ctx.oblige_from('EQ: length %d is unchanged by the motion' % k_,
                                [b_['n'] * b_['n'] == a_['n'] * a_['n'], a_['n'] > 0, b_['n'] > 0], b_['n'] == a_['n'])
                same_r = And(*[b_['r'][c] * b_['n'] == b_['v'][c] * b_['L'] for c in range(3)] + [a_['r'][c] * a_['n'] == a_['v'][c] * a_['L'] for c in range(3)])
                ctx.oblige_from('EQ: rescaled vector %d of the moved run is the moved rescaled vector' % k_,
                                [moved_in, same_r, b_['n'] == a_['n'], a_['n'] > 0, b_['L'] == a_['L']],
                                And(*[b_['r'][c] == apply(P_, a_['r'])[c] for c in range(3)]))
            want = [apply(P_, h1)[c] + t[c] for c in range(3)]
            ctx.oblige('EQ[2-bond trigonal, P=%r]: hydrogen position of the moved structure == moved hydrogen position (before the '
                       '0.001 rounding of add_proton)' % (P_,), And(*[h2[c] == want[c] for c in range(3)]))
        pr.explore(ex, thunk, 'equivariance %r' % (P_,))


def ground_expected(pr, repo):
    ex = Executor(repo)
    m = repo.module('propka.group')
    import ast as _ast
    acid = _ast.literal_eval(m.assigns['EXPECTED_ATOMS_ACID_INTERACTIONS'])
    want = {'HIS': 2, 'ARG': 5, 'AMD': 2, 'TRP': 1, 'BBN': 1}
    got = {k: acid.get(k, {}).get('H') for k in want}
    pr.add(Ground('EX: the groups expect His 2, Arg 5, Asn/Gln (AMD) 2, Trp 1, backbone amide 1 hydrogens', got == want, detail=str(got)))
    bl = None
    pcls = repo.cls(P)
    for n in _ast.walk(pcls.methods['__init__'].node):
        if isinstance(n, _ast.Assign) and _ast.unparse(n.targets[0]) == 'self.bond_lengths':
            bl = _ast.literal_eval(n.value)
    pr.add(Ground('BD: tabulated X-H lengths are C 1.09, N 1.01, O 0.96, F 0.92, Cl 1.27, Br 1.41, I 1.61, S 1.35', bl == LENGTHS, detail=str(bl)))


def task_protonate_calls(pr, repo):
    """PC: which atoms a group's setup hands to the protonator does not depend on hydrogens already attached (supplied with the
    input under keep-protons): the protonator itself works out how many are missing (EC), so a partly protonated amide / guanidinium /
    ring nitrogen is still completed."""
    import ast as _ast
    ex = Executor(repo)
    mod = repo.module('propka.group')
    A = repo.cls('propka.atom.Atom')
    classes = [ci for ci in mod.classes.values() if 'setup_atoms' in ci.methods and
               any(isinstance(n, _ast.Attribute) and n.attr == 'protonate_atom' for n in _ast.walk(ci.methods['setup_atoms'].node))]
    pr.add(Ground('PC: group classes whose setup adds hydrogens were found in propka.group', len(classes) >= 4, kind='aux',
                  detail=str([c.name for c in classes])))
    for ci in classes:
        fi = ci.methods['setup_atoms']
        pr.under_contract(fi)

        def thunk(ex, ctx, ci=ci, fi=fi):
            runs = []
            main = record('main', A, element='N', name='NX')
            cache = {}

            def bonded(owner, el, run):
                if el == 'H':
                    return [] if run == 0 else [cache.setdefault(('H', owner.name), record('h_' + owner.name, A, element='H', name='H'))]
                key = (owner.name, el)
                if key not in cache:
                    cache[key] = [record('%s_%s%d' % (owner.name, el, i), A, element=el, name=el + str(i)) for i in range(2)]
                return list(cache[key])
            ring = [main] + [record('r%d' % i, A, element=e, name='R%d' % i) for i, e in enumerate(['C', 'N', 'C', 'N'])]
            for run in (0, 1):
                calls = []
                ex.contracts['propka.atom.Atom.get_bonded_elements'] = \
                    lambda ex_, c_, f_, a, k, so, run=run: bonded(so, a[0] if a else k['element'], run)
                ex.contracts['propka.atom.Atom.get_bonded_heavy_atoms'] = lambda ex_, c_, f_, a, k, so, run=run: bonded(so, 'C', run)[:1]
                ex.contracts['propka.ligand.is_ring_member'] = lambda ex_, c_, f_, a, k, so: list(ring)
                ex.contracts['propka.protonate.Protonate.protonate_atom'] = lambda ex_, c_, f_, a, k, so: calls.append(a[0])
                ex.contracts['propka.group.Group.set_center'] = lambda ex_, c_, f_, a, k, so: None
                ex.contracts['propka.group.Group.set_interaction_atoms'] = lambda ex_, c_, f_, a, k, so: None
                g = record('g', ci, atom=main, type='XX', x=0.0, y=0.0, z=0.0, label='g')
                ex.call_function(fi, [], self_obj=g)
                runs.append(sorted(a.name for a in calls))
            ctx.oblige('PC[%s.setup_atoms]: the atoms handed to the protonator are the same with and without hydrogens already attached '
                       '(and there is at least one)' % ci.name, runs[0] == runs[1] and len(runs[0]) >= 1)
        pr.explore(ex, thunk, 'protonate calls %s' % ci.name)


def task_pipeline_order(pr, repo):
    """PO: the electron-count contract (EC) reads the pi-electron tables: the protonation of all atoms (--protonate-all) and of the group
    atoms runs only AFTER the bonds are made and the pi-electron information has been applied."""
    ex = Executor(repo)
    fi = repo.func('propka.hydrogens.setup_bonding_and_protonation')
    pr.under_contract(fi)
    for pall in (False, True):
        def thunk(ex, ctx, pall=pall):
            order = []
            bm = record('bondmaker', None)
            from pyvc.core import Builtin
            bm.attrs['add_pi_electron_information'] = Builtin('pi', lambda ex_, m: order.append('pi-electrons'))
            ex.contracts['propka.hydrogens.setup_bonding'] = lambda ex_, c_, f_, a, k, so: (order.append('bonds'), bm)[1]
            ex.contracts['propka.bonds.BondMaker.add_pi_electron_information'] = lambda ex_, c_, f_, a, k, so: order.append('pi-electrons')
            ex.contracts['propka.hydrogens.set_ligand_atom_names'] = lambda ex_, c_, f_, a, k, so: order.append('names')
            ex.contracts['propka.protonate.Protonate.protonate'] = lambda ex_, c_, f_, a, k, so: order.append('protonate')
            ex.contracts['propka.protonate.Protonate.__init__'] = lambda ex_, c_, f_, a, k, so: None
            mol = record('mol', None, options=record('o', None, protonate_all=pall))
            ex.call_function(fi, [mol])
            want = ['bonds', 'pi-electrons'] + (['protonate'] if pall else [])
            got = [x for x in order if x != 'names']
            ctx.oblige('PO[--protonate-all %s]: bonds, then pi-electron tables, then (only with the option) the protonation of all atoms'
                       % pall, got == want)
        pr.explore(ex, thunk, 'setup_bonding_and_protonation order %s' % pall)


def task_hydrogen_names(pr, repo):
    # which input records ARE hydrogens (old-style names such as 1HD2 included): C07-EL
    from . import C07
    C07.task_element(pr, repo)
    # --protonate-all: remove, then build on every heavy atom - and nothing else (no second bond search over the new hydrogens): C07-PI
    C07.task_protonate(pr, repo)


def task_bond_rule(pr, repo):
    # which hydrogens an atom still needs is counted from its perceived bonds: the pairwise bond rule (C11) in every orientation,
    # supplied hydrogens included, over ALL atoms of a conformation (ATOM and HETATM records alike)
    C11.task_check_distance(pr, repo)
    C11.task_boxes_pair(pr, repo, 'H', 'C', True, (0,))
    C11.task_plumbing(pr, repo)


def task_tetrahedral_two(pr, repo):
    """T2: the first hydrogen on a tetrahedral atom with two neighbours is built from the UNIT vectors along the two bonds only: the
    rotation axis is their sum (the bisector whatever the two bond lengths are) and the rotated vector is minus one of them."""
    ex = Executor(repo)
    ex.contracts['propka.vector_algebra.Vector.rescale'] = rescale_contract(repo)
    A = repo.cls('propka.atom.Atom')
    V = repo.cls('propka.vector_algebra.Vector')
    fi = repo.func(P + '.tetrahedral')
    pr.under_contract(fi)

    def thunk(ex, ctx):
        conf = record('conf', repo.cls('propka.conformation_container.ConformationContainer'), atoms=[], chains=['A'],
                      molecular_container=None)
        nbs = [xyz('n%d' % i, A, element='C') for i in range(2)]
        at = xyz('at', A, element='C', name='C10', res_name='LIG', chain_id='A', res_num=5, type='hetatm', bonded_atoms=list(nbs),
                 number_of_protons_to_add=1, steric_number=4, conformation_container=conf)
        for n_ in nbs:
            d = [n_.attrs[c] - at.attrs[c] for c in 'xyz']
            ctx.assume(d[0] * d[0] + d[1] * d[1] + d[2] * d[2] > Sym(real_val(0.25)))
        rot = []

        def rotate(ex_, c_, f_, a, k, so):
            rot.append((a[0], a[1], a[2]))
            return xyz('rotated', V)
        ex.contracts['propka.vector_algebra.rotate_vector_around_an_axis'] = rotate
        ex.contracts[P + '.add_proton'] = lambda ex_, c_, f_, a, k, so: None
        pro = protonator(ex, repo)
        try:
            ex.call_function(fi, [at], self_obj=pro)
        except PyRaise as e:
            if e.exc_name == 'ZeroDivisionError':
                raise Infeasible()
            raise
        rs = getattr(ctx, 'rescales', [])
        ds = [[nbs[i].attrs[c] - at.attrs[c] for c in 'xyz'] for i in range(2)]
        ok = len(rot) == 1 and len(rs) >= 2
        if not ok:
            ctx.oblige('T2: one rotation, two normalised bond vectors', False)
            return
        us = []
        for i in range(2):
            hit = [r for r in rs if r['L'] == 1.0 and all(to_bool(r['v'][j] == ds[i][j]) is True or
                                                           __import__('z3').is_true(__import__('z3').simplify(to_bool(r['v'][j] == ds[i][j])))
                                                           for j in range(3))]
            us.append(hit[0]['r'] if hit else None)
        if None in us:
            ctx.oblige('T2: both bond vectors are normalised to unit length before they are combined', False)
            return
        axis, vec = rot[0][1], rot[0][2]
        ax = [axis.attrs[c] for c in 'xyz']
        vv = [vec.attrs[c] for c in 'xyz']
        ctx.oblige('T2: rotation axis == u1 + u2 (unit vectors along the two bonds) and the rotated vector == -u1 or -u2',
                   And(And(*[ax[j] == us[0][j] + us[1][j] for j in range(3)]),
                       Or(And(*[vv[j] == -1 * us[0][j] for j in range(3)]), And(*[vv[j] == -1 * us[1][j] for j in range(3)]))))
    pr.explore(ex, thunk, 'tetrahedral two neighbours')


def run(pr, repo):
    ground_expected(pr, repo)
    pr.parallel([(task_bond_distance, ()), (task_orthogonal, ()), (task_add_proton, ()), (task_electron_count, ()), (task_counts, ()), (task_obtuse, ()),
                 (task_equivariance, ()), (C20.task_rotation, ()), (reader.task_nterm, ()), (task_protonate_calls, ()), (task_pipeline_order, ()), (task_hydrogen_names, ()), (task_bond_rule, ()), (task_tetrahedral_two, ())])
    pr.assumptions += ['"regular covalent geometry" is encoded as: existing bonds longer than 0.5 A; 2-bond case: cos(angle) > -0.9; '
                       '3-bond case: cos(angle) in (-0.6, 0.2)', 'sequentially built hydrogens (Arg/Asn/Gln NH2, methyl-like cases) and the '
                       '1-bond placements that go through rotate_vector_around_an_axis: at least 0.5 A apart is BOUNDED only (monitor); '
                       'their orientation independence rests on the C20 contract (discharged here too: C20.task_rotation) + the EQ lemmas (hetero groups use Vector.orthogonal, '
                       'which is frame dependent by design)', 'A-REAL; A-TRIG']
    bounded(pr)


def bounded(pr):
    from . import native
    import math
    import logging
    names = ['3SGB-subset'] if pr.tier == 'quick' else ['3SGB-subset', '1HPX', '3SGB', '1FTJ-Chain-A', '4DFR']
    Ps = perms24()
    poses = [Ps[0], Ps[7], Ps[14], Ps[21]] if pr.tier == 'quick' else Ps
    ev, viol, classes = 0, [], set()

    class Grab(logging.Handler):
        def __init__(self):
            logging.Handler.__init__(self)
            self.msgs = []

        def emit(self, rec):
            self.msgs.append(rec.getMessage())
    for name in names:
        base = native.pdb_lines(name)
        ref = None
        for P_ in poses:
            ev += 1
            classes.add(P_)
            lines = []
            for l in base:
                if l[:6] in ('ATOM  ', 'HETATM'):
                    v = [float(l[30:38]), float(l[38:46]), float(l[46:54])]
                    w = apply(P_, v)
                    l = l[:30] + '%8.3f%8.3f%8.3f' % (w[0] + 11.111, w[1] - 7.5, w[2] + 3.25) + l[54:]
                lines.append(l)
            h = Grab()
            logging.disable(logging.NOTSET)
            lg = logging.getLogger('propka')
            lg.addHandler(h)
            old = lg.level
            lg.setLevel(logging.WARNING)
            try:
                mol = native.run_text(lines)
            finally:
                lg.removeHandler(h)
                lg.setLevel(old)
                logging.disable(logging.CRITICAL)
            conf = mol.conformations[mol.conformation_names[0]]
            bad = []
            hs = [a for a in conf.atoms if a.element == 'H']
            for a in hs:
                if len(a.bonded_atoms) != 1 or a.bonded_atoms[0].element == 'H':
                    bad.append('hydrogen %s bonded to %d atoms' % (a, len(a.bonded_atoms)))
                    continue
                hv = a.bonded_atoms[0]
                d = math.dist((a.x, a.y, a.z), (hv.x, hv.y, hv.z))
                L = LENGTHS.get(hv.element, 1.0)
                if abs(d - L) > 0.0015:
                    bad.append('%s-H length %.4f, table %.2f (%s)' % (hv.element, d, L, a))
            for hv in conf.atoms:
                hh = [b for b in hv.bonded_atoms if b.element == 'H']
                for i in range(len(hh)):
                    for j in range(i + 1, len(hh)):
                        if math.dist((hh[i].x, hh[i].y, hh[i].z), (hh[j].x, hh[j].y, hh[j].z)) < 0.5:
                            bad.append('two hydrogens on %s closer than 0.5 A' % hv)
            warn = [m for m in h.msgs if 'Missing atoms or failed protonation' in m]
            if name == '3SGB-subset' and warn:
                bad.append('warning for a complete structure: %s' % warn[0])
            # the set of hydrogen positions, mapped back, is the same in every pose (up to rounding)
            back = sorted((a.bonded_atoms[0].name, a.res_num, a.chain_id) + tuple(round(x, 2) for x in _unapply(P_, (a.x - 11.111, a.y + 7.5, a.z - 3.25)))
                          for a in hs if a.bonded_atoms and a.type == 'atom')
            if ref is None:
                ref = back
            elif len(back) != len(ref) or any(b[:3] != r[:3] or max(abs(b[3 + i] - r[3 + i]) for i in range(3)) > 0.011 for b, r in zip(back, ref)):
                bad.append('hydrogen positions differ from the first pose beyond rounding')
            if bad and len(viol) < 3:
                viol.append({'what': '%s pose %r: %s' % (name, P_, bad[:3]), 'replay': None})
    pr.bounded.append({'name': 'C17-monitor: built hydrogens on real runs in several orientations', 'evaluations': ev,
                       'distinct_nontrivial': len(classes), 'bound': '%d structures x %d poses' % (len(names), len(poses)),
                       'rule': 'every built hydrogen: one heavy neighbour, tabulated length (0.0015 A), H-H >= 0.5 A on one atom, no '
                               'failed-protonation warning for the complete test structure, positions equal across poses up to 0.011 A',
                       'violations': viol})


def _unapply(P_, w):
    perm, signs = P_
    v = [0.0, 0.0, 0.0]
    for i in range(3):
        v[perm[i]] = signs[i] * w[i]
    return v
