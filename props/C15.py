"""C15 - coupling analysis observes without disturbing.

  SW   is_coupled_protonation_state_probability: every temporary swap is undone exactly (shared with C02-SW)   (TOP)
  SW1  swap_interactions / transfer_determinant: exact multiset transfer, values and partner groups untouched    (TOP)
  INV2 transfer twice with the same labels is the identity on both lists (involution), also for equal labels   (TOP)
  CP   couple_non_covalently: other in self.nccg and self in other.nccg afterwards, lists only grow, from every
       pre-state incl. equally labelled (different) groups already coupled                                        (TOP)
  ID   identify_non_covalently_coupled_groups: couples exactly the pairs with coupling_factor > 0, symmetric;
       do_prot_stat False => no analysis call at all; conformation.groups otherwise untouched                    (TOP)
  ST   get_determinant_string: row 0 starred <=> the group has a coupled partner (C02-RD)                        (TOP)
"""
from .common import *   # noqa: F401,F403
from pyvc.core import Builtin
from . import C02

N = 'propka.coupled_groups.NonCovalentlyCoupledGroups'
G = 'propka.group.Group'


def task_involution(pr, repo):
    ex = Executor(repo)
    fi = repo.func(N + '.transfer_determinant')
    pr.under_contract(fi)
    shapes = [(['B', 'X', 'B', 'B'], ['A', 'Y', 'A']), (['B'], []), ([], []), (['A', 'B'], ['B', 'A'])]
    for l1, l2 in (('A', 'B'), ('A', 'A')):
        for (s1, s2) in shapes:
            def thunk(ex, ctx, s1=s1, s2=s2, l1=l1, l2=l2):
                d1 = [C02.mkdet(repo, 'p%d' % i, label=(lab if lab in 'XY' else (l1 if lab == 'A' else l2))) for i, lab in enumerate(s1)]
                d2 = [C02.mkdet(repo, 'q%d' % i, label=(lab if lab in 'XY' else (l1 if lab == 'A' else l2))) for i, lab in enumerate(s2)]
                snap = [(d, d.attrs['label'], d.attrs['value']) for d in d1 + d2]
                o1, o2 = list(d1), list(d2)
                ex.call_function(fi, [d1, d2, l1, l2])
                ex.call_function(fi, [d1, d2, l1, l2])

                def same(a, b):
                    return len(a) == len(b) and all(any(x is y for y in b) for x in a)
                ctx.oblige('INV2[labels %s,%s; %s | %s]: transferring twice restores both determinant lists (as multisets), all labels '
                           'and values' % (l1, l2, ','.join(s1), ','.join(s2)),
                           same(d1, o1) and same(d2, o2) and all(d.attrs['label'] == lab and d.attrs['value'] is v for d, lab, v in snap))
            pr.explore(ex, thunk, 'transfer_determinant twice')


def task_couple(pr, repo):
    ex = Executor(repo)
    fi = repo.func(G + '.couple_non_covalently')
    pr.under_contract(fi)
    pr.under_contract(repo.func(G + '.__eq__'))
    for pre in ('none', 'one-way', 'both', 'twin-in-self', 'twin-in-other'):
        def thunk(ex, ctx, pre=pre):
            a = C02.mkgroup(repo, 'ga', (0, 0, 0), label='ASP  25 A', non_covalently_coupled_groups=[])
            b = C02.mkgroup(repo, 'gb', (0, 0, 0), label='ASP  25 B', non_covalently_coupled_groups=[])
            twin_b = C02.mkgroup(repo, 'gb2', (0, 0, 0), label='ASP  25 B', non_covalently_coupled_groups=[])   # same label, other group
            twin_a = C02.mkgroup(repo, 'ga2', (0, 0, 0), label='ASP  25 A', non_covalently_coupled_groups=[])
            if pre == 'one-way':
                a.attrs['non_covalently_coupled_groups'].append(b)
            elif pre == 'both':
                a.attrs['non_covalently_coupled_groups'].append(b)
                b.attrs['non_covalently_coupled_groups'].append(a)
            elif pre == 'twin-in-self':
                a.attrs['non_covalently_coupled_groups'].append(twin_b)
                twin_b.attrs['non_covalently_coupled_groups'].append(a)
            elif pre == 'twin-in-other':
                b.attrs['non_covalently_coupled_groups'].append(twin_a)
                twin_a.attrs['non_covalently_coupled_groups'].append(b)
            before = (list(a.attrs['non_covalently_coupled_groups']), list(b.attrs['non_covalently_coupled_groups']))
            ex.call_function(fi, [b], self_obj=a)
            la, lb = a.attrs['non_covalently_coupled_groups'], b.attrs['non_covalently_coupled_groups']
            # membership as every reader takes it (`in`, i.e. Group.__eq__ = label equality; labels ignore insertion
            # codes - known finding D9 - so an equally labelled twin already listed counts as the mark)
            ctx.oblige('CP[%s]: afterwards B is marked on A and A on B, nothing is removed, nobody else is touched' % pre,
                       ex.truth(ex.contains(la, b)) and ex.truth(ex.contains(lb, a))
                       and all(any(x is y for y in la) for x in before[0]) and all(any(x is y for y in lb) for x in before[1])
                       and len(la) <= len(before[0]) + 1 and len(lb) <= len(before[1]) + 1)
        pr.explore(ex, thunk, 'couple_non_covalently ' + pre)


def task_identify(pr, repo):
    ex = Executor(repo)
    fi = repo.func(N + '.identify_non_covalently_coupled_groups')
    pr.under_contract(fi)
    NC = repo.cls(N)
    for prot in (True, False):
        def thunk(ex, ctx, prot=prot):
            gs = [C02.mkgroup(repo, 'g%d' % i, (0, 0, 0), label='GRP %d' % i, non_covalently_coupled_groups=[], titratable=True)
                  for i in range(3)]
            # a titrate-only list is given (here: one that names every residue): the search for coupled residues runs all the same
            opts_ = record('options', None, titrate_only=[('A', i, ' ') for i in range(3)], display_coupled_residues=False)
            conf = record('conf', None, parameters=record('P', None), non_covalently_coupled_groups=False, options=opts_,
                          molecular_container=record('mol', None, options=opts_))
            conf.attrs['get_titratable_groups'] = Builtin('gtg', lambda ex: list(gs))
            conf.attrs['calculate_folding_energy'] = Builtin('cfe', lambda ex, **k: 0.0)
            calls = []
            fac = {}

            def analysis(ex, ctx_, fi_, a, k, so):
                g1, g2 = a[0], a[1]
                calls.append((g1, g2))
                f = fac.setdefault((g1.name, g2.name), R('factor_%s_%s' % (g1.name, g2.name)))
                return {'coupling_factor': f}
            ex.contracts[N + '.is_coupled_protonation_state_probability'] = analysis
            nccg = record('nccg', NC, do_prot_stat=prot, parameters=None)
            shown = []
            # the alternative-state print-out applies swaps and never undoes them: it may run only when display mode is asked for
            ex.contracts[N + '.print_out_swaps'] = lambda ex, ctx_, fi_, a, k, so: shown.append(a)
            ex.call_function(fi, [conf], {'verbose': False}, self_obj=nccg)
            ctx.oblige('ID: without the display option the alternative-state print-out (which re-orders interactions for good) is '
                       'never run, whatever the logging configuration', not shown)
            if not prot:
                ctx.oblige('ID: with do_prot_stat False the analysis is never called and nothing is coupled',
                           not calls and all(not g.attrs['non_covalently_coupled_groups'] for g in gs))
                return
            conj = [len(calls) == 3]
            for i in range(3):
                for j in range(3):
                    if i == j:
                        continue
                    marked = any(x is gs[j] for x in gs[i].attrs['non_covalently_coupled_groups'])
                    back = any(x is gs[i] for x in gs[j].attrs['non_covalently_coupled_groups'])
                    conj.append(marked == back)
                    hi, lo = max(i, j), min(i, j)
                    f = fac.get((gs[hi].name, gs[lo].name))
                    conj.append((f is not None) and (Implies(f > 0, marked) if marked else Not(f > 0)))
            ctx.oblige('ID: each unordered pair is analysed once; A is marked on B <=> B on A <=> its coupling factor is positive',
                       And(*conj))
        pr.explore(ex, thunk, 'identify_non_covalently_coupled_groups prot=%s' % prot)


def task_container_search(pr, repo):
    """CF: ConformationContainer.find_non_covalently_coupled_groups leaves exactly the marks the analysis made (symmetric, also
    towards groups that are discarded from the results) and sets the container flag iff some group has a partner."""
    ex = Executor(repo)
    CCn = 'propka.conformation_container.ConformationContainer'
    fi = repo.func(CCn + '.find_non_covalently_coupled_groups')
    pr.under_contract(fi)
    Gc = repo.cls('propka.group.Group')
    for layout in ('none coupled', 'pair', 'pair, one partner discarded from the results'):
        def thunk(ex, ctx, layout=layout):
            third = record('third', Gc, label='N+    1 A', titratable=True, non_covalently_coupled_groups=[], coupled_titrating_group=None)
            gs = [record('g%d' % i, Gc, label='GRP %d' % i, titratable=True, non_covalently_coupled_groups=[],
                         coupled_titrating_group=None) for i in range(3)]
            if 'discarded' in layout:
                gs[1].attrs['coupled_titrating_group'] = third

            def analysis(ex_, ctx_, fi_, a, k, so):
                if layout != 'none coupled':
                    gs[0].attrs['non_covalently_coupled_groups'].append(gs[1])
                    gs[1].attrs['non_covalently_coupled_groups'].append(gs[0])
            ex.contracts[N + '.identify_non_covalently_coupled_groups'] = analysis
            conf = record('conf', repo.cls(CCn), groups=list(gs), non_covalently_coupled_groups=False,
                          parameters=record('P', None, remove_penalised_group=1))
            ex.call_function(fi, [], {'verbose': False}, self_obj=conf)
            l0, l1, l2 = [g.attrs['non_covalently_coupled_groups'] for g in gs]
            want = layout != 'none coupled'
            ok = (any(x is gs[1] for x in l0) == want and any(x is gs[0] for x in l1) == want and len(l2) == 0
                  and len(l0) == (1 if want else 0) and len(l1) == (1 if want else 0))
            ctx.oblige('CF[%s]: the marks made by the analysis are kept as they are - A on B <=> B on A, whether or not a partner is '
                       'discarded from the results; container flag <=> some group has a partner' % layout,
                       And(ok, Sym(to_bool(conf.attrs['non_covalently_coupled_groups'])) == Sym(to_bool(want))))
        pr.explore(ex, thunk, 'find_non_covalently_coupled_groups ' + layout)


def task_average_marks(pr, repo):
    # the conformation average leaves each conformation's coupling marks alone (C08-AV frame)
    from . import C08
    C08.task_average(pr, repo, 2, ('marks',))


def task_group_equality(pr, repo):
    # registration (`in`), the partner search and get_interaction all compare groups with Group.__eq__: the symmetry of the marks
    # needs it to be label (+ residue number for hetero groups) equality - C06-EQ on the real __eq__
    from . import C06
    C06.task_eq_label(pr, repo)


def run(pr, repo):
    pr.parallel([(task_group_equality, ()), (C02.task_swap, ()), (C02.task_swap_once, ()), (task_involution, ()), (task_couple, ()), (task_identify, ()), (task_container_search, ()), (task_average_marks, ()), (C02.task_sequencing, ()), (C02.task_sections, ()),
                 (C02.task_render, ())])
    pr.assumptions += ['A-REAL: after the swap back the determinant LIST ORDER differs, so float sums may differ in the last ulp; '
                       '"undone exactly" is proved for the multisets and over the reals, and monitored to 1e-9 in floats',
                       'determinant list shapes up to 4 entries per list']
    bounded(pr)


def bounded(pr):
    """Bounded: analysis on vs off on real runs; symmetry and star census."""
    from . import native
    import re
    import propka.coupled_groups as cg
    import propka.output as out
    names = ['1HPX', '3SGB-subset'] if pr.tier == 'quick' else ['1HPX', '3SGB', '4DFR', '1FTJ-Chain-A', 'sample-issue-140']
    ev, viol, classes = 0, [], set()
    for name in names:
        lines = native.pdb_lines(name)
        variants = [('orig', lines)]
        # relabel a residue so that two residues share number+chain (insertion code twins)
        tw = []
        for l in lines:
            if l[:4] == 'ATOM' and l[21] == 'A' and l[22:26] == '  30':
                l = l[:22] + '  29A' + l[27:]
            tw.append(l)
        variants.append(('twins', tw))
        for vn, ls in variants:
            ev += 1
            on = native.run_text(ls)
            cg.NCCG.do_prot_stat = False
            try:
                off = native.run_text(ls)
            finally:
                cg.NCCG.do_prot_stat = True
            d = native.diff_records(native.record(off), native.record(on), tol=1e-9)
            bad = list(d)
            for cname in on.conformation_names:
                conf = on.conformations[cname]
                for g in conf.groups:
                    for h in g.non_covalently_coupled_groups:
                        classes.add('coupled')
                        if not any(x is g for x in h.non_covalently_coupled_groups):
                            bad.append('%s: %s marked on %s but not vice versa' % (cname, h.label, g.label))
                    s = g.get_determinant_string()
                    first = s.split('\n')[0]
                    star = len(first) > 16 and first[16] == '*'
                    if star != (len(g.non_covalently_coupled_groups) > 0):
                        bad.append('%s: star %r but %d partners for %s' % (cname, star, len(g.non_covalently_coupled_groups), g.label))
            classes.add(vn)
            if bad and len(viol) < 3:
                viol.append({'what': '%s (%s): %s' % (name, vn, bad[:3]), 'replay': None})
    pr.bounded.append({'name': 'C15-monitor: analysis on vs NCCG.do_prot_stat = False; symmetry; stars', 'evaluations': ev,
                       'distinct_nontrivial': len(classes), 'bound': '%d structures x {original, insertion-code twins}' % len(names),
                       'rule': 'whole-pipeline records compared to 1e-9; coupling lists checked for symmetry; star vs partner count',
                       'violations': viol})
