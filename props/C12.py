"""C12 - incomplete structures degrade gracefully.

Safety VCs (no exception escapes) on the REAL set-up and interaction code, for every subset of the atoms a group
normally finds around its defining atom (bonds symmetric; protonation abstracted to 'adds between 0 and all hydrogens'):
  SA  COO / HIS / ARG / AMD / TRP / C-terminus / BBN / BBC / default  setup_atoms + set_interaction_atoms + set_center (TOP)
  HB  hydrogen_bond_interaction returns None (no exception) when either group has no interaction atoms; the COO-ARG
      and COO-COO exception routines are only reached with non-empty lists / tolerate short lists                    (TOP)
  BB  set_backbone_determinants skips groups without interaction atoms (its assertions are proof obligations here);
      a BBC group always has its one oxygen, so backbone_reorganization's [0] is safe                                (TOP)
  RJ  read_molecule_file: no conformation -> ValueError; suffix other than .pdb -> ValueError; nothing else          (TOP)
  PC  protein_precheck only warns                                                                                    (TOP)
  CE  census: a group whose defining atom is present is created whatever else is missing (C01-CL/SU)               (TOP)
"""
import itertools

from .common import *   # noqa: F401,F403
from pyvc.core import Builtin
from . import C01, C02, C05, C08, C16

GM = 'propka.group.'


def mkatom(repo, name, element, **kw):
    A = repo.cls('propka.atom.Atom')
    return xyz(name, A, element=element, name=name, bonded_atoms=[], group_type=None, **kw)


def bond(a, b):
    a.attrs['bonded_atoms'].append(b)
    b.attrs['bonded_atoms'].append(a)


def params():
    return record('P', None, base_list=['ARG', 'LYS', 'HIS', 'N+'], acid_list=['ASP', 'GLU', 'CYS', 'TYR', 'C-'])


def run_setup(pr, repo, ex, cls, what, build, tag):
    """execute <cls>.setup_atoms on the environment built by build(ctx); every path must return normally"""
    def thunk(ex, ctx):
        center, extras = build(ctx)
        g = ex.instantiate(repo.cls(GM + cls), [center], {})
        g.attrs['parameters'] = params()
        try:
            ex.call_function(repo.cls(GM + cls).find_method('setup_atoms'), [], self_obj=g)
        except PyRaise as e:
            ctx.oblige('SA[%s, %s]: setup_atoms raises %s' % (cls, tag, e.exc_name), False)
            raise
        la, lb = g.attrs['interaction_atoms_for_acids'], g.attrs['interaction_atoms_for_bases']
        ctx.oblige('SA[%s, %s]: setup_atoms completes; centre set; interaction lists hold only atoms that exist' % (cls, tag),
                   all(isinstance(a, Obj) for a in la + lb) and g.attrs['x'] is not None)
    pr.explore(ex, thunk, 'setup_atoms %s %s' % (cls, tag))


def task_setup_atoms(pr, repo):
    ex = Executor(repo)
    ex.assert_mode = 'raise'
    for c in ('COOGroup', 'HISGroup', 'ARGGroup', 'AMDGroup', 'TRPGroup', 'CtermGroup', 'BBNGroup', 'BBCGroup', 'Group'):
        pr.under_contract(repo.cls(GM + c).find_method('setup_atoms'))
    pr.under_contract(repo.func(GM + 'Group.set_interaction_atoms'))
    pr.under_contract(repo.func(GM + 'Group.set_center'))
    nh = [0]

    def protonate(ex, ctx, fi, a, k, so):
        # abstraction of PROTONATOR.protonate_atom: adds 0, 1 or 2 hydrogens (failed / partial / full protonation)
        at = a[0]
        n = 0
        for i in range(2):
            if ex.ctx.branch(B('adds_h_%d_%d' % (nh[0], i))):
                n += 1
        nh[0] += 1
        for i in range(n):
            h = mkatom(repo, 'H%d_%d' % (nh[0], i), 'H', type='atom')
            bond(at, h)
    ex.contracts['propka.protonate.Protonate.protonate_atom'] = protonate
    for n_o in (0, 1, 2):
        def b(ctx, n_o=n_o):
            nh[0] = 0
            c = mkatom(repo, 'CG', 'C', type='atom', res_name='ASP', terminal=None, res_num=1, chain_id='A')
            for i in range(n_o):
                bond(c, mkatom(repo, 'OD%d' % i, 'O'))
            bond(c, mkatom(repo, 'CB', 'C'))
            return c, None
        run_setup(pr, repo, ex, 'COOGroup', 'x', b, '%d carboxyl oxygens' % n_o)
    for ring in ([], ['CD2'], ['ND1', 'CD2', 'CE1', 'NE2'], ['ND1', 'CE1']):
        def b(ctx, ring=ring):
            nh[0] = 0
            c = mkatom(repo, 'CG', 'C', type='atom', res_name='HIS', terminal=None, res_num=1, chain_id='A')
            got = {n: mkatom(repo, n, n[0]) for n in ring}
            ring_atoms = [c] + list(got.values()) if len(ring) == 4 else []
            ex.contracts['propka.ligand.is_ring_member'] = lambda ex, ctx_, fi, a, k, so: list(ring_atoms)
            for a in got.values():
                bond(c, a)
            return c, None
        run_setup(pr, repo, ex, 'HISGroup', 'x', b, 'ring atoms %s' % ring)
    for n_n in (0, 1, 2, 3):
        def b(ctx, n_n=n_n):
            nh[0] = 0
            c = mkatom(repo, 'CZ', 'C', type='atom', res_name='ARG', terminal=None, res_num=1, chain_id='A')
            for i in range(n_n):
                bond(c, mkatom(repo, 'N%d' % i, 'N'))
            return c, None
        run_setup(pr, repo, ex, 'ARGGroup', 'x', b, '%d nitrogens' % n_n)
    for n_o, n_n in itertools.product((0, 1), (0, 1)):
        def b(ctx, n_o=n_o, n_n=n_n):
            nh[0] = 0
            c = mkatom(repo, 'CG', 'C', type='atom', res_name='ASN', terminal=None, res_num=1, chain_id='A')
            if n_o:
                bond(c, mkatom(repo, 'OD1', 'O'))
            if n_n:
                bond(c, mkatom(repo, 'ND2', 'N'))
            return c, None
        run_setup(pr, repo, ex, 'AMDGroup', 'x', b, 'O present %d, N present %d' % (n_o, n_n))
    for cls, nm, el, res in (('TRPGroup', 'NE1', 'N', 'TRP'), ('BBNGroup', 'N', 'N', 'ALA'), ('Group', 'SG', 'S', 'CYS')):
        def b(ctx, nm=nm, el=el, res=res):
            nh[0] = 0
            return mkatom(repo, nm, el, type='atom', res_name=res, terminal=None, res_num=1, chain_id='A'), None
        run_setup(pr, repo, ex, cls, 'x', b, 'isolated atom')
    for has_c, n_other in ((0, 0), (1, 0), (1, 1)):
        def b(ctx, has_c=has_c, n_other=n_other):
            nh[0] = 0
            o = mkatom(repo, 'OXT', 'O', type='atom', res_name='ALA', terminal='C-', res_num=1, chain_id='A')
            if has_c:
                c = mkatom(repo, 'C', 'C')
                bond(o, c)
                if n_other:
                    bond(c, mkatom(repo, 'O', 'O'))
            return o, None
        run_setup(pr, repo, ex, 'CtermGroup', 'x', b, 'carbon %d, other oxygen %d' % (has_c, n_other))
    for n_o in (0, 1, 2):
        def b(ctx, n_o=n_o):
            nh[0] = 0
            c = mkatom(repo, 'C', 'C', type='atom', res_name='ALA', terminal=None, res_num=1, chain_id='A')
            for i in range(n_o):
                bond(c, mkatom(repo, 'O%d' % i, 'O'))
            return c, None
        run_setup(pr, repo, ex, 'BBCGroup', 'x', b, '%d oxygens' % n_o)

    # a backbone carbonyl group exists whenever its carbon has exactly one bonded oxygen - also when that oxygen is the terminal OXT
    # of a C-terminus whose O is missing; the reorganisation term then takes ITS interaction atom: there must be one
    def b_oxt(ctx):
        nh[0] = 0
        c = mkatom(repo, 'C', 'C', type='atom', res_name='ALA', terminal=None, res_num=9, chain_id='A')
        bond(c, mkatom(repo, 'OXT', 'O', terminal='C-', type='atom'))
        return c, None

    def thunk_oxt(ex, ctx):
        center, _ = b_oxt(ctx)
        g = ex.instantiate(repo.cls(GM + 'BBCGroup'), [center], {})
        g.attrs['parameters'] = params()
        ex.call_function(repo.cls(GM + 'BBCGroup').find_method('setup_atoms'), [], self_obj=g)
        ctx.oblige('SA[BBCGroup, only oxygen is the terminal OXT]: the group keeps an interaction atom (backbone_reorganization indexes '
                   'the first one)', len(g.attrs['interaction_atoms_for_acids']) >= 1 and len(g.attrs['interaction_atoms_for_bases']) >= 1)
    pr.explore(ex, thunk_oxt, 'setup_atoms BBCGroup OXT only')


def task_interactions(pr, repo):
    ex = Executor(repo)
    ex.assert_mode = 'raise'
    E = 'propka.energy.'
    for n in ('hydrogen_bond_interaction', 'check_coo_arg_exception', 'check_coo_coo_exception'):
        pr.under_contract(repo.func(E + n))
    pr.under_contract(repo.func('propka.determinants.set_backbone_determinants'))
    A = repo.cls('propka.atom.Atom')

    def grp(name, typ, acids, bases, rt='ASP'):
        g = C16.sym_group(repo, name, type=typ, residue_type=rt, interaction_atoms_for_acids=acids, interaction_atoms_for_bases=bases,
                          parameters=params())
        g.attrs['atom'] = record(name + '_a', A, bonded_atoms=[], type='atom', res_num=0)
        g.attrs['atom'].attrs['is_atom_within_bond_distance'] = Builtin('w', lambda ex, *a: False)
        return g

    def version(ctx):
        p = C16.sym_params(ctx)
        p.attrs.update(angular_dependent_sidechain_interactions=['HIS', 'ARG', 'AMD', 'TRP'], min_bond_distance_for_hydrogen_bonds=4,
                       COO_HIS_exception=1.6, OCO_HIS_exception=1.6, CYS_HIS_exception=1.6, CYS_CYS_exception=3.6)
        v = record('version', repo.cls('propka.version.VersionA'), parameters=p)
        v.attrs['get_hydrogen_bond_parameters'] = Builtin('hbp', lambda ex, *a: [R('dmax'), [R('c0'), R('c1')]])
        v.attrs['calculate_pair_weight'] = Builtin('pw', lambda ex, *a: R('w'))
        v.attrs['calculate_side_chain_energy'] = Builtin('sce', lambda ex, *a: R('sc'))
        v.attrs['check_exceptions'] = Builtin('ce', lambda ex, g1, g2: ex.call_function(repo.func(E + 'check_exceptions'), [v, g1, g2]))
        v.attrs['get_backbone_hydrogen_bond_parameters'] = Builtin('bbp', lambda ex, *a: [R('dpk'), [R('b0'), R('b1')]])
        return v
    ex.contracts[E + 'angle_distance_factors'] = lambda ex, ctx, fi, a, k, so: (R('d12'), R('fa'), R('d23'))

    def gsd(ex, ctx, fi, a, k, so):
        # contract of get_smallest_distance (C05-SM): (None, ., None) iff an input is empty, else members of the lists
        l1, l2 = list(a[0]), list(a[1])
        if not l1 or not l2:
            return (None, float('inf'), None)
        return (l1[-1], ctx.fresh('dist'), l2[0])
    ex.contracts['propka.calculations.get_smallest_distance'] = gsd
    ex.contracts[E + 'hydrogen_bond_energy'] = lambda ex, ctx, fi, a, k, so: R('hbe')
    heavy = lambda n: xyz(n, A, element='N', bonded_atoms=[])       # noqa

    def hyd(n):
        hv = heavy(n + '_hv')
        return xyz(n, A, element='H', bonded_atoms=[hv])
    for t1, t2 in (('COO', 'ARG'), ('ARG', 'COO'), ('COO', 'COO'), ('HIS', 'COO'), ('TYR', 'LYS')):
        for n1, n2 in itertools.product((0, 1, 2), (0, 1, 2)):
            def thunk(ex, ctx, t1=t1, t2=t2, n1=n1, n2=n2):
                a1 = [hyd('p%d' % i) if t1 in ('ARG', 'HIS') else heavy('p%d' % i) for i in range(n1)]
                a2 = [hyd('q%d' % i) if t2 in ('ARG', 'HIS') else heavy('q%d' % i) for i in range(n2)]
                g1 = grp('g1', t1, a1, a1, rt='ARG' if t1 == 'ARG' else 'ASP')
                g2 = grp('g2', t2, a2, a2, rt='ARG' if t2 == 'ARG' else 'ASP')
                ctx.assume(R('c0') < R('c1'))
                try:
                    r = ex.call_function(repo.func(E + 'hydrogen_bond_interaction'), [g1, g2, version(ctx)])
                except PyRaise as e:
                    ctx.oblige('HB[%s(%d atoms) - %s(%d atoms)]: hydrogen_bond_interaction raises %s' % (t1, n1, t2, n2, e.exc_name), False)
                    raise
                ctx.oblige('HB[%s(%d atoms) - %s(%d atoms)]: completes; no interaction when either side has no interaction atoms' %
                           (t1, n1, t2, n2), (r is None) if (n1 == 0 or n2 == 0) else True)
            pr.explore(ex, thunk, 'hydrogen_bond_interaction %s-%s %d/%d' % (t1, t2, n1, n2))
    ex.contracts.pop(E + 'hydrogen_bond_energy', None)

    # backbone determinants with missing atoms
    # (BBC | BBN) x (titratable side: hydrogens | heavy atoms) x (backbone atom: bare heavy atom without any bond left - both its
    # neighbours deleted - | hydrogen on its nitrogen)
    for btype, ttype, bkind in itertools.product(('BBC', 'BBN'), ('HIS', 'COO'), ('bare', 'hydrogen')):
        for n_t, n_b in itertools.product((0, 1), (0, 1)):
            def t_bb(ex, ctx, n_t=n_t, n_b=n_b, btype=btype, ttype=ttype, bkind=bkind):
                ta = [(hyd if ttype == 'HIS' else heavy)('t%d' % i) for i in range(n_t)]
                ba = [(heavy if bkind == 'bare' else hyd)('b%d' % i) for i in range(n_b)]
                tg = grp('tg', ttype, ta, ta)
                bb = grp('bb', btype, ba, ba)
                what = '%s/%s, backbone atom %s, titratable atoms %d, backbone atoms %d' % (btype, ttype, bkind, n_t, n_b)
                try:
                    ex.call_function(repo.func('propka.determinants.set_backbone_determinants'), [[tg], [bb], version(ctx)])
                except PyRaise as e:
                    ctx.oblige('BB[%s]: set_backbone_determinants raises %s' % (what, e.exc_name), False)
                    raise
                ctx.oblige('BB[%s]: completes (its assertions hold); no determinant without atoms on both sides' % what,
                           True if (n_t and n_b) else len(tg.attrs['determinants']['backbone']) == 0)
            pr.explore(ex, t_bb, 'set_backbone_determinants %s %s %s %d/%d' % (btype, ttype, bkind, n_t, n_b))


def task_reject(pr, repo):
    ex = Executor(repo)
    fi = repo.func('propka.input.read_molecule_file')
    pr.under_contract(fi)
    from pyvc.core import PyPath
    for fname, confs, aspath in [(f, c, False) for f, c in (('x.pdb', 0), ('x.PDB', 0), ('x.pdb', 1), ('x.mol2', 1), ('x', 1), ('x.pdb.gz', 1), ('dir.pdb/x.txt', 1))] + \
            [('x.pdb', 0, True), ('x.mol2', 1, True), ('x.pdb', 1, True)]:
        def thunk(ex, ctx, fname=fname, confs=confs, aspath=aspath):
            cc = {'1A': record('c', None)} if confs else {}
            ex.contracts['propka.input.read_pdb'] = lambda ex, ctx_, fi_, a, k, so: (dict(cc), list(cc))
            ex.contracts['propka.input.protein_precheck'] = lambda *a: None
            ex.contracts['propka.lib.protein_precheck'] = lambda *a: None
            mol = record('mol', None, version=record('v', None, parameters=None))
            mol.attrs['version'].attrs['setup_bonding_and_protonation'] = Builtin('s', lambda ex, m: None)
            for n in ('top_up_conformations', 'extract_groups', 'find_covalently_coupled_groups'):
                mol.attrs[n] = Builtin(n, lambda ex: None)
            if confs:
                cc['1A'].attrs['sort_atoms'] = Builtin('sa', lambda ex: None)
            is_pdb = fname.lower().endswith('.pdb')
            try:
                ex.call_function(fi, [PyPath(fname) if aspath else fname, mol])
                ok = is_pdb and confs > 0
                ctx.oblige('RJ[%s%s, %d conformation(s)]: accepted only for a .pdb name with at least one conformation' % (fname, ' (Path)' if aspath else '', confs), ok)
            except PyRaise as e:
                ctx.oblige('RJ[%s%s, %d conformation(s)]: rejected with ValueError (not %s)' % (fname, ' (Path)' if aspath else '', confs, e.exc_name),
                           e.exc_name == 'ValueError' and not (is_pdb and confs > 0))
        pr.explore(ex, thunk, 'read_molecule_file %s' % fname)


PRECHECK_REPLAY = r"""
import sys, logging
sys.path.insert(0, %(verif)r)
logging.disable(logging.CRITICAL)
from props import native
# residues 1-12 of chain A of 1HPX; residue 5 has lost every heavy atom, one hydrogen record of it is left (--keep-protons)
lines = [l for l in native.pdb_lines('1HPX') if l.startswith('ATOM') and l[21] == 'A' and int(l[22:26]) <= 12]
out = []
for l in lines:
    if int(l[22:26]) == 5:
        if l[12:16] == ' N  ':
            out.append(l[:12] + ' H  ' + l[16:76] + ' H' + l[78:])
        continue
    out.append(l)
try:
    native.run_text(out, ['--keep-protons'])
    print('completed')
    sys.exit(0)
except Exception as e:
    print('raised %%s: %%s' %% (type(e).__name__, e))
    sys.exit(1)
"""


def task_precheck(pr, repo):
    ex = Executor(repo)
    fi = repo.func('propka.lib.protein_precheck')
    pr.under_contract(fi)
    A = repo.cls('propka.atom.Atom')

    def thunk(ex, ctx):
        def at(i, res, term=None, el='C'):
            return record('a%d' % i, A, element=el, res_num=1 + i // 3, chain_id='A', icode=' ', res_name=res, terminal=term)
        # residue 4 (SER) has lost every heavy atom, one of its hydrogen records is left (--keep-protons)
        atoms = [at(0, 'ALA'), at(1, 'ALA'), at(2, 'ALA', el='H'), at(3, 'GLY', 'C-'), at(4, 'XYZ'), at(6, 'ASP', 'N+'), at(9, 'SER', el='H'),
                 at(12, 'LYS', el='H'), at(13, 'LYS', el='H')]
        conf = record('conf', None, atoms=atoms)
        try:
            ex.call_function(fi, [{'1A': conf}, ['1A']])
            ctx.oblige('PC: protein_precheck completes on residues with missing atoms, residues of which only hydrogens are left, unknown residues and termini (it only warns)', True)
        except PyRaise as e:
            ctx.oblige('PC: protein_precheck raises %s' % e.exc_name, False,
                       meta={'replay': lambda model: PRECHECK_REPLAY % {'verif': os.path.dirname(os.path.dirname(os.path.abspath(__file__)))}})
    pr.explore(ex, thunk, 'protein_precheck')


def task_placement_safety(pr, repo):
    """Hydrogen placement on truncated environments: no exception whatever is left around the atom (geometry abstracted)."""
    from . import C17
    ex = Executor(repo)
    P = C17.P
    A = repo.cls('propka.atom.Atom')
    V = repo.cls('propka.vector_algebra.Vector')
    k = [0]

    def fresh_vec(*a, **kw):
        k[0] += 1
        return xyz('w%d' % k[0], V)
    for n in ('propka.protonate.rotate_vector_around_an_axis', 'propka.vector_algebra.rotate_vector_around_an_axis'):
        ex.contracts[n] = lambda ex, ctx, fi, a, kk, so: fresh_vec()
    ex.contracts[P + '.set_bond_distance'] = lambda ex, ctx, fi, a, kk, so: fresh_vec()
    ex.contracts['propka.vector_algebra.Vector.rescale'] = lambda ex, ctx, fi, a, kk, so: fresh_vec()
    for meth, steric in (('trigonal', 3), ('tetrahedral', 4)):
        for nb in (0, 1, 2, 3):
            for others in (0, 1, 2):
                for nsteric in (3, 4):
                    def thunk(ex, ctx, meth=meth, steric=steric, nb=nb, others=others, nsteric=nsteric):
                        conf = record('conf', repo.cls('propka.conformation_container.ConformationContainer'), atoms=[], chains=['A'],
                                      molecular_container=None)
                        at = xyz('at', A, element='O', name='O5', res_name='LIG', chain_id='A', res_num=5, type='hetatm', bonded_atoms=[],
                                 number_of_protons_to_add=2, steric_number=steric, conformation_container=conf)
                        for i in range(nb):
                            n_ = xyz('n%d' % i, A, element='C', steric_number=nsteric, steric_num_lone_pairs_set=True,
                                     bonded_atoms=[at] + [xyz('m%d_%d' % (i, j), A, element='C') for j in range(others)])
                            at.attrs['bonded_atoms'].append(n_)
                        try:
                            ex.call_function(repo.func(P + '.' + meth), [at], self_obj=C17.protonator(ex, repo))
                            ctx.oblige('PS[%s, %d bond(s), neighbour steric %d with %d other bond(s)]: placement completes' %
                                       (meth, nb, nsteric, others), True)
                        except PyRaise as e:
                            ctx.oblige('PS[%s, %d bond(s), neighbour steric %d with %d other bond(s)]: raises %s' %
                                       (meth, nb, nsteric, others, e.exc_name), False)
                    pr.explore(ex, thunk, 'placement safety %s %d/%d/%d' % (meth, nb, others, nsteric))


def task_sybyl_shapes(pr, repo):
    """SY: ligand atom typing completes for an atom with any number of remaining neighbours (0..3) - removing the neighbour of a
    terminal atom leaves an atom without bonds."""
    ex = Executor(repo)
    fi = repo.func('propka.ligand.assign_sybyl_type')
    pr.under_contract(fi)
    A = repo.cls('propka.atom.Atom')
    ex.contracts['propka.ligand.is_ring_member'] = lambda ex_, c_, f_, a, k, so: []
    ex.contracts['propka.ligand.is_aromatic_ring'] = lambda ex_, c_, f_, a, k, so: False
    ex.contracts['propka.ligand.is_planar'] = lambda ex_, c_, f_, a, k, so: ex_.ctx.branch(B('planar'))
    ex.contracts['propka.ligand.identify_ring'] = lambda ex_, c_, f_, a, k, so: []
    for el in ('O', 'N', 'C', 'S', 'P', 'F', 'Cl', 'X'):
        for nb in (0, 1, 2, 3):
            for nel in ('C', 'O', 'N'):
                def thunk(ex, ctx, el=el, nb=nb, nel=nel):
                    at = record('at', A, element=el, name=el + '1', sybyl_assigned=False, sybyl_type='', type='hetatm', bonded_atoms=[],
                                res_name='LIG', res_num=1, chain_id='L')
                    for i in range(nb):
                        n_ = record('n%d' % i, A, element=nel, name=nel + str(i), sybyl_assigned=False, sybyl_type='', type='hetatm',
                                    bonded_atoms=[at], res_name='LIG', res_num=1, chain_id='L')
                        at.attrs['bonded_atoms'].append(n_)
                    try:
                        ex.call_function(fi, [at])
                    except PyRaise as e:
                        ctx.oblige('SY[%s with %d %s neighbour(s)]: assign_sybyl_type raises %s' % (el, nb, nel, e.exc_name), False)
                        return
                    ctx.oblige('SY[%s with %d %s neighbour(s)]: typing completes' % (el, nb, nel), True)
                pr.explore(ex, thunk, 'assign_sybyl_type %s %d %s' % (el, nb, nel))


def task_bond_lengths(pr, repo):
    from . import C17
    C17.task_bond_distance(pr, repo)


def run(pr, repo):
    pr.parallel([(task_setup_atoms, ()), (task_placement_safety, ()), (task_interactions, ()), (task_reject, ()), (task_precheck, ()), (C05.task_smallest, ()),
                 (C01.task_classify, ()), (C01.task_setup, ()),
                 # a group that only some conformation still has (atoms missing in model 1) is still reported in the average
                 (C08.task_average, (2, ('census',))), (C16.task_version_hb, ()), (task_sybyl_shapes, ()), (C16.task_coupling_effects, ()),
                 # hydrogens on under-coordinated atoms of elements without a tabulated X-H length (truncated phosphates, selenomethionine)
                 (task_bond_lengths, ())])
    pr.assumptions += ['protonation inside setup_atoms is abstracted to "adds 0, 1 or 2 hydrogens bonded to that atom"',
                       'the pipeline as a whole is NOT proved exception free (ligand typing, ring search and hydrogen placement '
                       'rescale vectors that are zero for coincident/collinear atoms): bounded deletion monitor',
                       'bonds are symmetric (C11)']
    bounded(pr)


def bounded(pr):
    from . import native
    import random
    from .C01 import expected_sites, TABLE
    from . import cfg
    p = cfg.parameters()
    rng = random.Random(pr.seed)
    names = ['3SGB-subset', '1HPX'] if pr.tier == 'quick' else ['3SGB-subset', '1HPX', '3SGB', '1FTJ-Chain-A', '4DFR']
    n_rand = 25 if pr.tier == 'quick' else 400
    ev, viol, classes = 0, [], set()
    for name in names:
        base = [l for l in native.pdb_lines(name) if l[:6] in ('ATOM  ', 'HETATM', 'TER   ')]
        idx = [i for i, l in enumerate(base) if l[:6] in ('ATOM  ', 'HETATM')]
        residues = sorted({(base[i][21], base[i][22:27]) for i in idx})
        cases = []
        for k in range(n_rand):
            kind = rng.choice(['atoms', 'atoms', 'residues', 'sidechain', 'backbone', 'oxt'])
            drop = set()
            if kind == 'atoms':
                drop = set(rng.sample(idx, rng.randint(1, 25)))
            elif kind == 'residues':
                rs = set(rng.sample(residues, rng.randint(1, 5)))
                drop = {i for i in idx if (base[i][21], base[i][22:27]) in rs}
            elif kind == 'sidechain':
                r = rng.choice(residues)
                drop = {i for i in idx if (base[i][21], base[i][22:27]) == r and base[i][12:16].strip() not in ('N', 'CA', 'C', 'O', 'CB', 'CG', 'CD', 'CZ', 'SG', 'NZ', 'OH')}
            elif kind == 'backbone':
                rs = set(rng.sample(residues, 3))
                drop = {i for i in idx if (base[i][21], base[i][22:27]) in rs and base[i][12:16].strip() in ('N', 'C', 'O')}
            else:
                drop = {i for i in idx if base[i][12:16] == ' OXT'}
            cases.append((kind, drop))
        for kind, drop in cases:
            ev += 1
            classes.add(kind)
            lines = [l for i, l in enumerate(base) if i not in drop]
            try:
                mol = native.run_text(lines)
            except Exception as e:    # noqa
                if len(viol) < 3:
                    viol.append({'what': '%s with %d atoms removed (%s): %s: %s' % (name, len(drop), kind, type(e).__name__, e), 'replay': None})
                continue
            exp = expected_sites(lines, p.ignore_residues, p.ions)
            c = mol.conformations[mol.conformation_names[0]]
            got = {(g.residue_type, g.atom.chain_id, g.atom.res_num, g.atom.icode) for g in c.groups if g.residue_type in TABLE}
            missing = [k[:4] for k in exp if k[:4] not in got]
            avr = {(g.residue_type, g.atom.chain_id, g.atom.res_num) for g in mol.conformations['AVR'].groups}
            if missing and len(viol) < 3:
                viol.append({'what': '%s with %d atoms removed (%s): groups whose defining atom remains are not created: %s' %
                                     (name, len(drop), kind, missing[:3]), 'replay': None})
    pr.bounded.append({'name': 'C12-monitor: random deletions of atoms / residues / side chains / backbone atoms / termini', 'evaluations': ev,
                       'distinct_nontrivial': len(classes), 'bound': '%d structures x %d deletions' % (len(names), n_rand),
                       'rule': 'calculation must complete; every ionizable site whose defining atom remains (census automaton of C01) is created',
                       'violations': viol})
