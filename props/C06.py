"""C06 - residue and chain labels identify residues but never influence the numbers.

  FR  census: chain_id / res_num / icode / label / residue_label are read only by the declared functions          (aux, frame)
  SR  radial_volume_desolvation: the same-residue exclusion is a function of EQUALITY of residue identities only -
      top-level form with identity = (chain, number, insertion code) [refuted: known finding D9], and the form
      the code implements, identity = (chain, number) [proved]                                                    (TOP)
  EQ  Group.__eq__ / Iterative.__eq__ depend on the labels only through equality; the label is built from residue
      type, number and chain only (type prefix in columns 1-3: calculate_intrinsic_pka reads only that)            (TOP)
  SK  sort_atoms_key is strictly increasing in (chain, residue number, atom-name character) for every residue
      number of the PDB field incl. negative ones - relabelling can only permute the order of commutative sums    (TOP)
  ID  pair loops / iterative objects / averaging tell equally labelled groups apart (shared with C05-SD/IT, C08-AVT)
"""
from .common import *   # noqa: F401,F403
from pyvc.loops import LoopSpec
from pyvc.core import Builtin
from pyvc.values import FmtStr, str_chars
from . import frames, C05, C08, C11, C16

E = 'propka.energy.'

READERS = {
    'chain_id': {'propka.atom.Atom.__init__', 'propka.atom.Atom.make_copy', 'propka.atom.Atom.make_pdb_line', 'propka.atom.Atom.__str__',
                 'propka.conformation_container.ConformationContainer.add_atom', 'propka.conformation_container.ConformationContainer.get_chain',
                 'propka.conformation_container.ConformationContainer.init_group', 'propka.conformation_container.ConformationContainer.sort_atoms_key',
                 'propka.conformation_container.ConformationContainer.top_up_from_atoms', 'propka.energy.radial_volume_desolvation',
                 'propka.group.Group.__init__', 'propka.hydrogens.make_new_h', 'propka.lib.resid_from_atom',
                 'propka.output.get_determinant_section', 'propka.protonate.Protonate.add_proton'},
    'res_num': {'propka.atom.Atom.__init__', 'propka.atom.Atom.make_copy', 'propka.atom.Atom.make_pdb_line', 'propka.atom.Atom.make_mol2_line',
                'propka.atom.Atom.__str__', 'propka.conformation_container.ConformationContainer.init_group',
                'propka.conformation_container.ConformationContainer.sort_atoms_key',
                'propka.conformation_container.ConformationContainer.top_up_from_atoms', 'propka.energy.radial_volume_desolvation',
                'propka.group.Group.__eq__', 'propka.group.Group.__init__', 'propka.hydrogens.add_amd_hydrogen',
                'propka.hydrogens.add_trp_hydrogen', 'propka.hydrogens.make_new_h', 'propka.hydrogens.protonate_30_style',
                'propka.iterative.Iterative.__eq__', 'propka.lib.resid_from_atom', 'propka.output.write_mol2_for_atoms',
                'propka.protonate.Protonate.add_proton'},
    'icode': {'propka.atom.Atom.make_copy', 'propka.conformation_container.ConformationContainer.init_group', 'propka.lib.resid_from_atom'},
    'residue_label': {'propka.atom.Atom.make_copy', 'propka.conformation_container.ConformationContainer.find_group',
                      'propka.conformation_container.ConformationContainer.top_up_from_atoms',
                      'propka.molecular_container.MolecularContainer.top_up_conformations',
                      'propka.molecular_container.MolecularContainer.average_of_conformations'},
}


def task_same_residue(pr, repo):
    ex = Executor(repo)
    FN = E + 'radial_volume_desolvation'
    fi = repo.func(FN)
    pr.under_contract(fi)
    A = repo.cls('propka.atom.Atom')

    def thunk(ex, ctx):
        p = C16.sym_params(ctx)
        p.attrs['VanDerWaalsVolume'] = {k: R('vdw_' + k) for k in ['C', 'C4', 'N', 'O', 'S']}
        sq = R('sq_dist')
        ctx.assume(sq >= 0)
        ex.contracts['propka.calculations.squared_distance'] = lambda ex, ctx_, fi_, a, k, so: sq
        st = {}

        def havoc(ex, ctx_, env, phase):
            v, n = ctx_.fresh('volume'), ctx_.fresh('num_volume', 'int')
            env.local['volume'] = v
            env.local['group'].attrs['num_volume'] = n
            return (v, n)

        def elem(ex, ctx_, env):
            a = record('atom', A, res_num=I('a_res_num'), chain_id=mk_str([I('a_chain')]), icode=mk_str([I('a_icode')]),
                       element='C', name='CB')
            st['a'] = a
            return a

        def step(ex, ctx_, env, tok, x, how):
            g = env.local['group'].attrs['atom']
            unchanged = And(env.local['volume'] == tok[0], env.local['group'].attrs['num_volume'] == tok[1])
            same2 = And(x.attrs['res_num'] == g.attrs['res_num'], ex.equals(x.attrs['chain_id'], g.attrs['chain_id']))
            same3 = And(same2, ex.equals(x.attrs['icode'], g.attrs['icode']))
            skipped = (how == 'continue')
            ctx_.oblige('SR(code form): an atom is excluded from the desolvation sum <=> it has the chain AND number of the group\'s '
                        'residue - a function of label equality only (no order, no arithmetic on labels)', skipped == same2)
            ctx_.oblige('SR(property form): an atom is excluded <=> it belongs to the group\'s residue, residues being identified by '
                        'chain, number AND insertion code', skipped == same3)
        ex.loop_hooks[(FN, 0)] = LoopSpec('desolv', elem, havoc, step=step, explore_exit=False)
        conf = record('conf', None)
        gatom = record('gatom', A, res_num=I('g_res_num'), chain_id=mk_str([I('g_chain')]), icode=mk_str([I('g_icode')]),
                       conformation_container=conf)
        conf.attrs['get_non_hydrogen_atoms'] = C16.Builtin_list([gatom])
        g = C16.sym_group(repo, 'g', atom=gatom, energy_volume='real')
        ex.call_function(fi, [p, g])
    pr.explore(ex, thunk, FN)
    ex.loop_hooks.clear()


def task_eq_label(pr, repo):
    ex = Executor(repo)
    G = repo.cls('propka.group.Group')
    A = repo.cls('propka.atom.Atom')
    pr.under_contract(repo.func('propka.group.Group.__init__'))
    pr.under_contract(repo.func('propka.group.Group.__eq__'))
    pr.under_contract(repo.func('propka.iterative.Iterative.__eq__'))

    def thunk(ex, ctx):
        at = record('at', A, res_name='ASP', terminal=None, type='atom', res_num=I('num'), chain_id=mk_str([I('chain')]),
                    icode=mk_str([I('icode')]), name='CG', element='C')
        g = ex.instantiate(G, [at], {})
        lab = g.attrs['label']
        ok = isinstance(lab, FmtStr) and len(lab.parts) == 1 and lab.parts[0][1] == '{g.residue_type:<3s}{a.res_num:>4d}{a.chain_id:>2s}'
        ctx.oblige('EQ: the label of a protein group is residue type (3 columns), residue number, chain - no other input; its first '
                   'three characters are the residue type (what calculate_intrinsic_pka inspects)',
                   ok and lab.parts[0][3].get('g') is g and lab.parts[0][3].get('a') is at and g.attrs['residue_type'] == 'ASP')
    pr.explore(ex, thunk, 'Group.__init__ label')

    def t_eq(ex, ctx):
        def mk(nm, typ, lab, num):
            return record(nm, G, atom=record(nm + '_a', A, type=typ, res_num=num), label=lab)
        l1, l2 = mk_str([I('l1_%d' % i) for i in range(3)]), mk_str([I('l2_%d' % i) for i in range(3)])
        n1, n2 = I('n1'), I('n2')
        for typ in ('atom', 'hetatm'):
            a, b = mk('ga', typ, l1, n1), mk('gb', typ, l2, n2)
            r = ex.call_function(repo.func('propka.group.Group.__eq__'), [b], self_obj=a)
            want = ex.equals(l1, l2) if typ == 'atom' else And(ex.equals(l1, l2), n1 == n2)
            ctx.oblige('EQ[%s]: Group.__eq__ is label equality (hetero groups: label and residue number) - labels enter through '
                       'equality only' % typ, Sym(to_bool(r)) == Sym(to_bool(want)))
    pr.explore(ex, t_eq, 'Group.__eq__')


def task_sort_key(pr, repo):
    ex = Executor(repo)
    fi = repo.func('propka.conformation_container.ConformationContainer.sort_atoms_key')
    pr.under_contract(fi)
    A = repo.cls('propka.atom.Atom')

    def thunk(ex, ctx):
        def mk(t):
            c, n, ch = I(t + '_chain'), I(t + '_num'), I(t + '_char')
            ctx.assume(And(c >= 33, c <= 126, n >= -999, n <= 9999, ch >= 33, ch <= 126))
            a = record(t, A, chain_id=mk_str([c]), res_num=n, name=mk_str([67, ch]), element='C')
            return a, c, n, ch
        a, ca, na, xa = mk('a')
        b, cb, nb, xb = mk('b')
        ka = ex.call_function(fi, [a])
        kb = ex.call_function(fi, [b])
        lex = And(ca == cb, Or(na < nb, And(na == nb, xa < xb)))
        ctx.oblige('SK: within a chain the atom sort key is strictly increasing in (residue number, atom-name character) over the '
                   'whole PDB number field incl. negative numbers (the order ACROSS chains is immaterial: only commutative sums '
                   'and the serial renumbering depend on it)', Implies(lex, ka < kb))
    pr.explore(ex, thunk, 'sort_atoms_key')


def task_intrinsic(pr, repo):
    """IP: the intrinsic pKa counts the side-chain determinants of NON-titratable partners, whatever residue number and chain the
    partner carries (labels with 1-4 digit and negative numbers: 'ASP1025 A', 'HIS-100 B')."""
    from . import C02
    ex = Executor(repo)
    fi = repo.func('propka.group.Group.calculate_intrinsic_pka')
    pr.under_contract(fi)
    titr = ['ASP', 'GLU', 'LYS', 'ARG', 'HIS', 'CYS', 'TYR', 'C-', 'N+']
    other = ['SER', 'THR', 'ASN', 'GLN', 'TRP', 'AMD', 'ROH']
    for num in ('   7', '  25', ' 125', '1025', ' -50', '-100', '9999'):
        def thunk(ex, ctx, num=num):
            g = C02.mkgroup(repo, 'g', (0, 1, 0), label='GLU  10 A')
            g.attrs['intrinsic_pka'] = None
            want = g.attrs['model_pka'] + g.attrs['energy_volume'] + g.attrs['energy_local'] + g.attrs['determinants']['backbone'][0].attrs['value']
            for i, rt in enumerate(titr + other):
                d = C02.mkdet(repo, 'd%d' % i, label='%-3s%s A' % (rt, num))
                g.attrs['determinants']['sidechain'].append(d)
                if rt in other:
                    want = want + d.attrs['value']
            ex.call_function(fi, [], self_obj=g)
            ctx.oblige('IP[residue number field %r]: intrinsic pKa = model + desolvation + backbone + side-chain determinants of the '
                       'non-titratable partners only' % num, g.attrs['intrinsic_pka'] == want)
        pr.explore(ex, thunk, 'calculate_intrinsic_pka %r' % num)


def task_bond_labels(pr, repo):
    """BL (relational): two pairs of atoms with the same elements and coordinates but arbitrary, independent residue labels get the
    same bond and the same disulfide marks - whatever the bond rule itself is (that rule is C11's business, not this property's)."""
    ex = Executor(repo)
    BMn = 'propka.bonds.BondMaker'
    fi = repo.func(BMn + '.find_bonds_for_atoms')
    for n in ('find_bonds_for_atoms', '_find_bonds_for_atoms', 'make_bond', 'check_distance'):
        pr.under_contract(repo.func(BMn + '.' + n))
    A = repo.cls('propka.atom.Atom')
    for e1, e2 in (('S', 'S'), ('C', 'N'), ('H', 'O')):
        def thunk(ex, ctx, e1=e1, e2=e2):
            bm = C11.bondmaker(ex, repo)
            pa, pb = [R('pa' + c) for c in 'xyz'], [R('pb' + c) for c in 'xyz']
            res = []
            for run in (0, 1):
                def mk(nm, el, p_):
                    return record('%s%d' % (nm, run), A, element=el, x=p_[0], y=p_[1], z=p_[2], bonded_atoms=[], cysteine_bridge=False,
                                  res_num=I('%s%d_resnum' % (nm, run)), chain_id=mk_str([I('%s%d_chain' % (nm, run))]),
                                  icode=mk_str([I('%s%d_icode' % (nm, run))]), numb=I('%s%d_numb' % (nm, run)),
                                  res_name=mk_str([I('%s%d_rn%d' % (nm, run, k)) for k in range(3)]), name=el + 'X')
                a, b = mk('a', e1, pa), mk('b', e2, pb)
                ctx.assume(a.attrs['numb'] != b.attrs['numb'])       # two records of one file carry different serial numbers
                ex.call_function(fi, [[a, b]], self_obj=bm)
                res.append((any(x is b for x in a.attrs['bonded_atoms']), any(x is a for x in b.attrs['bonded_atoms']),
                            a.attrs['cysteine_bridge'], b.attrs['cysteine_bridge']))
            ctx.oblige('BL[%s-%s]: bond and disulfide marks of a pair do not depend on chain id, residue number, insertion code or '
                       'residue name' % (e1, e2),
                       And(*[Sym(to_bool(x)) == Sym(to_bool(y)) for x, y in zip(res[0], res[1])]))
        pr.explore(ex, thunk, 'bond labels %s-%s' % (e1, e2))


def task_bond_path_labels(pr, repo):
    """BP (relational): whether two atoms are within n bonds of each other is a question about the bond graph only: the same graph
    with other (arbitrary, independent) chain ids / residue numbers gives the same answer."""
    ex = Executor(repo)
    fi = repo.func('propka.atom.Atom.is_atom_within_bond_distance')
    pr.under_contract(fi)
    A = repo.cls('propka.atom.Atom')
    for nbonds in (1, 2, 3, 4, 5):
        def thunk(ex, ctx, nbonds=nbonds):
            res = []
            for run in (0, 1):
                atoms = [record('p%d_%d' % (run, i), A, bonded_atoms=[], res_num=I('p%d_%d_resnum' % (run, i)),
                                chain_id=mk_str([I('p%d_%d_chain' % (run, i))]), icode=mk_str([I('p%d_%d_icode' % (run, i))]),
                                name='X%d' % i, element='C') for i in range(nbonds + 1)]
                side = record('side%d' % run, A, bonded_atoms=[atoms[0]], res_num=I('s%d_resnum' % run), chain_id='A', icode=' ',
                              name='S', element='C')
                atoms[0].attrs['bonded_atoms'].append(side)
                for i in range(nbonds):
                    atoms[i].attrs['bonded_atoms'].append(atoms[i + 1])
                    atoms[i + 1].attrs['bonded_atoms'].append(atoms[i])
                res.append(ex.call_function(fi, [atoms[-1], 4, 1], self_obj=atoms[0]))
            ctx.oblige('BP[%d bonds apart]: "within 4 bonds" is the same for any labelling of the same bond graph (and true iff the '
                       'path has at most 4 bonds)' % nbonds,
                       And(Sym(to_bool(res[0])) == Sym(to_bool(res[1])), Sym(to_bool(res[0])) == Sym(to_bool(nbonds <= 4))))
        pr.explore(ex, thunk, 'bond path labels %d' % nbonds)


def task_pair_order_labels(pr, repo):
    """PO (relational): the pair routines treat (group1, group2) in the order the pair loop hands them over - which partner plays which
    role may not depend on chain ids or residue numbers.  The H-bond routine is order sensitive (the hydrogen of the second group is
    used when both are angular dependent), so its contract returns a value per ORDERED pair."""
    from pyvc.core import Builtin
    ex = Executor(repo)
    D_ = 'propka.determinants.'
    for fname in ('add_sidechain_determinants', 'add_coulomb_determinants'):
        fi = repo.func(D_ + fname)
        pr.under_contract(fi)

        def thunk(ex, ctx, fi=fi, fname=fname):
            res = []
            hb = {(1, 2): R('hb_12'), (2, 1): R('hb_21')}
            for run in (0, 1):
                gs = {}
                for k in (1, 2):
                    g = C16.sym_group(repo, 'g%d_%d' % (k, run))
                    g.attrs['charge'] = R('q%d' % k)
                    g.attrs['model_pka'] = R('pkm%d' % k)
                    g.attrs['__k__'] = k
                    g.attrs['atom'] = record('a%d_%d' % (k, run), repo.cls('propka.atom.Atom'), res_num=I('g%d_%d_resnum' % (k, run)),
                                             chain_id=mk_str([I('g%d_%d_chain' % (k, run))]), icode=' ')
                    gs[k] = g
                version = record('version', None)
                version.attrs['hydrogen_bond_interaction'] = Builtin('hbi', lambda ex_, a, b: hb[(a.attrs['__k__'], b.attrs['__k__'])])
                version.attrs['electrostatic_interaction'] = Builtin('ei', lambda ex_, a, b, d: hb[(a.attrs['__k__'], b.attrs['__k__'])])
                ex.contracts[D_ + 'add_coulomb_acid_pair'] = lambda ex_, c_, f_, a, k, so: res_calls.append(('acid', a[0].attrs['__k__'], a[1].attrs['__k__']))
                ex.contracts[D_ + 'add_coulomb_base_pair'] = lambda ex_, c_, f_, a, k, so: res_calls.append(('base', a[0].attrs['__k__'], a[1].attrs['__k__']))
                ex.contracts[D_ + 'add_coulomb_ion_pair'] = lambda ex_, c_, f_, a, k, so: res_calls.append(('ion', a[0].attrs['__k__'], a[1].attrs['__k__']))
                res_calls = []
                if fname == 'add_sidechain_determinants':
                    ex.call_function(fi, [gs[1], gs[2], version])
                else:
                    ex.call_function(fi, [gs[1], gs[2], R('dist'), version])
                res.append(([d.attrs['value'] for d in gs[1].attrs['determinants']['sidechain']],
                            [d.attrs['value'] for d in gs[2].attrs['determinants']['sidechain']], list(res_calls)))
            a, b = res
            same = len(a[0]) == len(b[0]) and len(a[1]) == len(b[1]) and a[2] == b[2]
            ctx.oblige('PO[%s]: the terms given to the two partners are the same for any chain ids / residue numbers of the pair' % fname,
                       And(same, *[x == y for x, y in zip(a[0] + a[1], b[0] + b[1])]) if same else False)
        pr.explore(ex, thunk, 'pair order labels ' + fname)


def task_option_parse(pr, repo):
    from . import C14
    C14.task_parse(pr, repo)
    # ... and matched against (chain, number, insertion code) as a whole: the same number selected in two chains selects both
    C14.task_init_group(pr, repo)


def task_topup_labels(pr, repo):
    # completing a conformation identifies residue positions by chain AND number (C08-TU over a universe with two chains)
    C08.task_topup(pr, repo)


def task_chain_starts(pr, repo):
    from . import reader
    reader.task_nterm(pr, repo)


def run(pr, repo):
    pr.level = 'other'
    pr.explanation = ('deductive core (VC + frame census) plus bounded relabelling monitor; level "other" because the insertion-code '
                      'clause of the property does NOT hold on this tree (recorded known finding D9: residue identity is chain+number '
                      'only in the desolvation exclusion and in every label) - its obligation is refuted on every run and reported as '
                      'KNOWN-FINDING, so discharged < obligations')
    pr.parallel([(task_same_residue, ()), (task_eq_label, ()), (task_sort_key, ()), (C05.task_set_determinants, ()),
                 (C05.task_iterative, ()), (C08.task_average_twins, ()),
                 # bonds and disulfide flags are decided by elements and distance only - residue labels are symbolic there
                 (task_bond_labels, ()), (task_bond_path_labels, ()), (task_pair_order_labels, ()), (task_intrinsic, ()),
                 # options that name residues are relabelled with the structure: negative numbers, any chain character
                 (task_option_parse, ()), (task_topup_labels, ()),
                 # where a chain starts is decided by comparing residue identifiers as a whole (chain, number, insertion code) for
                 # equality - never by the number alone, which collides under renumbering (record automaton, ATOM N / OXT steps)
                 (task_chain_starts, ())])
    for f, allowed in READERS.items():
        frames.clause(pr, repo, 'readers of .%s are the declared ones' % f, f, 'readers', allowed)
    pr.assumptions += ['atom order (changed by relabelling through the sort key) only permutes commutative sums: A-REAL',
                       'composition step (bounded relabelling monitor)']
    bounded(pr)


def relabel(lines, chain_map=None, shift=None, seq_icodes=False):
    out = []
    counters = {}
    last = {}
    for l in lines:
        if l[:6] in ('ATOM  ', 'HETATM'):
            ch = l[21]
            num = int(l[22:26])
            ic = l[26]
            if seq_icodes:
                key = (ch, num, ic)
                if last.get(ch) != key:
                    counters[ch] = counters.get(ch, 0) + 1
                    last[ch] = key
                num, ic = counters[ch], ' '
            if shift:
                num += shift.get(ch, 0)
            if chain_map:
                ch = chain_map.get(ch, ch)
            l = l[:21] + ch + '%4d' % num + ic + l[27:]
        out.append(l)
    return out


def bounded(pr):
    from . import native
    names = ['3SGB-subset', '1HPX'] if pr.tier == 'quick' else ['3SGB-subset', '1HPX', '3SGB', '4DFR', '1FTJ-Chain-A']
    ev, viol, classes = 0, [], set()
    for name in names:
        lines = native.pdb_lines(name)
        ref = native.record(native.run_text(lines), with_label=False)
        chains = sorted({l[21] for l in lines if l[:6] in ('ATOM  ', 'HETATM')})
        cm = {c: chr(ord('P') + i) for i, c in enumerate(chains)}
        edits = [('chains renamed', dict(chain_map=cm)),
                 ('numbers shifted per chain (+1000 / -500)', dict(shift={c: (1000 if i % 2 == 0 else -500) for i, c in enumerate(chains)})),
                 ('renamed and shifted', dict(chain_map=cm, shift={c: 37 * (i + 1) for i, c in enumerate(chains)})),
                 # small shifts: residues take over the printed labels other residues had in the run before
                 ('numbers shifted by -20', dict(shift={c: -20 for c in chains})),
                 ('numbers shifted by +1 / -1', dict(shift={c: (1 if i % 2 == 0 else -1) for i, c in enumerate(chains)}))]
        if len(chains) > 1:
            a, b = chains[0], chains[1]
            last_a = max(int(l[22:26]) for l in lines if l[:6] == 'ATOM  ' and l[21] == a)
            first_b = min(int(l[22:26]) for l in lines if l[:6] == 'ATOM  ' and l[21] == b)
            edits.append(('second chain renumbered to start at the last number of the first', dict(shift={b: last_a - first_b})))
            edits.append(('second chain renamed to the lower-case letter of the first', dict(chain_map={a: 'H', b: 'h'})))
            edits.append(('no TER records (terminal oxygens end the chains), second chain renumbered to start at the last number of the first',
                          dict(shift={b: last_a - first_b}, noter=True)))
        has_icode = any(l[26] != ' ' for l in lines if l[:6] in ('ATOM  ', 'HETATM'))
        if has_icode:
            edits.append(('insertion-coded residues renumbered sequentially', dict(seq_icodes=True)))
        for what, kw in edits:
            ev += 1
            classes.add(what)
            try:
                kw = dict(kw)
                ref_here = ref
                src = lines
                if kw.pop('noter', False):
                    src = [l for l in lines if not l.startswith('TER')]
                    ref_here = native.record(native.run_text(src), with_label=False)
                got = native.record(native.run_text(relabel(src, **kw)), with_label=False)
                d = []
                for conf in ref_here:
                    a, b = ref_here[conf], got.get(conf, [])
                    if len(a) != len(b):
                        d.append('%s: %d vs %d groups' % (conf, len(a), len(b)))
                        continue
                    # groups keep file order within a chain; compare as multisets of (type, values) per conformation
                    def key(g):
                        # ... and the listed determinants (values per kind): which entries are separate rows and which are merged
                        # into one must not depend on how the partners are numbered
                        return (g['type'], round(g['pka'], 6), round(g['evol'], 6), round(g['buried'], 6), g['coupled'] > 0,
                                g['reported'], g['discarded'],
                                tuple(tuple(sorted(round(v, 6) for _, v in g['dets'][t])) for t in ('sidechain', 'backbone', 'coulomb')))
                    ka = sorted(map(key, a), key=repr)
                    kb = sorted(map(key, b), key=repr)
                    diff = [x for x, y in zip(ka, kb) if x != y]
                    if diff:
                        d.append('%s: %d group value tuples differ, e.g. %r' % (conf, len(diff), diff[0]))
            except Exception as e:    # noqa
                d = ['%s: %s' % (type(e).__name__, e)]
            if d and len(viol) < 4:
                viol.append({'what': '%s, %s: %s' % (name, what, d[:2]), 'replay': None})
    # options that name chains / residues, relabelled together with the structure
    def key(g):
        return (g['type'], round(g['pka'], 6), round(g['evol'], 6), round(g['buried'], 6), g['coupled'] > 0, g['reported'], g['titratable'])
    for name in names[:2]:
        lines = native.pdb_lines(name)
        chains = sorted({l[21] for l in lines if l[:6] in ('ATOM  ', 'HETATM')})
        base = native.run_text(lines)
        picks = [g for g in base.conformations['AVR'].groups if g.titratable and g.atom.type == 'atom'][:12:3]
        cases = []
        sh = {c: -60 for c in chains}                       # residue numbers go negative
        cm = {chains[0]: ' '}                               # first chain loses its identifier
        cm2 = {chains[0]: 'q'}                              # ... or becomes a lower-case letter
        for what, kw in (('numbers shifted by -60 (negative numbers)', dict(shift=sh)), ('first chain renamed to q', dict(chain_map=cm2))):
            lst0 = ','.join('%s:%d' % (g.atom.chain_id, g.atom.res_num) for g in picks)
            lst1 = ','.join('%s:%d' % (kw.get('chain_map', {}).get(g.atom.chain_id, g.atom.chain_id),
                                       g.atom.res_num + kw.get('shift', {}).get(g.atom.chain_id, 0)) for g in picks)
            cases.append((what + ', --titrate_only list relabelled too', ['-i', lst0], ['-i', lst1], kw))
        cases.append(('first chain renamed to blank and selected with -c', ['-c', chains[0]], ['-c', ' '], dict(chain_map=cm)))
        for what, o0, o1, kw in cases:
            ev += 1
            classes.add(what)
            try:
                a = native.record(native.run_text(lines, o0), with_label=False)
                b = native.record(native.run_text(relabel(lines, **kw), o1), with_label=False)
                d = []
                for conf in a:
                    ka, kb = sorted(map(key, a[conf]), key=repr), sorted(map(key, b.get(conf, [])), key=repr)
                    if ka != kb:
                        d.append('%s: %d vs %d groups, %d value tuples differ' % (conf, len(ka), len(kb), len([1 for x, y in zip(ka, kb) if x != y])))
            except (Exception, SystemExit) as e:    # noqa
                d = ['%s: %s' % (type(e).__name__, e)]
            if d and len(viol) < 4:
                viol.append({'what': '%s, %s (options %r -> %r): %s' % (name, what, o0, o1, d[:2]), 'replay': None})
    pr.bounded.append({'name': 'C06-monitor: relabelling on real runs', 'evaluations': ev, 'distinct_nontrivial': len(classes),
                       'bound': '%d structures x up to 4 relabellings' % len(names),
                       'rule': 'pKa, desolvation, buried value, coupled mark, reported flag and discard reason of all groups compared as multisets per conformation (6 decimals)',
                       'violations': viol})
