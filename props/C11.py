"""C11 - covalent bonds are exactly those the pairwise distance rule gives.

Deductive core on the real code (BondMaker built by executing its real __init__):
  CD  check_distance is symmetric and True => squared distance <= max_sq_distance   (per element pair)
  BX  find_bonds_for_atoms_using_boxes on TWO atoms at ARBITRARY real coordinates (any cell
      placement, any sign, both orders, any prior bonds): bonded(a,b) <=> check_distance(a,b),
      symmetric, no self bond, S-S => both cysteine_bridge, nothing else touched        (TOP)
  CL  cell lemma: within criterion => cell indices differ by at most 1 per axis (box size from the code)
  OF  offset list: for every d in {-1,0,1}^3 \ {0} exactly one of d, -d is listed      (GROUND on the AST)
  CV  find_bonds_for_atoms examines every pair i<j once; ..._disjoint every cross pair  (concrete lists)
  GS  bridged cysteine: Group.setup => not titratable; calculate_total_pka => 99.99
"""
import ast as _ast

from .common import *   # noqa: F401,F403
from pyvc.core import Builtin

BM = 'propka.bonds.BondMaker'
ELEMENTS = ['S', 'C', 'H', 'F', 'N', 'Hg']


def bondmaker(ex, repo):
    ex.contracts['propka.input.open_file_for_reading'] = lambda ex, ctx, fi, a, k, so: a[0]
    return ex.instantiate(repo.cls(BM), [], {})


def atom(repo, name, element, bonded=None):
    A = repo.cls('propka.atom.Atom')
    # residue labels are arbitrary (symbolic): the bond rule may not look at them (C06)
    return xyz(name, A, element=element, bonded_atoms=list(bonded or []), cysteine_bridge=False, res_num=I(name + '_resnum'),
               chain_id=mk_str([I(name + '_chain')]), icode=mk_str([I(name + '_icode')]))


REPLAY_PAIR = r'''
import sys
from propka.bonds import BondMaker
from propka.atom import Atom
def mk(el, xyz):
    a = Atom(); a.element = el; a.x, a.y, a.z = xyz; a.name = el; return a
bad = 0
for (pa, pb) in %(placements)r:
    for order in (0, 1):
        a, b = mk(%(e1)r, pa), mk(%(e2)r, pb)
        bm = BondMaker()
        rule = bm.check_distance(a, b)
        sq = sum((p - q) ** 2 for p, q in zip(pa, pb))
        key = %(e1)r + '-' + %(e2)r
        hc = key.count('H')
        th = 1.5 ** 2 if hc == 1 else (max(2.0 ** 2, {'S-S': 2.5 ** 2, 'F-F': 1.7 ** 2}.get(key, 0.0)) if hc == 0 else None)
        spec = th is not None and sq < th
        if abs(sq - (th or 0)) > 1e-6 and rule != spec:
            print('placement', pa, pb, 'check_distance =', rule, 'criterion (distance^2 %%r < %%r) =' %% (sq, th), spec); bad += 1
        bm.find_bonds_for_atoms_using_boxes([a, b] if order == 0 else [b, a])
        got = (b in a.bonded_atoms, a in b.bonded_atoms)
        if got != (rule, rule) or a in a.bonded_atoms or b in b.bonded_atoms:
            print('placement', pa, pb, 'order', order, 'rule says', rule, 'bonds found', got); bad += 1
        if rule and %(e1)r == 'S' and %(e2)r == 'S' and not (a.cysteine_bridge and b.cysteine_bridge):
            print('S-S within distance but not both bridged', pa, pb); bad += 1
sys.exit(1 if bad else 0)
'''


def replay_pair(e1, e2):
    def b(model):
        pa = [mval(model, 'a_%s' % c) for c in 'xyz']
        pb = [mval(model, 'b_%s' % c) for c in 'xyz']
        d = [pb[i] - pa[i] for i in range(3)]
        pl = [(pa, pb)]
        # the same relative placement shifted to other cells / negative coordinates
        for s in (-7.53, 2.51, 100.0):
            pl.append(([x + s for x in pa], [x + s for x in pb]))
        return REPLAY_PAIR % {'placements': pl, 'e1': e1, 'e2': e2}
    return b


def task_check_distance(pr, repo):
    ex = Executor(repo)
    fi = repo.func(BM + '.check_distance')
    pr.under_contract(fi)
    pr.under_contract(repo.func(BM + '.__init__'), how='executed (concrete constants, protein_bonds.json read from the tree)')
    pr.under_contract(repo.func('propka.calculations.squared_distance'), how='inlined')
    # every element that the table of special bond lengths of THIS tree names is tested, in both orders
    keys = []
    ex.run_paths(lambda ex_, ctx_: keys.extend(bondmaker(ex_, repo).attrs['distances_squared'].keys()))
    elements = list(ELEMENTS) + sorted({e for k in keys for e in str(k).split('-')} - set(ELEMENTS))
    for e1 in elements:
        for e2 in elements:
            def thunk(ex, ctx, e1=e1, e2=e2):
                bm = bondmaker(ex, repo)
                a, b = atom(repo, 'a', e1), atom(repo, 'b', e2)
                r1 = ex.call_function(fi, [a, b], self_obj=bm)
                r2 = ex.call_function(fi, [b, a], self_obj=bm)
                sq = sum((b.attrs[c] - a.attrs[c]) * (b.attrs[c] - a.attrs[c]) for c in 'xyz')
                ctx.oblige('check_distance(%s,%s) is symmetric' % (e1, e2), r1 == r2 if isinstance(r1, bool) and isinstance(r2, bool) else False,
                           meta={'replay': replay_pair(e1, e2)})
                # the criterion, written from the documented constants: a function of the elements and
                # the squared distance only
                key = '%s-%s' % (e1, e2)
                hc = key.count('H')
                tab = bm.attrs['distances_squared']
                th = None
                if hc == 1:
                    th = bm.attrs['h_dist_squared']
                elif hc == 0:
                    th = max(bm.attrs['default_dist_squared'], tab.get(key, 0.0))
                elif key in tab:
                    th = tab[key]
                want = (sq < th) if th is not None else False
                ctx.oblige('check_distance(%s,%s) == (squared distance < threshold(%s)^2): depends on the positions only '
                           'through the distance' % (e1, e2, key), r1 == want if isinstance(r1, bool) else False,
                           meta={'replay': replay_pair(e1, e2)})
                ctx.oblige('check_distance(%s,%s) True => squared distance <= max_sq_distance' % (e1, e2),
                           Implies(r1, sq <= bm.attrs['max_sq_distance']))
                return r1
            pr.explore(ex, thunk, 'check_distance %s-%s' % (e1, e2))


def task_boxes_pair(pr, repo, e1, e2, prior, orders=(0, 1)):
    """Two atoms, arbitrary coordinates: the whole box algorithm against the pairwise rule."""
    ex = Executor(repo)
    fi = repo.func(BM + '.find_bonds_for_atoms_using_boxes')
    cd = repo.func(BM + '.check_distance')
    for n in ('find_bonds_for_atoms_using_boxes', 'find_bonds_for_atoms', 'find_bonds_for_atoms_disjoint',
              '_find_bonds_for_atoms', 'make_bond', 'check_distance'):
        pr.under_contract(repo.func(BM + '.' + n))
    ex.assert_mode = 'raise'
    for order in orders:
        def thunk(ex, ctx, order=order):
            bm = bondmaker(ex, repo)
            c = atom(repo, 'c', 'C')           # a third atom a may already be bonded to (frame)
            a, b = atom(repo, 'a', e1, bonded=[c] if prior else []), atom(repo, 'b', e2)
            if prior:
                c.attrs['bonded_atoms'].append(a)
            for at in (a, b):
                for k in 'xyz':
                    ctx.assume(And(at.attrs[k] >= -999.999, at.attrs[k] <= 9999.999))   # PDB coordinate field
            rule = ex.call_function(cd, [a, b], self_obj=bm)
            ex.call_function(fi, [[a, b] if order == 0 else [b, a]], self_obj=bm)
            ba, bb = a.attrs['bonded_atoms'], b.attrs['bonded_atoms']
            found_ab = any(x is b for x in ba)
            found_ba = any(x is a for x in bb)
            tag = '%s-%s order %d%s' % (e1, e2, order, ' prior bond' if prior else '')
            meta = {'replay': replay_pair(e1, e2)}
            ctx.oblige('BX[%s]: bond found <=> pairwise rule (any cell placement)' % tag,
                       And(found_ab == rule, found_ba == rule) if isinstance(rule, bool) else False, meta=meta)
            others_a = [x for x in ba if x is not b]
            others_b = [x for x in bb if x is not a]
            ctx.oblige('BX[%s]: symmetric, no self bond, no duplicate, earlier bonds kept, third atoms untouched' % tag,
                       And(found_ab == found_ba, not any(x is a for x in ba), not any(x is b for x in bb),
                           len([x for x in ba if x is b]) <= 1, len([x for x in bb if x is a]) <= 1,
                           others_a == ([c] if prior else []) and others_b == [],
                           (c.attrs['bonded_atoms'] == ([a] if prior else []))), meta=meta)
            if e1 == 'S' and e2 == 'S':
                ctx.oblige('BX[%s]: S-S within distance <=> both atoms marked cysteine_bridge' % tag,
                           And(a.attrs['cysteine_bridge'] == rule, b.attrs['cysteine_bridge'] == rule), meta=meta)
            else:
                ctx.oblige('BX[%s]: no bridge flag for non S-S pairs' % tag,
                           And(a.attrs['cysteine_bridge'] is False, b.attrs['cysteine_bridge'] is False), meta=meta)
            return None
        paths = pr.explore(ex, thunk, 'boxes pair %s-%s' % (e1, e2), max_paths=5000)
        pr.notes.append('BX %s-%s order %d prior %s: %d paths' % (e1, e2, order, prior, len(paths)))


def task_plumbing(pr, repo):
    """PL: the default pipeline runs the box search ONCE per conformation on ALL atoms of that conformation - every chain, hetero atoms
    and supplied hydrogens included - so every pair the pairwise rule bonds is offered to it."""
    from pyvc.core import Builtin
    ex = Executor(repo)
    f1 = repo.func(BM + '.find_bonds_for_molecules_using_boxes')
    f2 = repo.func('propka.hydrogens.setup_bonding')
    f3 = repo.func('propka.hydrogens.setup_bonding_and_protonation')
    for f in (f1, f2, f3):
        pr.under_contract(f)
    A = repo.cls('propka.atom.Atom')
    CCn = 'propka.conformation_container.ConformationContainer'

    def mkmol():
        confs = {}
        for cn, chains in (('1A', ['A', 'B']), ('1B', ['A'])):
            # the two conformations list the SAME atoms (labels, names, order) at DIFFERENT coordinates: each needs its own search
            atoms = [record('%s_%d' % (cn, i), A, element=e, chain_id=ch, type=t, name=e + str(i), bonded_atoms=[],
                            residue_label='%-3s%4d%2s' % (e + str(i), 10 + i, ch), res_num=10 + i, res_name='XXX', numb=i, icode=' ',
                            x=R('%s_%d_x' % (cn, i)), y=R('%s_%d_y' % (cn, i)), z=R('%s_%d_z' % (cn, i)), cysteine_bridge=False,
                            terminal=None, occ='1.00', beta='0.00')
                     for i, (e, ch, t) in enumerate([('S', 'A', 'atom'), ('S', 'B', 'atom'), ('H', 'A', 'atom'), ('C', 'L', 'hetatm'),
                                                     ('N', 'B', 'atom')])]
            confs[cn] = record('conf' + cn, repo.cls(CCn), atoms=atoms, chains=list(chains), groups=[])
        return record('mol', None, conformation_names=['1A', '1B'], conformations=confs,
                      options=record('o', None, protonate_all=False, keep_protons=True)), confs

    def run(entry, label):
        def thunk(ex, ctx):
            mol, confs = mkmol()
            calls = []
            ex.contracts[BM + '.find_bonds_for_atoms_using_boxes'] = lambda ex_, c_, f_, a, k, so: calls.append(list(a[0]))
            for n in ('find_bonds_for_atoms', 'find_bonds_for_atoms_disjoint', '_find_bonds_for_atoms'):
                ex.contracts[BM + '.' + n] = lambda ex_, c_, f_, a, k, so, n=n: calls.append(('other', n))
            for n in ('add_pi_electron_information', 'connect_backbone', 'find_bonds_for_protein'):
                ex.contracts[BM + '.' + n] = lambda ex_, c_, f_, a, k, so: None
            ex.contracts['propka.protonate.Protonate.protonate'] = lambda ex_, c_, f_, a, k, so: None
            ex.contracts['propka.protonate.Protonate.remove_all_hydrogen_atoms'] = lambda ex_, c_, f_, a, k, so: None
            ex.contracts['propka.hydrogens.set_ligand_atom_names'] = lambda ex_, c_, f_, a, k, so: None
            ex.contracts[CCn + '.set_ligand_atom_names'] = lambda ex_, c_, f_, a, k, so: None
            if entry is f1:
                bm = bondmaker(ex, repo)
                ex.call_function(f1, [mol], self_obj=bm)
            elif entry is f2:
                ex.call_function(f2, [mol])
            else:
                ex.call_function(f3, [mol])
            want = [confs[c].attrs['atoms'] for c in ('1A', '1B')]
            ok = len(calls) == 2 and all(isinstance(c, list) for c in calls)
            if ok:
                for got, w in zip(calls, want):
                    ok = ok and len(got) == len(w) and all(any(x is y for y in got) for x in w)
            ctx.oblige('PL[%s]: one box search per conformation, over all of its atoms (all chains, hetero atoms, hydrogens)' % label, ok)
        pr.explore(ex, thunk, 'bond plumbing ' + label)
    run(f1, 'find_bonds_for_molecules_using_boxes')
    run(f2, 'setup_bonding')
    run(f3, 'setup_bonding_and_protonation')


def task_cell_lemma(pr, repo):
    """box size computed by the real statement; then the pure cell lemma with that size."""
    ex = Executor(repo)
    FN = BM + '.find_bonds_for_atoms_using_boxes'
    fi = repo.func(FN)
    got = {}

    def grab(ex, ctx, env):
        got['bs'] = env.local['box_size']
        raise CutPath()
    ex.stmt_hooks[(FN, 'box_size =')] = grab

    def thunk(ex, ctx):
        bm = bondmaker(ex, repo)
        got['m'] = bm.attrs['max_sq_distance']
        ex.call_function(fi, [[]], self_obj=bm)
    ex.run_paths(thunk)
    bs, m = got.get('bs'), got.get('m')
    ok = isinstance(bs, (int, float)) and isinstance(m, (int, float)) and bs > 0 and bs * bs > m
    pr.add(Ground('CL: box_size (%r) is positive and box_size^2 > max_sq_distance (%r)' % (bs, m), bool(ok), kind='aux'))
    if not ok:
        return
    from pyvc.values import real_val
    BS, M = Sym(real_val(bs)), Sym(real_val(m))
    for k in 'xyz':
        a, b = R('a' + k), R('b' + k)
        rest = R('rest_' + k)
        ia, ib = Sym(z3.ToInt((a / BS).e)), Sym(z3.ToInt((b / BS).e))
        pr.add(lemma('CL[%s]: (a-b)^2 + rest <= max_sq, rest >= 0  =>  |floor(a/bs) - floor(b/bs)| <= 1 (any sign of coordinates)' % k,
                     [(a - b) * (a - b) + rest <= M, rest >= 0], And(ia - ib <= 1, ib - ia <= 1)))


def task_offsets(pr, repo):
    """OF: the 13 offsets in the real AST cover each unordered neighbour direction exactly once."""
    fi = repo.func(BM + '.find_bonds_for_atoms_using_boxes')
    lists = [n for n in _ast.walk(fi.node) if isinstance(n, _ast.For) and isinstance(n.iter, _ast.List)
             and n.iter.elts and isinstance(n.iter.elts[0], _ast.Tuple)]
    ok, detail = False, 'offset list not found'
    if len(lists) == 1:
        try:
            offs = [tuple(_ast.literal_eval(e)) for e in lists[0].iter.elts]
            dirs = [(x, y, z) for x in (-1, 0, 1) for y in (-1, 0, 1) for z in (-1, 0, 1) if (x, y, z) != (0, 0, 0)]
            cnt = {d: 0 for d in dirs}
            bad = [o for o in offs if o not in cnt]
            for o in offs:
                if o in cnt:
                    cnt[o] += 1
            once = all(cnt[d] + cnt[tuple(-c for c in d)] == 1 for d in dirs)
            ok = once and not bad
            detail = 'offsets %r' % (offs,)
        except Exception as e:   # noqa
            detail = 'offset list not literal: %s' % e
    pr.add(Ground('OF: for every neighbour direction d exactly one of d, -d is among the listed offsets (27-case enumeration)',
                  ok, detail=detail, kind='aux'))


def task_coverage(pr, repo):
    ex = Executor(repo)
    calls = []
    ex.contracts[BM + '._find_bonds_for_atoms'] = lambda ex, ctx, fi, a, k, so: calls.append((a[0], a[1]))

    def thunk(ex, ctx):
        bm = record('bm', repo.cls(BM))
        atoms = [atom(repo, 'p%d' % i, 'C') for i in range(4)]
        del calls[:]
        ex.call_function(repo.func(BM + '.find_bonds_for_atoms'), [atoms], self_obj=bm)
        pairs = [(atoms[i], atoms[j]) for i in range(4) for j in range(i + 1, 4)]
        ok1 = len(calls) == 6 and all(any((x is p and y is q) or (x is q and y is p) for x, y in calls) for p, q in pairs)
        del calls[:]
        l1, l2 = atoms[:2], [atom(repo, 'q%d' % i, 'C') for i in range(3)]
        ex.call_function(repo.func(BM + '.find_bonds_for_atoms_disjoint'), [l1, l2], self_obj=bm)
        ok2 = len(calls) == 6 and all(any(x is p and y is q for x, y in calls) for p in l1 for q in l2)
        ctx.oblige('CV: find_bonds_for_atoms examines each unordered pair of a 4-list exactly once; '
                   'find_bonds_for_atoms_disjoint each cross pair of a 2x3 product exactly once', ok1 and ok2, kind='aux')
    pr.explore(ex, thunk, 'coverage')


def task_group(pr, repo):
    ex = Executor(repo)
    G = repo.cls('propka.group.Group')
    pr.under_contract(repo.func('propka.group.Group.setup'))
    pr.under_contract(repo.func('propka.group.Group.calculate_total_pka'))
    A = repo.cls('propka.atom.Atom')

    def thunk(ex, ctx):
        bridge = B('bridge')
        at = record('sg', A, cysteine_bridge=bridge, res_name='CYS', name='SG')
        params = record('P', None, charge={'CYS': -1.0}, ions={}, model_pkas={'CYS': 9.0}, custom_model_pkas={})
        g = record('g', G, atom=at, type='CYS', residue_type='CYS', parameters=params, model_pka_set=False,
                   model_pka=0.0, charge=0, energy_volume='real', energy_local='real', pka_value='real',
                   determinants={'sidechain': [], 'backbone': [], 'coulomb': []})
        g.attrs['setup_atoms'] = Builtin('setup_atoms', lambda ex, *a, **k: None)
        ex.call_function(repo.func('propka.group.Group.setup'), [], self_obj=g)
        ctx.oblige('GS: Group.setup: cysteine in a disulfide bridge is not titratable (and an unbridged one is)',
                   g.attrs['titratable'] == Not(bridge))
        ex.call_function(repo.func('propka.group.Group.calculate_total_pka'), [], self_obj=g)
        from pyvc.values import real_val
        ctx.oblige('GS: calculate_total_pka: bridged cysteine is reported as 99.99',
                   Implies(bridge, g.attrs['pka_value'] == Sym(real_val(99.99))))
    pr.explore(ex, thunk, 'Group.setup / calculate_total_pka for CYS')


def task_charge_sums(pr, repo):
    # 'a bridged cysteine is not titrated' - also not in the charge curves: they sum over the titratable groups only (C09-CC)
    from . import C09
    C09.task_container_charge(pr, repo)


def run(pr, repo):
    from . import C14
    # 'a bridged cysteine is not titrated' also under a titrate-only list that names it
    tasks = [(task_check_distance, ()), (task_cell_lemma, ()), (task_offsets, ()), (task_coverage, ()), (task_group, ()),
             (C14.task_init_group, ()), (task_plumbing, ()), (task_charge_sums, ())]
    pairs = [('S', 'S', False), ('H', 'C', True)]
    if pr.tier == 'thorough':
        pairs += [('C', 'C', False), ('S', 'S', True), ('H', 'H', False), ('F', 'F', False), ('C', 'S', False), ('N', 'H', True)]
    for e1, e2, prior in pairs:
        for order in (0, 1):
            if pr.tier == 'quick' and prior and order == 1:
                continue
            tasks.insert(0, (task_boxes_pair, (e1, e2, prior, (order,))))
    pr.parallel(tasks)
    # atoms are mutable: the distance and the criterion are recomputed from the present coordinates at every call
    from . import frames
    frames.query_is_pure(pr, repo, ['propka.calculations.squared_distance', 'propka.calculations.distance',
                                    'propka.bonds.BondMaker.check_distance', 'propka.bonds.BondMaker.has_bond'],
                         'distance and bond criterion')
    pr.assumptions += ['residue identity = label as in the code (chain + number, no insertion code): inputs with insertion-code twins of one residue type are outside what is shown here (known finding D9, DESIGN 10.5)',
                       'A-REAL: floor(x/box_size) over the reals (margin 0.01 A >> rounding)',
                       'n > 2 atoms: each pair is treated as in the two-atom proof because find_bonds_for_atoms / '
                       '_disjoint examine every pair of a box / of two boxes (CV) and the offsets cover every neighbour '
                       'direction once (OF); this pair-independence step is argued, not machine-checked']
    bounded(pr)


def bounded(pr):
    """Bounded: real bonded_atoms vs O(n^2) application of the real check_distance."""
    from . import native
    import random
    import importlib
    bonds = importlib.import_module('propka.bonds')
    atomm = importlib.import_module('propka.atom')
    rng = random.Random(pr.seed)
    ev, viol, classes = 0, [], set()

    def mk(el, p):
        a = atomm.Atom()
        a.element, a.name = el, el
        a.x, a.y, a.z = p
        return a
    n_sets = 40 if pr.tier == 'quick' else 600
    for k in range(n_sets):
        n = rng.randint(2, 30)
        base = [rng.choice((-500.0, -2.51, 0.0, 2.5, 5.02, 1000.0)) for _ in range(3)]
        atoms = [mk(rng.choice(['C', 'C', 'N', 'O', 'S', 'S', 'H']),
                    [round(base[i] + rng.uniform(-4, 4), 3) for i in range(3)]) for _ in range(n)]
        bm = bonds.BondMaker()
        bm.find_bonds_for_atoms_using_boxes(atoms)
        ref = bonds.BondMaker()

        def indep_rule(a, b):
            # the pairwise criterion written out (the contract of check_distance, C11-CD), from the CURRENT coordinates
            sq = (a.x - b.x) ** 2 + (a.y - b.y) ** 2 + (a.z - b.z) ** 2
            hc = [a.element, b.element].count('H')
            if sq > ref.max_sq_distance:
                return False
            if hc == 1:
                return sq < ref.h_dist_squared
            key = '%s-%s' % (a.element, b.element)
            if hc == 0 and sq < ref.default_dist_squared:
                return True
            return key in ref.distances_squared and sq < ref.distances_squared[key]
        if k % 4 == 0:
            # the SAME atom objects, moved (contracted towards the first atom) and searched again
            for a in atoms[1:]:
                a.x, a.y, a.z = [round(atoms[0].__dict__[c] + 0.8 * (a.__dict__[c] - atoms[0].__dict__[c]), 3) for c in 'xyz']
            for a in atoms:
                a.bonded_atoms = []
                a.cysteine_bridge = False
            bonds.BondMaker().find_bonds_for_atoms_using_boxes(atoms)
        for i in range(n):
            for j in range(i + 1, n):
                ev += 1
                rule = indep_rule(atoms[i], atoms[j])
                if ref.check_distance(atoms[i], atoms[j]) != rule and len(viol) < 3:
                    viol.append({'what': 'check_distance(%s%r, %s%r) = %r, pairwise criterion on the current coordinates: %r' % (
                        atoms[i].element, (atoms[i].x, atoms[i].y, atoms[i].z), atoms[j].element,
                        (atoms[j].x, atoms[j].y, atoms[j].z), not rule, rule), 'replay': None})
                got = (atoms[j] in atoms[i].bonded_atoms, atoms[i] in atoms[j].bonded_atoms)
                classes.add((rule, atoms[i].element, atoms[j].element))
                if got != (rule, rule) and len(viol) < 3:
                    viol.append({'what': 'atoms %s%r %s%r: rule %r, found %r' % (
                        atoms[i].element, (atoms[i].x, atoms[i].y, atoms[i].z), atoms[j].element,
                        (atoms[j].x, atoms[j].y, atoms[j].z), rule, got),
                        'replay': REPLAY_PAIR % {'placements': [([atoms[i].x, atoms[i].y, atoms[i].z],
                                                                 [atoms[j].x, atoms[j].y, atoms[j].z])],
                                                 'e1': atoms[i].element, 'e2': atoms[j].element}})
    pr.bounded.append({'name': 'C11-monitor: box search vs all-pairs rule on random atom clouds', 'evaluations': ev,
                       'distinct_nontrivial': len(classes), 'bound': '%d clouds of 2-30 atoms' % n_sets,
                       'rule': 'seeded random clouds near cell faces / negative coordinates; distinct = (rule outcome, element pair)',
                       'violations': viol})
