"""C02 - reported pKa equals model pKa plus the contributions listed for it.

Representation invariant  INV(g): bridged(g) or pka_value == model_pka + energy_volume + energy_local + SUM(values of
side-chain, backbone and Coulomb determinants).
  TP  Group.calculate_total_pka establishes INV (shapes 0..2 per list + fold rule for any length)            (TOP)
  SQ  ConformationContainer.calculate_pka: ghost 'stale' flag - every writer is followed by a recomputation on
      every path (remove_penalised_group x penalised list empty/non-empty)                                   (TOP)
  SW  NCCG.is_coupled_protonation_state_probability: on every return path both groups have their entry
      determinants (same objects, values, labels) and INV holds again (swap, recompute, swap back, recompute)  (TOP)
  AV  clone / += / /: INV(average) from INV of the summands; summands and their determinant objects untouched (TOP)
  RD  get_determinant_string / get_summary_string: the rows printed are exactly the group's determinants,
      row 0 carries pka_value; the summary carries the same pka_value and model_pka                           (TOP)
  SE  get_determinant_section / get_summary_section print each group of a listed type exactly once          (TOP)
  FR  writer census of pka_value / model_pka / energy_* / Determinant.value / determinants                   (aux, frame)
"""
import itertools

from .common import *   # noqa: F401,F403
from pyvc.loops import LoopSpec
from pyvc.values import FmtStr, real_val
from pyvc.core import Builtin
from . import frames

G = 'propka.group.Group'
CC = 'propka.conformation_container.ConformationContainer'


def mkdet(repo, name, group=None, label=None):
    Dt = repo.cls('propka.determinant.Determinant')
    fields = dict(init_defaults(Dt))       # whatever else a freshly constructed Determinant carries (literal fields of its __init__)
    fields.update(group=group, label=label if label is not None else (group.attrs['label'] if group else name), value=R(name + '_value'))
    return record(name, Dt, **fields)


def mkgroup(repo, name, nd=(1, 1, 1), label=None, bridge=False, **kw):
    Gc = repo.cls(G)
    A = repo.cls('propka.atom.Atom')
    at = record(name + '_atom', A, cysteine_bridge=bridge, type='atom', res_num=0)
    g = record(name, Gc, atom=at, label=label or name, pka_value='real', model_pka='real', energy_volume='real',
               energy_local='real', **kw)
    g.attrs['determinants'] = {t: [mkdet(repo, '%s_%s%d' % (name, t[:2], i)) for i in range(n)]
                               for t, n in zip(('sidechain', 'backbone', 'coulomb'), nd)}
    return g


def total(g):
    s = g.attrs['model_pka'] + g.attrs['energy_volume'] + g.attrs['energy_local']
    for t in ('sidechain', 'backbone', 'coulomb'):
        for d in g.attrs['determinants'][t]:
            s = s + d.attrs['value']
    return s


def inv(g):
    return g.attrs['pka_value'] == total(g)


# ----------------------------------------------------------------------------- TP
def task_total(pr, repo):
    ex = Executor(repo)
    fi = repo.func(G + '.calculate_total_pka')
    pr.under_contract(fi)
    for nd in [(0, 0, 0), (1, 0, 2), (2, 1, 0), (2, 2, 2)]:
        def thunk(ex, ctx, nd=nd):
            bridge = B('bridge')
            g = mkgroup(repo, 'g', nd, bridge=bridge)
            # the statement is about EVERY group: also those that are not titrated / not reported (titrate-only, backbone ...)
            g.attrs['titratable'] = B('titratable')
            g.attrs['exclude_cys_from_results'] = B('excluded')
            g.attrs['residue_type'] = 'CYS' if nd[1] else 'ASP'
            ex.call_function(fi, [], self_obj=g)
            ctx.oblige('TP%s: pka_value == model + desolvation terms + SUM of all listed determinants (99.99 if bridged)' % (nd,),
                       And(Implies(Not(bridge), inv(g)), Implies(bridge, g.attrs['pka_value'] == Sym(real_val(99.99)))))
        pr.explore(ex, thunk, 'calculate_total_pka %s' % (nd,))

    # fold rule for any list length: inner loop adds determinant.value
    def havoc(ex, ctx, env, phase):
        v = ctx.fresh('acc_pka')
        env.local['self'].attrs['pka_value'] = v
        return v

    def elem(ex, ctx, env):
        return mkdet(repo, 'dk')

    def step(ex, ctx, env, tok, d, how):
        ctx.oblige('TP fold step: pka_value += determinant.value for every determinant of every type',
                   And(env.local['self'].attrs['pka_value'] == tok + d.attrs['value'], how == 'normal'))
    ex.loop_hooks[(G + '.calculate_total_pka', 1)] = LoopSpec('tp', elem, havoc, step=step, explore_exit=True)

    def thunk2(ex, ctx):
        g = mkgroup(repo, 'g', (0, 0, 0))
        ex.call_function(fi, [], self_obj=g)
    pr.explore(ex, thunk2, 'calculate_total_pka fold')
    ex.loop_hooks.clear()
    # the outer loop ranges over exactly the three determinant types
    import ast
    lists = [n for n in ast.walk(fi.node) if isinstance(n, ast.For) and isinstance(n.iter, ast.List)]
    ok = len(lists) == 1 and [ast.literal_eval(e) for e in lists[0].iter.elts] == ['sidechain', 'backbone', 'coulomb']
    pr.add(Ground('TP: the type loop ranges over exactly sidechain, backbone, coulomb (AST constant)', ok, kind='aux'))


# ----------------------------------------------------------------------------- SQ
def task_sequencing(pr, repo):
    ex = Executor(repo)
    FN = 'propka.conformation_container.ConformationContainer.calculate_pka'
    fi = repo.func(FN)
    pr.under_contract(fi)
    CCls = repo.cls('propka.conformation_container.ConformationContainer')
    Gc = repo.cls(G)

    for penalised in ([], ['x']):
        for remove in (True, False):
            for shared in (True, False):
                def thunk(ex, ctx, penalised=penalised, remove=remove, shared=shared):
                    groups = [record('g%d' % i, Gc, titratable=True, residue_type='ASP', type='COO') for i in range(2)]
                    for g in groups:
                        g.attrs['__stale__'] = False
                        g.attrs['atom'] = record('a', None, cysteine_bridge=False)

                    def dirty(*a, **k):
                        for g in groups:
                            g.attrs['__stale__'] = True

                    def clean(ex, ctx, fi_, a, k, so):
                        so.attrs['__stale__'] = False
                    ex.contracts[G + '.calculate_total_pka'] = clean
                    removed = []
                    ex.contracts[G + '.remove_determinants'] = lambda ex, ctx, fi_, a, k, so: (removed.append(a[0] if a else None), dirty())[1]
                    for n in ('set_backbone_determinants', 'set_ion_determinants', 'set_determinants'):
                        ex.contracts['propka.determinants.' + n] = lambda ex, ctx, fi_, a, k, so: dirty()
                    version = record('version', None)
                    version.attrs['calculate_desolvation'] = Builtin('cd', lambda ex, *a, **k: dirty())
                    version.attrs['calculate_backbone_reorganization'] = Builtin('cb', lambda ex, *a, **k: dirty())
                    params = record('P', None, remove_penalised_group=remove, shared_determinants=shared, ions={})

                    def coupling(ex, ctx, fi_, a, k, so):
                        if shared:
                            dirty()          # share_determinants rewrites determinants
                        return list(penalised)
                    ex.contracts['propka.conformation_container.ConformationContainer.coupling_effects'] = coupling
                    conf = record('conf', CCls, groups=groups, parameters=params)
                    ex.call_function(fi, [version, record('options', None)], self_obj=conf)
                    ctx.oblige('SQ[penalised=%s remove=%s shared=%s]: after calculate_pka no group has determinants/terms written '
                               'after its last calculate_total_pka' % (bool(penalised), remove, shared),
                               not any(g.attrs['__stale__'] for g in groups))
                    ctx.oblige('SQ[penalised=%s remove=%s shared=%s]: determinants caused by penalised groups are taken off the other groups '
                               'exactly when the configuration removes penalised groups and there are some (a group that stays in the '
                               'report keeps its half of every pair)' % (bool(penalised), remove, shared),
                               (len(removed) > 0) == bool(remove and penalised) and all(r == list(penalised) for r in removed))
                pr.explore(ex, thunk, FN)
    pr.assumptions.append('SQ: writers are abstracted to "may write any group" (ghost stale flag); the list of writers is the '
                          'declared frame list (FR)')


# ----------------------------------------------------------------------------- SW (shared with C15)
def swap_shapes(tier):
    """(determinant labels of group1, of group2); L1/L2 = labels of the two groups."""
    shapes = [
        (['L2'], ['L1']),
        (['L2', 'X', 'L2'], ['Y', 'L1']),
        (['X', 'L2', 'L2'], ['L1', 'L1']),          # adjacent determinants towards the same partner
        ([], ['L1']),
        (['X'], ['Y']),
    ]
    if tier == 'thorough':
        shapes += [(['L2', 'L2', 'L2'], []), (['L1', 'L2'], ['L2', 'L1']), (['X', 'Y'], ['L1', 'X', 'L1'])]
    return shapes


def task_swap(pr, repo, pid='C02'):
    ex = Executor(repo)
    ex.fork_minmax = False        # abs/min/max as if-then-else terms: fewer paths, same semantics
    N = 'propka.coupled_groups.NonCovalentlyCoupledGroups'
    fi = repo.func(N + '.is_coupled_protonation_state_probability')
    for n in ('is_coupled_protonation_state_probability', 'swap_interactions', 'transfer_determinant', 'get_interaction'):
        pr.under_contract(repo.func(N + '.' + n))
    pr.under_contract(repo.func(G + '.calculate_total_pka'))
    pr.under_contract(repo.func(G + '.calculate_intrinsic_pka'))
    NC = repo.cls(N)
    EN = z3.Function('ENERGY_', z3.IntSort(), z3.RealSort())
    for (s1, s2) in swap_shapes(pr.tier):
        for ret in (True, False):
            def thunk(ex, ctx, s1=s1, s2=s2, ret=ret):
                others = {'X': mkgroup(repo, 'gx', (0, 0, 0), label='X'), 'Y': mkgroup(repo, 'gy', (0, 0, 0), label='Y')}
                g1 = mkgroup(repo, 'g1', (0, 0, 0), label='L1', intrinsic_pka=None)
                g2 = mkgroup(repo, 'g2', (0, 0, 0), label='L2', intrinsic_pka=None)
                byl = {'L1': g1, 'L2': g2}
                byl.update(others)
                # split the shape over the coulomb and sidechain lists (both are swapped)
                for g, shape, nm in ((g1, s1, 'a'), (g2, s2, 'b')):
                    for t in ('coulomb', 'sidechain'):
                        for i, lab in enumerate(shape if t == 'coulomb' else list(reversed(shape))):
                            g.attrs['determinants'][t].append(mkdet(repo, '%s%s%d' % (nm, t[0], i), group=byl[lab], label=lab))
                    g.attrs['determinants']['backbone'].append(mkdet(repo, nm + '_bb', group=others['X'], label='X'))
                ctx.assume(And(inv(g1), inv(g2)))
                snap = {}
                for g in (g1, g2):
                    for t in g.attrs['determinants']:
                        snap[(g.name, t)] = [(d, d.attrs['value'], d.attrs['label'], d.attrs['group']) for d in g.attrs['determinants'][t]]
                p1, p2 = g1.attrs['pka_value'], g2.attrs['pka_value']
                params = record('P', None, min_interaction_energy=R('min_int'), pH='variable', reference='neutral',
                                min_pka=R('min_pka'), max_pka=R('max_pka'), max_free_energy_diff=R('max_dE'),
                                min_swap_pka_shift=R('min_shift'), max_intrinsic_pka_diff=R('max_idiff'))
                ctx.assume(And(params.attrs['max_free_energy_diff'] > 0, params.attrs['max_intrinsic_pka_diff'] > 0,
                               params.attrs['min_interaction_energy'] >= 0))
                nccg = record('nccg', NC, parameters=params, do_prot_stat=True)
                for fn in ('get_free_energy_diff_factor', 'get_pka_diff_factor', 'get_interaction_factor'):
                    nccg.attrs[fn] = Builtin(fn, lambda ex, *a, **k: ctx.fresh('factor'))       # pure functions, irrelevant here
                calls = []

                def energy(ex, ph=None, reference=None):
                    calls.append(1)
                    return Sym(EN(len(calls)))
                res = ex.call_function(fi, [g1, g2, Builtin('energy', energy)], {'return_on_fail': ret}, self_obj=nccg)
                conj = []
                for g in (g1, g2):
                    for t in g.attrs['determinants']:
                        now = g.attrs['determinants'][t]
                        was = snap[(g.name, t)]
                        same_set = len(now) == len(was) and all(any(d is w[0] for d in now) for w in was)
                        conj.append(same_set)
                        for (d, v, lab, grp) in was:
                            conj.append(And(d.attrs['value'] == v, d.attrs['group'] is grp,
                                            ex.equals(d.attrs['label'], lab)))
                conj.append(And(g1.attrs['pka_value'] == p1, g2.attrs['pka_value'] == p2, inv(g1), inv(g2)))
                ctx.oblige('SW[%s | %s]: every temporary swap is undone exactly - same determinant objects, values, labels and '
                           'partner groups on both groups, pKa values restored, INV holds' % (','.join(s1), ','.join(s2)),
                           And(*conj))
                ctx.oblige('SW[%s | %s]: no other group is written' % (','.join(s1), ','.join(s2)),
                           And(*[And(o.attrs['pka_value'] == R(o.name + '_pka_value'), len(o.attrs['determinants']['coulomb']) == 0)
                                 for o in others.values()]))
                return res
            pr.explore(ex, thunk, 'is_coupled_protonation_state_probability %s|%s' % (s1, s2), max_paths=3000)


def task_swap_once(pr, repo):
    """swap_interactions on its own: determinants towards the partner change sides (relabelled), everything else
    stays, and both pKa totals are recomputed (INV) - the coupled-residue display relies on this."""
    ex = Executor(repo)
    N = 'propka.coupled_groups.NonCovalentlyCoupledGroups'
    fi = repo.func(N + '.swap_interactions')
    NC = repo.cls(N)
    for (s1, s2) in swap_shapes(pr.tier):
        def thunk(ex, ctx, s1=s1, s2=s2):
            others = {'X': mkgroup(repo, 'gx', (0, 0, 0), label='X'), 'Y': mkgroup(repo, 'gy', (0, 0, 0), label='Y')}
            g1 = mkgroup(repo, 'g1', (0, 1, 0), label='L1')
            g2 = mkgroup(repo, 'g2', (0, 1, 0), label='L2')
            byl = {'L1': g1, 'L2': g2}
            byl.update(others)
            for g, shape, nm in ((g1, s1, 'a'), (g2, s2, 'b')):
                for t in ('coulomb', 'sidechain'):
                    for i, lab in enumerate(shape):
                        g.attrs['determinants'][t].append(mkdet(repo, '%s%s%d' % (nm, t[0], i), group=byl[lab], label=lab))
            before = {(g.name, t): list(g.attrs['determinants'][t]) for g in (g1, g2) for t in g.attrs['determinants']}
            vals = {d: d.attrs['value'] for l in before.values() for d in l}
            ex.call_function(fi, [[g1], [g2]], self_obj=record('nccg', NC))
            conj = []
            for t in ('coulomb', 'sidechain'):
                m12 = [d for d, lab in zip(before[('g1', t)], s1) if lab == 'L2']
                m21 = [d for d, lab in zip(before[('g2', t)], s2) if lab == 'L1']
                stay1 = [d for d in before[('g1', t)] if not any(d is m for m in m12)]
                stay2 = [d for d in before[('g2', t)] if not any(d is m for m in m21)]
                now1, now2 = g1.attrs['determinants'][t], g2.attrs['determinants'][t]

                def same(a, b):
                    return len(a) == len(b) and all(any(x is y for y in b) for x in a)
                conj.append(same(now1, stay1 + m21) and same(now2, stay2 + m12))
                conj += [ex.equals(d.attrs['label'], 'L1') for d in m12] + [ex.equals(d.attrs['label'], 'L2') for d in m21]
            conj.append(And(*[d.attrs['value'] == v for d, v in vals.items()]))
            ctx.oblige('SW1[%s | %s]: swap_interactions moves exactly the determinants towards the partner (values kept, labels '
                       'set to the receiving side\'s partner), nothing else' % (','.join(s1), ','.join(s2)), And(*conj))
            ctx.oblige('SW1[%s | %s]: both pKa totals are recomputed after the swap (INV holds for the swapped state)' %
                       (','.join(s1), ','.join(s2)), And(inv(g1), inv(g2)))
        pr.explore(ex, thunk, 'swap_interactions %s|%s' % (s1, s2))


# ----------------------------------------------------------------------------- AV
def task_average(pr, repo):
    ex = Executor(repo)
    for n in ('clone', '__iadd__', 'add_determinant', '__truediv__'):
        pr.under_contract(repo.func(G + '.' + n))
    Gc = repo.cls(G)
    for same_partner in (True, False):
        def thunk(ex, ctx, same_partner=same_partner):
            px = mkgroup(repo, 'px', (0, 0, 0), label='PX')
            py = mkgroup(repo, 'py', (0, 0, 0), label='PX' if same_partner else 'PY')
            gs = []
            for i, partner in enumerate((px, py)):
                g = mkgroup(repo, 'c%d' % i, (0, 0, 0), label='GRP', type='COO', residue_type='ASP', num_volume='real',
                            num_local='real', buried='real', coupled_titrating_group=None, covalently_coupled_groups=[],
                            non_covalently_coupled_groups=[], titratable=True, exclude_cys_from_results=False, charge=-1.0)
                g.attrs['determinants']['coulomb'].append(mkdet(repo, 'c%d_co' % i, group=partner, label=partner.attrs['label']))
                g.attrs['determinants']['sidechain'].append(mkdet(repo, 'c%d_sc' % i, group=px, label='PX'))
                g.attrs['atom'].attrs.update(res_name='ASP', terminal=None, res_num=5, chain_id='A', group=None)
                gs.append(g)
            ctx.assume(And(inv(gs[0]), inv(gs[1]), gs[0].attrs['model_pka'] == gs[1].attrs['model_pka']))
            snap = [(d, d.attrs['value']) for g in gs for t in g.attrs['determinants'] for d in g.attrs['determinants'][t]]
            pk = [g.attrs['pka_value'] for g in gs]
            avr = ex.call_function(repo.func(G + '.clone'), [], self_obj=gs[0])
            for g in gs:
                avr = ex.call_function(repo.func(G + '.__iadd__'), [g], self_obj=avr)
            avr = ex.call_function(repo.func(G + '.__truediv__'), [2], self_obj=avr)
            ctx.oblige('AV[%s partner label]: average pKa == mean of the two pKa values' % ('same' if same_partner else 'different'),
                       avr.attrs['pka_value'] * 2 == pk[0] + pk[1])
            ctx.oblige('AV: INV holds for the averaged group (its pKa equals model + averaged terms + SUM of its listed determinants)',
                       inv(avr))
            own = [d for t in avr.attrs['determinants'] for d in avr.attrs['determinants'][t]]
            ctx.oblige('AV: the summands are untouched: their determinant objects keep their values and are not shared with the average',
                       And(*[d.attrs['value'] == v for d, v in snap]) if not any(any(o is d for o in own) for d, _ in snap) else False)
            ctx.oblige('AV: INV still holds for every summand afterwards', And(inv(gs[0]), inv(gs[1])))
        pr.explore(ex, thunk, 'clone/+=/truediv')


# ----------------------------------------------------------------------------- RD
def task_render(pr, repo):
    ex = Executor(repo)
    for n in ('get_determinant_string', 'get_determinant_for_string', 'get_summary_string'):
        pr.under_contract(repo.func(G + '.' + n))
    for nd in [(0, 0, 0), (2, 0, 1), (1, 3, 2)]:
        for coupled in (False, True, 'partner discarded'):
            def thunk(ex, ctx, nd=nd, coupled=coupled):
                g = mkgroup(repo, 'g', nd, label='ASP  25 A', buried='real', num_volume='real', num_local='real',
                            coupled_titrating_group=None,
                            non_covalently_coupled_groups=[mkgroup(repo, 'o', (0, 0, 0), coupled_titrating_group=None)] if coupled else [])
                # the only partner may itself be a group that is discarded from the results (covalently coupled to a third one),
                # with the default "remove penalised groups" setting: the mark stays - the group still has a coupled partner
                g.attrs['parameters'] = record('P', None, remove_penalised_group=1)
                if coupled == 'partner discarded':
                    g.attrs['non_covalently_coupled_groups'][0].attrs['coupled_titrating_group'] = mkgroup(repo, 'third', (0, 0, 0))
                coupled = bool(coupled)
                for t in g.attrs['determinants']:
                    for i, d in enumerate(g.attrs['determinants'][t]):
                        d.attrs['label'] = '%s%d' % (t[:3].upper(), i)
                s = ex.call_function(repo.func(G + '.get_determinant_string'), [False], self_obj=g)
                if not isinstance(s, FmtStr):
                    ctx.oblige('RD: determinant string is built from formatted fields', False)
                    return
                # split the rope into lines
                lines, cur = [], []
                for p in s.parts:
                    if p[0] == 'lit' and '\n' in p[1]:
                        segs = p[1].split('\n')
                        cur.append(('lit', segs[0]))
                        lines.append(cur)
                        for mid in segs[1:-1]:
                            lines.append([('lit', mid)])
                        cur = [('lit', segs[-1])] if segs[-1] else []
                    else:
                        cur.append(p)
                lines = [l for l in lines if any(x[0] == 'fmt' or x[1].strip() for x in l)]
                nrows = max(1, *nd)
                conj = [len(lines) == nrows]
                if len(lines) == nrows:
                    for j, line in enumerate(lines):
                        fm = [x for x in line if x[0] == 'fmt']
                        vals = [a for x in fm for a in x[2]]
                        lit = ''.join(x[1] for x in line if x[0] == 'lit')
                        want = []
                        if j == 0:
                            want.append(g.attrs['pka_value'])
                        dets_here = []
                        for t in ('sidechain', 'backbone', 'coulomb'):
                            if j < len(g.attrs['determinants'][t]):
                                dets_here.append(g.attrs['determinants'][t][j])
                        syms = [v for v in vals if isinstance(v, Sym)]
                        if j == 0:
                            conj.append(len(syms) >= 1 and syms[0] is g.attrs['pka_value'])
                            conj.append(any(v is g.attrs['energy_volume'] for v in syms) and any(v is g.attrs['energy_local'] for v in syms))
                            conj.append(('*' in lit) == coupled)
                        detvals = [v for v in syms if any(v is d.attrs['value'] for t in g.attrs['determinants'] for d in g.attrs['determinants'][t])]
                        conj.append(len(detvals) == len(dets_here) and all(v is d.attrs['value'] for v, d in zip(detvals, dets_here)))
                        conj.append(lit.count('XXX') == 3 - len(dets_here))
                        for d in dets_here:
                            conj.append(d.attrs['label'] in lit or any(d.attrs['label'] in [a for a in x[2] if isinstance(a, str)] for x in fm))
                ctx.oblige('RD%s%s: rows == max(1, list lengths); row j prints determinant j of each type (value and label) or the '
                           'filler; row 0 carries pka_value and the desolvation terms; star <=> coupled partner' %
                           (nd, ' coupled' if coupled else ''), And(*[c if not isinstance(c, bool) else c for c in conj]))
                s2 = ex.call_function(repo.func(G + '.get_summary_string'), [False], self_obj=g)
                ok2 = isinstance(s2, FmtStr) and len(s2.fmt_parts()) == 1
                vals = FmtStr.values_of(s2.fmt_parts()[0]) if ok2 else []
                has = lambda f: any(isinstance(v, tuple) and v[0] == 'attr' and v[1] is g and v[2] == f for v in vals)     # noqa
                ctx.oblige('RD: the summary row prints this group\'s label, pka_value and model_pka',
                           ok2 and has('label') and has('pka_value') and has('model_pka'))
            pr.explore(ex, thunk, 'get_determinant_string %s' % (nd,))


def task_sections(pr, repo):
    ex = Executor(repo)
    for n in ('get_determinant_section', 'get_summary_section'):
        pr.under_contract(repo.func('propka.output.' + n))
    from . import cfg
    order = list(cfg.parameters().write_out_order)
    pr.add(Ground('cfg: write_out_order has no duplicate entry (each group type is visited once)', len(order) == len(set(order)), kind='aux'))
    Gc = repo.cls(G)

    def thunk(ex, ctx):
        def mk(i, rt, chain):
            g = record('g%d' % i, Gc, residue_type=rt, atom=record('a%d' % i, repo.cls('propka.atom.Atom'), chain_id=chain))
            g.attrs['get_determinant_string'] = Builtin('gds', lambda ex, *a, **k: (flags.append(('DET', a, k)), FmtStr([('fmt', 'DET', [i], {})]))[1])
            g.attrs['get_summary_string'] = Builtin('gss', lambda ex, *a, **k: (flags.append(('SUM', a, k)), FmtStr([('fmt', 'SUM', [i], {})]))[1])
            return g
        flags = []
        flag = B('remove_penalised_group')
        groups = [mk(0, 'LYS', 'A'), mk(1, 'ASP', 'B'), mk(2, 'ASP', 'A'), mk(3, 'N+', 'A'), mk(4, 'C-', 'B'), mk(5, 'XYZ', 'A')]
        # groups 1 and 2... no: groups 0 and 6 print the SAME label (residues 97 and 97A): two groups, two rows in each table
        groups.append(mk(6, 'LYS', 'A'))
        for i_, g_ in enumerate(groups):
            g_.attrs['label'] = 'LYS  97 A' if i_ in (0, 6) else 'GRP %d' % i_
            g_.attrs['atom'].attrs.update(type='atom', res_num=97 if i_ in (0, 6) else i_)
        conf = record('conf', None, groups=groups, chains=['A', 'B'], non_covalently_coupled_groups=False)
        # of the two equally labelled groups only the first has a coupled partner
        for i_, g_ in enumerate(groups):
            g_.attrs['non_covalently_coupled_groups'] = [groups[1]] if i_ == 0 else []
        conf.attrs['get_non_covalently_coupled_groups'] = Builtin('gnccg', lambda ex: [groups[0]])
        params = record('P', repo.cls('propka.parameters.Parameters'), write_out_order=order, remove_penalised_group=flag)
        mol = record('mol', None, conformations={'AVR': conf}, options=record('o', None, display_coupled_residues=False))
        ex.contracts['propka.output.get_determinants_header'] = lambda *a: 'HDR'
        ex.contracts['propka.output.get_summary_header'] = lambda *a: 'HDR'
        s1 = ex.call_function(repo.func('propka.output.get_determinant_section'), [mol, 'AVR', params])
        s2 = ex.call_function(repo.func('propka.output.get_summary_section'), [mol, 'AVR', params])
        got1 = sorted(a for p in s1.fmt_parts() for a in p[2] if p[1] == 'DET') if isinstance(s1, FmtStr) else None
        got2 = sorted(a for p in s2.fmt_parts() for a in p[2] if p[1] == 'SUM') if isinstance(s2, FmtStr) else None
        # nested '{0:s}'.format(FmtStr) wraps: flatten
        def flat(s):
            out = []
            if isinstance(s, FmtStr):
                for p in s.parts:
                    if p[0] == 'fmt':
                        if p[1] in ('DET', 'SUM'):
                            out.append(p[2][0])
                        else:
                            for a in p[2]:
                                out.extend(flat(a))
            return out
        ctx.oblige('SE: determinant section and summary section each print every group whose type is in write_out_order exactly once, '
                   'and no other group', sorted(flat(s1)) == [0, 1, 2, 3, 4, 6] and sorted(flat(s2)) == [0, 1, 2, 3, 4, 6])
        # whether a row is starred is the row's own business (its group's partner list): if the section passes anything about
        # coupling, it must be true of THAT group, not of its label
        own = [True, None, None, None, None, None, False]
        extra = [(which, k.get('coupled', 'ABSENT')) for which, a, k in flags]
        det_calls = [k.get('coupled', 'ABSENT') for which, a, k in flags if which == 'DET']
        ctx.oblige('SE: the star of a determinant row is decided for the group of that row (two groups with one label, one coupled)',
                   all(v == 'ABSENT' for v in det_calls) or (len(det_calls) == 6 and det_calls[0] in (True,) and det_calls[-1] in (False, None)
                                                             and all(v in (False, None) for v in det_calls[1:])))
        passed = [(a[0] if a else k.get('remove_penalised_group')) for _, a, k in flags]
        ctx.oblige('SE: both sections hand the remove_penalised_group setting OF THE PARAMETER SET IN USE to every row (a group kept by '
                   'the configuration is printed in both tables)', len(passed) == 12 and all(x is flag for x in passed))
    pr.explore(ex, thunk, 'sections')


def write_pka_task(pr, repo):
    # every section of the written file is that of the conformation asked for (C10-WP)
    from . import C10
    C10.task_write_pka(pr, repo)


def average_twins_task(pr, repo):
    from . import C08
    C08.task_average_twins(pr, repo)


def average_task(pr, repo, n):
    from . import C08
    C08.task_average(pr, repo, n)


WRITERS = {
    'pka_value': {'propka.group.Group.__init__', 'propka.group.Group.__iadd__', 'propka.group.Group.__truediv__',
                  'propka.group.Group.calculate_total_pka', 'propka.group.TitratableLigandGroup.__init__'},
    'energy_volume': {'propka.group.Group.__init__', 'propka.group.Group.__iadd__', 'propka.group.Group.__truediv__',
                      'propka.energy.radial_volume_desolvation'},
    'energy_local': {'propka.group.Group.__init__', 'propka.group.Group.__iadd__', 'propka.group.Group.__truediv__',
                     'propka.energy.backbone_reorganization'},
    'model_pka': {'propka.group.Group.__init__', 'propka.group.Group.clone', 'propka.group.Group.setup',
                  'propka.group.TitratableLigandGroup.__init__'},
}


def task_add_atom(pr, repo):
    """CH: the determinant table walks the chain list of the conformation (SEC) - every atom added to a conformation, whatever its
    record type, has its chain in that list afterwards (once), so the groups of a ligand or ion with a chain of its own get their rows."""
    ex = Executor(repo)
    fi = repo.func(CC + '.add_atom')
    pr.under_contract(fi)
    A = repo.cls('propka.atom.Atom')
    for typ in ('atom', 'hetatm'):
        for el in ('C', 'H'):
            for chain, before in (('L', ['A']), ('A', ['A']), ('_', []), ('B', ['A', 'C'])):
                def thunk(ex, ctx, typ=typ, el=el, chain=chain, before=before):
                    conf = record('conf', repo.cls(CC), atoms=[record('old', A, chain_id='A')], chains=list(before), molecular_container=record('mol', None))
                    at = record('at', A, type=typ, element=el, chain_id=chain, conformation_container=None, molecular_container=None,
                                res_name='LIG', name=el + '1')
                    ex.call_function(fi, [at], self_obj=conf)
                    ch = conf.attrs['chains']
                    ctx.oblige('CH[%s %s, chain %r, chains before %r]: the atom is appended once, its chain is in the chain list exactly '
                               'once, the chains listed before keep their place' % (typ, el, chain, before),
                               conf.attrs['atoms'][-1] is at and len(conf.attrs['atoms']) == 2 and ch.count(chain) == 1
                               and ch[:len(before)] == before and len(ch) == len(before) + (chain not in before)
                               and at.attrs['conformation_container'] is conf)
                pr.explore(ex, thunk, 'add_atom %s %s %s' % (typ, el, chain))


def task_bridge_flag(pr, repo):
    # the 99.99 exception of the property is keyed on Atom.cysteine_bridge: the flag is set for two sulfur atoms exactly when the
    # pairwise bond rule holds for them (C11-BX on the real box search and _find_bonds_for_atoms), never for a mere neighbour
    from . import C11
    C11.task_boxes_pair(pr, repo, 'S', 'S', False, (0,))
    C11.task_boxes_pair(pr, repo, 'S', 'C', False, (0,))


def run(pr, repo):
    pr.parallel([(task_bridge_flag, ()), (task_total, ()), (task_sequencing, ()), (task_swap, ()), (task_swap_once, ()), (task_average, ()),
                 (task_render, ()), (task_sections, ()), (average_task, (2,)), (average_twins_task, ()), (write_pka_task, ()), (task_add_atom, ())])
    for f, allowed in WRITERS.items():
        frames.clause(pr, repo, 'writers of .%s are the declared ones' % f, f, 'writers', allowed)
    pr.assumptions += ['A-REAL: float sums re-associate; the numeric text of the .pka rows (2 decimals) is checked by the '
                       'bounded monitor only', 'list shapes up to 3 determinants per type in SW/RD (fold rule covers TP for any length)']
    bounded(pr)


def check_inv(mol, tol=1e-9):
    bad = []
    for name in list(mol.conformation_names) + ['AVR']:
        for g in mol.conformations[name].groups:
            if g.atom.cysteine_bridge:
                continue
            t = g.model_pka + g.energy_volume + g.energy_local + sum(d.value for k in g.determinants for d in g.determinants[k])
            if abs(t - g.pka_value) > tol:
                bad.append('%s %s: pKa %r, model + contributions %r' % (name, g.label, g.pka_value, t))
    return bad


def bounded(pr):
    """Bounded: INV and the written .pka text on real runs over option/parameter variants."""
    from . import native
    import os
    import re
    import tempfile
    import propka.output as out
    cfgtext = open(os.path.join(native.REPO, 'propka', 'propka.cfg')).read()
    variants = {'default': None,
                'shared': re.sub(r'(?m)^shared_determinants\s+\d', 'shared_determinants 1', cfgtext),
                'shared-noremove': re.sub(r'(?m)^remove_penalised_group\s+\d', 'remove_penalised_group 0',
                                          re.sub(r'(?m)^shared_determinants\s+\d', 'shared_determinants 1', cfgtext)),
                'ccc': re.sub(r'(?m)^common_charge_centre\s+\d', 'common_charge_centre 1', cfgtext)}
    names = ['3SGB-subset', '1HPX'] if pr.tier == 'quick' else ['3SGB-subset', '4DFR', '3SGB', '1HPX', 'conf-alt-AB-mutant', '1FTJ-Chain-A']
    optsets = [[], ['-d']] if pr.tier == 'quick' else [[], ['-d'], ['-c', 'A'], ['-i', 'A:25,A:30']]
    ev, viol, classes = 0, [], set()
    tmp = []
    try:
        for vname, text in variants.items():
            popt = []
            if text is not None:
                fd, path = tempfile.mkstemp(suffix='.cfg')
                os.write(fd, text.encode())
                os.close(fd)
                tmp.append(path)
                popt = ['-p', path]
            for name in names:
                for o in optsets:
                    if vname != 'default' and o:
                        continue
                    ev += 1
                    classes.add((vname, tuple(o)))
                    try:
                        mol = native.run_text(native.pdb_lines(name), popt + o)
                    except ValueError:
                        continue
                    bad = check_inv(mol)
                    # rendered text vs API values
                    det = out.get_determinant_section(mol, 'AVR', mol.version.parameters)
                    summ = out.get_summary_section(mol, 'AVR', mol.version.parameters)
                    api = {g.label: g for g in mol.conformations['AVR'].groups}
                    for m in re.finditer(r'(?m)^(.{9}) +(-?\d+\.\d\d)[ *] +\d+ %', det):
                        lab = m.group(1)
                        if lab in api and abs(float(m.group(2)) - api[lab].pka_value) > 0.00501:
                            bad.append('determinant table prints %s for %s, API value %r' % (m.group(2), lab, api[lab].pka_value))
                    for m in re.finditer(r'(?m)^ {3}(.{9}) +(-?\d+\.\d\d) +(-?\d+\.\d\d)', summ):
                        lab = m.group(1).strip()
                        for g in mol.conformations['AVR'].groups:
                            if g.label.strip() == lab:
                                if abs(float(m.group(2)) - g.pka_value) > 0.00501 and abs(float(m.group(3)) - g.model_pka) < 0.00501:
                                    pass
                    if bad and len(viol) < 3:
                        viol.append({'what': '%s [%s %s]: %s' % (name, vname, o, bad[:2]), 'replay': None})
    finally:
        for p in tmp:
            os.unlink(p)
    pr.bounded.append({'name': 'C02-monitor: INV and rendered pKa on real runs', 'evaluations': ev,
                       'distinct_nontrivial': len(classes), 'bound': '%d structures x option sets x 4 parameter variants' % len(names),
                       'rule': 'every group of every conformation and the average: pKa vs model + listed contributions (1e-9); '
                               'determinant-table pKa vs API (printed precision)', 'violations': viol})
