"""Helpers shared by the property modules."""
import os
import sys

import z3

VERIF = os.path.dirname(os.path.dirname(os.path.abspath(__file__)))
if VERIF not in sys.path:
    sys.path.insert(0, VERIF)

from pyvc import REPO                                    # noqa: E402
from pyvc.loader import Repo                             # noqa: E402
from pyvc.core import Executor                           # noqa: E402
from pyvc.values import (Sym, Obj, SStr, Opaque, Unsupported, PyRaise, And, Or, Not, Implies, Ite,  # noqa: E402,F401
                         to_bool, lift, simp, mk_str)
from pyvc.ctx import Ctx, Obligation, CutPath, Infeasible              # noqa: E402,F401
from pyvc.prop import PropertyRun, Ground                 # noqa: E402,F401


def R(name):
    return Sym(z3.Real(name))


def I(name):
    return Sym(z3.Int(name))


def B(name):
    return Sym(z3.Bool(name))


def record(_name, cls=None, **fields):
    """Symbolic object with the given fields ('real'/'int'/'bool' -> fresh variable named <name>_<field>)."""
    o = Obj(cls, _name)
    for k, v in fields.items():
        if isinstance(v, str) and v in ('real', 'int', 'bool'):
            o.attrs[k] = Ctx.var('%s_%s' % (_name, k), v)
        else:
            o.attrs[k] = v
    return o


def init_defaults(cls):
    """Attributes that the class's own __init__ sets to a literal (None, numbers, strings, empty containers): the state a freshly
    constructed object starts with, read from the real AST - so that a harness record is not missing a field that the code under
    contract introduced (a memo table, a cache slot)."""
    import ast
    out = {}
    fi = cls.find_method('__init__') if cls is not None else None
    if fi is None:
        return out
    for n in ast.walk(fi.node):
        tgt, val = None, None
        if isinstance(n, ast.Assign) and len(n.targets) == 1:
            tgt, val = n.targets[0], n.value
        elif isinstance(n, ast.AnnAssign) and n.value is not None:
            tgt, val = n.target, n.value
        if isinstance(tgt, ast.Attribute) and isinstance(tgt.value, ast.Name) and tgt.value.id == 'self':
            try:
                out.setdefault(tgt.attr, ast.literal_eval(val))
            except (ValueError, SyntaxError):
                pass
    return out


def xyz(_name, cls=None, **more):
    return record(_name, cls, x='real', y='real', z='real', **more)


def frac(s):
    """Model value ('3/4', '1.5?', 7, algebraic approximations) -> float."""
    if isinstance(s, bool):
        return float(s)
    if isinstance(s, (int, float)):
        return float(s)
    s = str(s).rstrip('?')
    if '/' in s:
        a, b = s.split('/')
        return float(int(a)) / float(int(b))
    try:
        return float(s)
    except ValueError:
        return 0.0


def mval(model, name, default=0.0):
    if model is None or name not in model:
        return default
    return frac(model[name])


def lemma(name, hyps, goal, kind='aux'):
    return Obligation(name, [to_bool(h) for h in hyps], to_bool(goal), kind=kind)


def native_setup():
    """Make the real propka importable in this process (monitors)."""
    if REPO not in sys.path:
        sys.path.insert(0, REPO)
    import logging
    logging.disable(logging.CRITICAL)
