"""C10 - folding free energy obeys proton linkage and is reported on the requested grid.

  FE  Group.calculate_folding_energy: extraction VC  dG(pH) = C(g) - 1.36*(L(pH-pKa) - L(pH-pKm)), C independent
      of pH; 0 for non-titratable groups                                                          (TOP)
  QD  with |q| = 1 (cfg ground fact): Q_folded - Q_unfolded = -(sig(pH-pKa) - sig(pH-pKm))          (TOP)
  LN  Lean/Mathlib: d/dx L = sig, hence d(dG)/dpH = 1.36*(Q_folded - Q_unfolded)                    (aux, lean)
  CF  container: fold rule - sum over all groups of the group term                                  (TOP)
  PR  get_folding_profile: rows (ph, dG(ph)) per grid value; optimum is the minimum of the profile;
      ranges are min/max of the qualifying pH values                                                (TOP)
  MG  make_grid: yields min + k*step, k = 0..count, count = floor((max-min)/step + 1e-9): both end points (TOP)
  WF  get_folding_profile_section: printed rows = profile rows inside the window within 0.05 of
      window[0] + k*window[2]; optimum/range lines carry the values of get_folding_profile         (TOP)
"""
import math

from .common import *   # noqa: F401,F403
from pyvc.loops import LoopSpec
from pyvc.values import FmtStr, real_val, to_z3_num
from pyvc.core import Builtin
from . import cfg, leanlemma

GF = 'propka.group.Group.calculate_folding_energy'
GC = 'propka.group.Group.calculate_charge'
CF = 'propka.conformation_container.ConformationContainer.calculate_folding_energy'
PF = 'propka.molecular_container.MolecularContainer.get_folding_profile'
MG = 'propka.lib.make_grid'
SEC = 'propka.output.get_folding_profile_section'


def K136():
    return Sym(real_val(1.36))


def Lf(ctx, x):
    """L(x) = log10(1 + 10^x) built from the same uninterpreted symbols the executor uses."""
    return ctx.log10(1 + ctx.exp10(x))


def task_group(pr, repo):
    ex = Executor(repo)
    fi = repo.func(GF)
    pr.under_contract(fi)
    G = repo.cls('propka.group.Group')
    Dt = repo.cls('propka.determinant.Determinant')
    for reference in ('neutral', 'low-pH'):
        for qsign in (1, -1, 2, -2):
            # qsign +-2: the same charge, but the group is 'discarded due to coupling' in the report (it still titrates in the
            # charge curves, so it must still contribute here)
            coupled = abs(qsign) == 2
            qsign = qsign // abs(qsign)

            def thunk(ex, ctx, reference=reference, qsign=qsign, coupled=coupled):
                ds = [record('d%d' % i, Dt, value=R('dv%d' % i)) for i in range(2)]
                g = record('g', G, titratable=True, charge=float(qsign), pka_value=R('pka'), model_pka=R('pkm'),
                           coupled_titrating_group=(record('partner', G) if coupled else None),
                           determinants={'sidechain': [], 'backbone': [], 'coulomb': ds})
                ph1, ph2 = R('ph1'), R('ph2')
                r1 = ex.call_function(fi, [None], {'ph': ph1, 'reference': reference}, self_obj=g)
                r2 = ex.call_function(fi, [None], {'ph': ph2, 'reference': reference}, self_obj=g)
                pka, pkm = g.attrs['pka_value'], g.attrs['model_pka']
                d1 = Lf(ctx, ph1 - pka) - Lf(ctx, ph1 - pkm)
                d2 = Lf(ctx, ph2 - pka) - Lf(ctx, ph2 - pkm)
                ctx.oblige('FE[%s, q=%+d%s]: dG(pH) = C - 1.36*(L(pH-pKa) - L(pH-pKm)) with C independent of pH' % (reference, qsign, ', coupled' if coupled else ''),
                           r1 + K136() * d1 == r2 + K136() * d2)
                ctx.oblige('vacuity guard FE[%s,%+d,%s]' % (reference, qsign, coupled), r1 == r2 + 1, kind='aux', meta={'expect': 'refuted'})
            pr.explore(ex, thunk, GF)

    def t_nontit(ex, ctx):
        g = record('g', G, titratable=False, charge=-1.0, pka_value=R('pka'), model_pka=R('pkm'),
                   determinants={'sidechain': [], 'backbone': [], 'coulomb': []})
        r = ex.call_function(fi, [None], {'ph': R('ph'), 'reference': 'neutral'}, self_obj=g)
        ctx.oblige('FE: a non-titratable group contributes exactly 0 (same group set as the charge curves)', r == 0)
    pr.explore(ex, t_nontit, GF + ' non-titratable')

    # QD: charge difference in terms of sig, from the real calculate_charge
    pr.under_contract(repo.func(GC))
    for qsign in (1, -1):
        def t_q(ex, ctx, qsign=qsign):
            g = record('g', G, charge=float(qsign), pka_value=R('pka'), model_pka=R('pkm'))
            ph = R('ph')
            qf = ex.call_function(repo.func(GC), [None], {'ph': ph, 'state': 'folded'}, self_obj=g)
            qu = ex.call_function(repo.func(GC), [None], {'ph': ph, 'state': 'unfolded'}, self_obj=g)
            ea, em = ctx.exp10(ph - g.attrs['pka_value']), ctx.exp10(ph - g.attrs['model_pka'])
            ctx.oblige('QD[q=%+d]: Q_folded - Q_unfolded == -(sig(pH-pKa) - sig(pH-pKm)), sig x = 10^x/(1+10^x)' % qsign,
                       (qf - qu) * (1 + ea) * (1 + em) == -1 * (ea * (1 + em) - em * (1 + ea)))
        pr.explore(ex, t_q, 'charge difference q=%+d' % qsign)


def task_container(pr, repo):
    ex = Executor(repo)
    fi = repo.func(CF)
    pr.under_contract(fi)
    F = z3.Function('GFE_', z3.IntSort(), z3.RealSort())
    ex.contracts[GF] = lambda ex, ctx, fi_, a, k, so: Sym(F(to_z3_num(so.attrs['__idx__'])))
    CCls = repo.cls('propka.conformation_container.ConformationContainer')
    G = repo.cls('propka.group.Group')

    def havoc(ex, ctx, env, phase):
        v = ctx.fresh('acc_ddg')
        env.local['ddg'] = v
        return v

    def elem(ex, ctx, env):
        return record('gk', G, __idx__=I('k'))

    def step(ex, ctx, env, tok, g, how):
        ctx.oblige('CF fold step: ddg += group.calculate_folding_energy(parameters, ph, reference), for every group of the container',
                   And(env.local['ddg'] == tok + Sym(F(g.attrs['__idx__'].e)), how == 'normal'))

    def at_exit(ex, ctx, env, tok):
        ctx.loop_exit = tok
    ex.loop_hooks[(CF, 0)] = LoopSpec('cf', elem, havoc, step=step, at_exit=at_exit)

    def thunk(ex, ctx):
        conf = record('conf', CCls, groups=[], parameters=None)
        r = ex.call_function(fi, [], {'ph': R('ph'), 'reference': 'neutral'}, self_obj=conf)
        ctx.oblige('CF: returns the accumulated sum', r == ctx.loop_exit)
    pr.explore(ex, thunk, CF)
    ex.loop_hooks.clear()

    def t3(ex, ctx):
        # three titratable groups, two of them with ONE label (residues 29 and 29A, two copies of a ligand): labels do not identify groups
        gs = [record('g%d' % i, G, __idx__=i, titratable=True, label=('ASP  29 A' if i < 2 else 'GLU  30 A'), type='COO',
                     residue_type=('ASP' if i < 2 else 'GLU')) for i in range(3)]
        conf = record('conf', CCls, groups=gs, parameters=None)
        r = ex.call_function(fi, [], {'ph': R('ph'), 'reference': 'neutral'}, self_obj=conf)
        ctx.oblige('CF (3 groups, two equally labelled): result == sum of the three group terms', r == Sym(F(0)) + Sym(F(1)) + Sym(F(2)))
    pr.explore(ex, t3, CF + ' 3 groups')


def task_profile(pr, repo):
    ex = Executor(repo)
    fi = repo.func(PF)
    pr.under_contract(fi)
    MC = repo.cls('propka.molecular_container.MolecularContainer')
    DG = z3.Function('DG_', z3.RealSort(), z3.RealSort())
    ex.contracts[CF] = lambda ex, ctx, fi_, a, k, so: Sym(DG(to_z3_num(k['ph'], True)))
    grid_vals = [R('p0'), R('p1'), R('p2')]
    ex.contracts[MG] = lambda ex, ctx, fi_, a, k, so: list(grid_vals)

    def thunk(ex, ctx):
        conf = record('conf', None)
        conf.attrs['calculate_folding_energy'] = Builtin('cfe', lambda ex, ph=None, reference=None: Sym(DG(to_z3_num(ph, True))))
        mol = record('mol', MC, conformations={'AVR': conf})
        ctx.assume(And(grid_vals[0] < grid_vals[1], grid_vals[1] < grid_vals[2]))
        profile, opt, r80, stab = ex.call_function(fi, [], {'conformation': 'AVR', 'reference': 'neutral',
                                                             'grid': (R('g0'), R('g1'), R('g2'))}, self_obj=mol)
        dg = [Sym(DG(p.e)) for p in grid_vals]
        ok = len(profile) == 3
        conj = [ok]
        if ok:
            conj += [And(profile[i][0] == grid_vals[i], profile[i][1] == dg[i]) for i in range(3)]
        ctx.oblige('PR: one row (ph, dG(ph)) per grid value, in grid order', And(*conj))
        big = Sym(real_val(1e6))
        anysmall = Or(*[d < big for d in dg])
        if opt[0] is None:
            ctx.oblige('PR: no optimum reported only if no profile value is below 1e6', Not(anysmall))
        else:
            ctx.oblige('PR: the reported optimum is a point of the profile and its dG is the minimum of the profile',
                       And(Or(*[And(opt[0] == grid_vals[i], opt[1] == dg[i]) for i in range(3)]),
                           *[opt[1] <= d for d in dg]))
        o1 = opt[1]
        for (rng, name, cond) in ((r80, '80 % range', lambda d: d < Sym(real_val(0.8)) * o1), (stab, 'stability range', lambda d: d < 0)):
            member = [cond(d) for d in dg]
            if rng[0] is None:
                ctx.oblige('PR: %s absent only if no pH qualifies' % name, And(rng[1] is None, *[Not(m) for m in member]))
            else:
                ctx.oblige('PR: %s = (smallest, largest) qualifying grid pH' % name,
                           And(Or(*[And(m, rng[0] == p) for m, p in zip(member, grid_vals)]),
                               Or(*[And(m, rng[1] == p) for m, p in zip(member, grid_vals)]),
                               *[Implies(m, And(rng[0] <= p, p <= rng[1])) for m, p in zip(member, grid_vals)]))
    pr.explore(ex, thunk, PF)


def task_profile_rows(pr, repo):
    """PR rows on one- and two-point grids (few paths): the pH stored in a row IS the grid value and dG is evaluated at it."""
    fi = repo.func(PF)
    MC = repo.cls('propka.molecular_container.MolecularContainer')
    DG = z3.Function('DG_', z3.RealSort(), z3.RealSort())
    for n in (1, 2):
        ex = Executor(repo)
        vals = [R('q%d' % i) for i in range(n)]
        ex.contracts[MG] = lambda ex, ctx, fi_, a, k, so, vals=vals: list(vals)
        seen = []

        def thunk(ex, ctx, vals=vals, n=n):
            conf = record('conf', None)

            def cfe(ex_, ph=None, reference=None):
                seen.append(ph)
                return Sym(DG(to_z3_num(ph, True)))
            conf.attrs['calculate_folding_energy'] = Builtin('cfe', cfe)
            mol = record('mol', MC, conformations={'AVR': conf})
            for i in range(n - 1):
                ctx.assume(vals[i] < vals[i + 1])
            del seen[:]
            profile = ex.call_function(fi, [], {'conformation': 'AVR', 'reference': 'neutral',
                                                'grid': (R('g0'), R('g1'), R('g2'))}, self_obj=mol)[0]
            ok = len(profile) == n
            conj = [ok]
            if ok:
                conj += [And(profile[i][0] == vals[i], profile[i][1] == Sym(DG(vals[i].e))) for i in range(n)]
            ctx.oblige('PR[%d-point grid]: each row is (grid pH exactly as produced by the grid, dG evaluated at that pH)' % n, And(*conj))
        pr.explore(ex, thunk, PF + ' rows %d' % n)


def task_grid(pr, repo):
    ex = Executor(repo)
    fi = repo.func(MG)
    pr.under_contract(fi)
    got = {}

    def after_count(ex, ctx, env):
        got['count'] = env.local['count']
    ex.stmt_hooks[(MG, 'count =')] = after_count

    def havoc(ex, ctx, env, phase):
        return None

    def elem(ex, ctx, env):
        i = I('index')
        ctx.assume(And(i >= 0, i <= got['count']))
        return i

    def step(ex, ctx, env, tok, i, how):
        ys = env.local['__yields__']
        ctx.oblige('MG step: iteration k yields exactly min + k*step',
                   And(len(ys) == 1, ys[0] == env.local['min_'] + i * env.local['step']) if len(ys) == 1 else False)
    ex.loop_hooks[(MG, 0)] = LoopSpec('grid', elem, havoc, step=step)

    def thunk(ex, ctx):
        lo, hi, st = R('gmin'), R('gmax'), R('gstep')
        ctx.assume(And(st > 0, lo <= hi))
        ex.call_function(fi, [lo, hi, st])
        c = got['count']
        n = I('n')
        eps = Sym(real_val(1e-9))
        ctx.oblige('MG: count is an integer with min + count*step <= max + 1e-9*step and min + (count+1)*step > max '
                   '(no point beyond the end, no missing point)',
                   And(c >= 0, lo + c * st <= hi + eps * st, lo + (c + 1) * st > hi))
        ctx.oblige('MG: both end points - if (max-min)/step is an integer n then count == n, so the last value is max',
                   Implies(And(n >= 0, hi - lo == n * st), And(c == n, lo + c * st == hi)))
    pr.explore(ex, thunk, MG)
    pr.assumptions.append('range(count+1) enumerates 0..count once each, in order (Python semantics, trusted); '
                          'make_grid in floats: bounded exhaustive check below')


def task_section(pr, repo, wstep, wstart):
    ex = Executor(repo)
    fi = repo.func(SEC)
    pr.under_contract(fi)
    MC = repo.cls('propka.molecular_container.MolecularContainer')
    rows = [(R('ph%d' % i), R('dg%d' % i)) for i in range(2)]
    vals = {'opt': (R('ph_opt'), R('dg_opt')), 'r80': (R('r80lo'), R('r80hi')), 'stab': (R('stlo'), R('sthi'))}
    ex.contracts[PF] = lambda ex, ctx, fi_, a, k, so: ([tuple(r) for r in rows], list(vals['opt']), list(vals['r80']), list(vals['stab']))
    ex.contracts['propka.output.get_the_line'] = lambda ex, ctx, fi_, a, k, so: '-' * 10
    w1 = R('wstop')

    def thunk(ex, ctx):
        mol = record('mol', MC, options=record('options', None, grid=(0.0, 14.0, 0.1)))
        for p, _ in rows:
            ctx.assume(And(p >= -1, p <= 20))
        ctx.assume(And(w1 >= wstart, w1 <= 20))
        s = ex.call_function(fi, [mol], {'conformation': 'AVR', 'reference': 'neutral', 'window': (wstart, w1, wstep)})
        ok = isinstance(s, FmtStr)
        if not ok:
            ctx.oblige('WF: section is built from formatted rows', False)
            return
        fm = s.fmt_parts()
        dgs = [d for _, d in rows]
        is_row = lambda p: len(FmtStr.values_of(p)) == 2 and any(FmtStr.values_of(p)[1] is d for d in dgs)     # noqa
        rowparts = [p for p in fm if is_row(p)]
        tail = [p for p in fm if not is_row(p)]
        # specification of the filter (from the property): inside the window and within 0.05 of start + k*step
        stop_r = ex.call(BUILTINS_round, [w1, 2])
        conj = []
        k = 0
        expected = []
        for (p, d) in rows:
            pr3 = ex.call(BUILTINS_round, [p, 3])
            a = pr3 - wstart
            kk = Sym(z3.ToInt(to_z3_num(a / wstep + 0.5, True)))          # nearest lattice index
            dist = a - kk * wstep
            near = And(dist < Sym(real_val(0.05)), dist > Sym(real_val(-0.05)))
            # window membership: exact when the window end has <= 2 decimals (stop_r == w1); for other
            # ends the band between w1 and its 2-decimal rounding is left unspecified
            lo_b = Ite(w1 <= stop_r, w1, stop_r)
            hi_b = Ite(w1 <= stop_r, stop_r, w1)
            must = And(pr3 >= wstart, pr3 <= lo_b, near)
            may = And(pr3 >= wstart, pr3 <= hi_b, near)
            expected.append((must, may, pr3, d))
        # which rows were printed on this path
        printed = [tuple(FmtStr.values_of(p)) for p in rowparts]
        want = [e for e in expected]
        # the printed sequence must be the subsequence of rows satisfying the spec
        idx = 0
        seq_ok = []
        remaining = list(printed)
        for (must, may, pr3, d) in want:
            if remaining and remaining[0][1] is d:
                seq_ok.append(And(may, remaining[0][0] == pr3))
                remaining.pop(0)
            else:
                seq_ok.append(Not(must))
        ctx.oblige('WF[step %s, start %s]: printed rows == profile rows inside the window and within 0.05 of window[0] + k*window[2], '
                   'in order, each with its own dG' % (wstep, wstart), And(len(remaining) == 0, *seq_ok))
        flat = [x for p in tail for x in FmtStr.values_of(p)]
        want_tail = [vals['opt'][0], vals['opt'][1], vals['r80'][0], vals['r80'][1], vals['stab'][0], vals['stab'][1]]
        ctx.oblige('WF: optimum, 80 %% range and stability range lines print the values returned by get_folding_profile, in that order',
                   len(flat) == len(want_tail) and all((x is y) or (isinstance(x, str) and x == y) for x, y in zip(flat, want_tail)))
    pr.explore(ex, thunk, SEC + ' step %s' % wstep)


def task_write_pka(pr, repo):
    """The written file uses the requested grid and window: argument plumbing of write_pka and of the two profile sections."""
    ex = Executor(repo)
    pr.under_contract(repo.func('propka.output.write_pka'))
    seen = {}

    def t_sections(ex, ctx):
        opts = record('options', None, grid=(R('g0'), R('g1'), R('g2')), window=(R('w0'), R('w1'), R('w2')))
        mol = record('mol', None, options=opts, name='x')
        seen.clear()
        ex.contracts[PF] = lambda ex, ctx_, fi_, a, k, so: seen.setdefault('fold', k) and ([], [None, None], [None, None], [None, None])
        ex.contracts['propka.molecular_container.MolecularContainer.get_charge_profile'] = lambda ex, ctx_, fi_, a, k, so: seen.setdefault('charge', k) and []
        ex.contracts['propka.molecular_container.MolecularContainer.get_pi'] = lambda ex, ctx_, fi_, a, k, so: (R('pf'), R('pu'))
        ex.contracts['propka.output.get_the_line'] = lambda *a: '-'
        mol.cls = repo.cls('propka.molecular_container.MolecularContainer')
        ex.call_function(repo.func(SEC), [mol], {'conformation': 'AVR', 'reference': 'neutral', 'window': opts.attrs['window']})
        ex.call_function(repo.func('propka.output.get_charge_profile_section'), [mol], {'conformation': 'AVR'})
        ctx.oblige('GW: both profile sections compute their profile on the requested grid (options.grid), for the conformation and '
                   'reference they are asked for',
                   seen.get('fold', {}).get('grid') is opts.attrs['grid'] and seen.get('charge', {}).get('grid') is opts.attrs['grid']
                   and seen['fold'].get('conformation') == 'AVR' and seen['fold'].get('reference') == 'neutral'
                   and seen['charge'].get('conformation') == 'AVR')
    pr.explore(ex, t_sections, 'profile sections: grid plumbing')

    def t_write(ex, ctx):
        opts = record('options', None, grid=(R('g0'), R('g1'), R('g2')), window=(R('w0'), R('w1'), R('w2')))
        mol = record('mol', None, options=opts, name='x')
        calls = {}
        for n in ('get_propka_header', 'get_references_header', 'get_warning_header', 'get_the_line'):
            ex.contracts['propka.output.' + n] = lambda *a: 'H'
        for n in ('get_determinant_section', 'get_summary_section'):
            ex.contracts['propka.output.' + n] = (lambda n: lambda ex, ctx_, fi_, a, k, so: calls.setdefault(n, (a, k)) and 'S')(n)
        ex.contracts[SEC] = lambda ex, ctx_, fi_, a, k, so: calls.setdefault('fold', (a, k)) and 'F'
        ex.contracts['propka.output.get_charge_profile_section'] = lambda ex, ctx_, fi_, a, k, so: calls.setdefault('charge', (a, k)) and 'C'
        P_ = record('P', None)
        ex.call_function(repo.func('propka.output.write_pka'), [mol, P_], {'filename': 'x.pka', 'conformation': '2A',
                                                                            'reference': 'low-pH', 'verbose': False})
        f, c = calls.get('fold'), calls.get('charge')

        def arg(call, idx, name):
            a_, k_ = call
            return a_[idx] if len(a_) > idx else k_.get(name, 'NOT GIVEN')
        tables = [calls.get('get_determinant_section'), calls.get('get_summary_section')]
        ctx.oblige('GW: the determinant table and the summary of the written file are those of the conformation asked for, with the '
                   'parameter set handed to write_pka',
                   all(t is not None and arg(t, 0, 'protein') is mol and arg(t, 1, 'conformation') == '2A' and arg(t, 2, 'parameters') is P_
                       for t in tables))
        written = [e for e in ctx.events if e[0] == 'write_text']
        ctx.oblige('GW: write_pka prints the folding profile for the requested window, conformation and reference, the charge profile '
                   'for the same conformation, and writes one file',
                   f is not None and c is not None and f[1].get('window') is opts.attrs['window'] and f[1].get('conformation') == '2A'
                   and f[1].get('reference') == 'low-pH' and c[1].get('conformation') == '2A' and f[0][0] is mol and c[0][0] is mol
                   and len(written) == 1)
    pr.explore(ex, t_write, 'write_pka plumbing')


def _round_builtin():
    from pyvc.builtins_model import BUILTINS
    return BUILTINS['round']


BUILTINS_round = None


def run(pr, repo):
    global BUILTINS_round
    BUILTINS_round = _round_builtin()
    p = cfg.parameters()
    pr.add(Ground('cfg: every group type with a model pKa (i.e. every titratable type) has charge +1 or -1 (linkage needs |q| = 1)',
                  all(abs(p.charge.get(t, p.charge.get(p.protein_group_mapping.get(t + '-CG', ''), 1.0))) == 1.0 for t in p.charge),
                  kind='aux'))
    leanlemma.ground(pr, 'Folding', 'd/dx log10(1+10^x) = 10^x/(1+10^x); d/dpH[-1.36(L(pH-a)-L(pH-m))] = -1.36(sig(pH-a)-sig(pH-m))',
                     force=(pr.tier == 'thorough'))
    from . import C09
    # 'the same charge curves that are reported': the charge sums range over exactly the titratable groups (C09-CC)
    tasks = [(task_group, ()), (task_container, ()), (task_profile, ()), (task_profile_rows, ()), (task_grid, ()), (C09.task_container_charge, ()),
             (C09.task_group_charge, ()),  # ... with the group's OWN model pKa in the unfolded state, as in its folding energy
             (C09.task_profile, ()),      # the charge curve of a conformation comes from THAT container's groups (also for the average)
             (task_write_pka, ())]
    steps = [(1.0, 0.0), (2.0, 0.0), (0.5, 0.5), (1.5, 1.0)] if pr.tier == 'quick' else \
        [(1.0, 0.0), (2.0, 0.0), (0.5, 0.5), (1.5, 1.0), (0.1, 0.6), (0.25, 0.0), (3.0, 2.0), (0.7, 0.0)]
    for st, w0 in steps:
        tasks.append((task_section, (st, w0)))
    pr.parallel(tasks)
    from . import frames
    frames.query_is_pure(pr, repo, ['propka.molecular_container.MolecularContainer.get_folding_profile',
                                    'propka.conformation_container.ConformationContainer.calculate_folding_energy',
                                    'propka.group.Group.calculate_folding_energy', 'propka.lib.make_grid'] + C09.QUERIES,
                         'folding and charge queries')
    pr.assumptions += ['A-REAL incl. Decimal arithmetic = real arithmetic; round(x, n) modelled as "a multiple of 10^-n within half a unit"',
                       'window step and start are taken from a finite list of decimal values (the pH, dG and window end are symbolic)',
                       'Lean kernel + Mathlib for the derivative lemma']
    pr.assumptions.append('residue identity = label as in the code (chain + number, no insertion code): inputs with insertion-code twins of one residue type are outside what is shown here (known finding D9, DESIGN 10.5)')
    bounded(pr)


def bounded(pr):
    """Bounded: make_grid in floats (exhaustive lattice) and the written sections on real runs."""
    from . import native
    import importlib
    lib = importlib.import_module('propka.lib')
    steps = [0.01, 0.05, 0.1, 0.2, 0.25, 0.5, 0.7, 1, 2, 0.3, 0.125]
    ev, viol, classes = 0, [], set()
    lat = [x / 10.0 for x in range(0, 141, 5 if pr.tier == 'quick' else 1)]
    for st in steps:
        for lo in lat:
            for hi in lat:
                if hi < lo:
                    continue
                ev += 1
                g = list(lib.make_grid(lo, hi, st))
                r = (hi - lo) / st
                n_exp = int(math.floor(r + 1e-6)) + 1
                integer = abs(r - round(r)) < 1e-6
                classes.add((st, integer))
                bad = None
                if len(g) != n_exp:
                    bad = '%d points, expected %d' % (len(g), n_exp)
                elif abs(g[0] - lo) > 1e-12 or (integer and abs(g[-1] - hi) > 1e-9) or g[-1] > hi + 1e-9:
                    bad = 'end points %r .. %r' % (g[0], g[-1])
                elif any(abs((b - a) - st) > 1e-9 for a, b in zip(g, g[1:])):
                    bad = 'uneven spacing'
                if bad and len(viol) < 3:
                    viol.append({'what': 'make_grid(%r, %r, %r): %s' % (lo, hi, st, bad),
                                 'replay': "import sys\nfrom propka.lib import make_grid\ng=list(make_grid(%r,%r,%r))\nprint(g[:3], g[-3:], len(g))\n"
                                           "sys.exit(1 if len(g) != %d or g[-1] > %r + 1e-9 else 0)\n" % (lo, hi, st, n_exp, hi)})
    pr.bounded.append({'name': 'C10-monitor: make_grid in floating point on a decimal lattice', 'evaluations': ev,
                       'distinct_nontrivial': len(classes), 'bound': '%d steps x pairs of bounds on a %d-point lattice in [0,14]' % (len(steps), len(lat)),
                       'rule': 'exhaustive over the lattice; distinct = (step, integer number of steps?)', 'violations': viol})
    # written sections
    import re
    from decimal import Decimal
    import propka.output as out
    names = ['3SGB-subset'] if pr.tier == 'quick' else ['3SGB-subset', '1HPX', 'sample-issue-140']
    cases = [((0.0, 14.0, 0.1), (0.0, 14.0, 1.0)), ((0.0, 14.0, 0.1), (0.0, 14.0, 2.0)), ((0.0, 14.0, 0.1), (0.6, 7.3, 0.1)),
             ((0.0, 7.0, 0.7), (0.0, 7.0, 0.7)), ((2.0, 10.0, 0.25), (2.5, 9.5, 0.5)), ((0.0, 0.3, 0.1), (0.0, 0.3, 0.1)),
             # grids that do not start on a window point (the window reaches beyond the grid on both sides)
             ((2.5, 9.5, 0.1), (0.0, 14.0, 1.0)), ((3.0, 9.0, 0.5), (0.0, 14.0, 2.0))]
    ev2, viol2 = 0, []
    for name in names:
        for grid, window in cases:
            ev2 += 1
            opts = ['-g'] + [str(x) for x in grid] + ['-w'] + [str(x) for x in window]
            mol = native.run_text(native.pdb_lines(name), opts)
            # the window and grid the run itself carries (what write_pka hands to the sections) are the requested ones
            if tuple(mol.options.window) != tuple(window) or tuple(mol.options.grid) != tuple(grid):
                if len(viol2) < 3:
                    viol2.append({'what': '%s: options after parsing -g %r -w %r carry grid %r, window %r' % (
                        name, grid, window, tuple(mol.options.grid), tuple(mol.options.window)), 'replay': None})
            sec = out.get_folding_profile_section(mol, conformation='AVR', reference='neutral', window=mol.options.window)
            printed = [Decimal(m.group(1)) for m in re.finditer(r'^\s*(-?\d+\.\d\d)\s+-?\d+\.\d\d\s*$', sec, re.M)]
            prof = mol.get_folding_profile('AVR', 'neutral', grid)[0]
            gpts = [Decimal(str(grid[0])) + k * Decimal(str(grid[2])) for k in range(int((Decimal(str(grid[1])) - Decimal(str(grid[0]))) / Decimal(str(grid[2]))) + 1)]
            wpts = [Decimal(str(window[0])) + k * Decimal(str(window[2])) for k in range(int((Decimal(str(window[1])) - Decimal(str(window[0]))) / Decimal(str(window[2]))) + 1)]
            expect = [g for g in gpts if any(abs(g - w) < Decimal('0.05') for w in wpts)]
            bad = None
            if len(prof) != len(gpts) or any(abs(Decimal(repr(p[0])) - g) > Decimal('1e-9') for p, g in zip(prof, gpts)):
                bad = 'profile computed at %d pH values, grid has %d' % (len(prof), len(gpts))
            elif [round(e, 2) for e in expect] != printed:
                bad = 'printed rows %s, expected %s' % ([str(x) for x in printed][:8], [str(round(e, 2)) for e in expect][:8])
            if bad and len(viol2) < 3:
                viol2.append({'what': '%s -g %r -w %r: %s' % (name, grid, window, bad), 'replay': None})
    # several grids asked of ONE loaded molecule, one after the other: each profile lies on the grid it was asked for
    mol = native.run_text(native.pdb_lines(names[0]))
    for grid in [(2.0, 10.0, 0.5), (6.0, 8.0, 0.25), (0.0, 14.0, 1.0), (2.0, 10.0, 0.5)]:
        ev2 += 1
        gpts = [grid[0] + k * grid[2] for k in range(int(round((grid[1] - grid[0]) / grid[2])) + 1)]
        fp = mol.get_folding_profile('AVR', 'neutral', grid)
        cp = mol.get_charge_profile('AVR', grid=grid)
        for nm, rows in (('folding', fp[0]), ('charge', cp)):
            if len(rows) != len(gpts) or any(abs(r[0] - g) > 1e-9 for r, g in zip(rows, gpts)):
                if len(viol2) < 3:
                    viol2.append({'what': '%s: %s profile asked on grid %r of a molecule that answered other grids before: %d rows from pH %r, '
                                          'the grid has %d points from %r' % (names[0], nm, grid, len(rows), rows[0][0] if rows else None,
                                                                              len(gpts), gpts[0]), 'replay': None})
        if fp[1] and not (grid[0] - 1e-9 <= fp[1][0] <= grid[1] + 1e-9) and len(viol2) < 3:
            viol2.append({'what': '%s: optimum pH %r lies outside the grid %r it was asked on' % (names[0], fp[1][0], grid), 'replay': None})
    pr.bounded.append({'name': 'C10-monitor: profile and printed window rows on real runs', 'evaluations': ev2,
                       'distinct_nontrivial': len(cases), 'bound': '%d structures x %d grid/window pairs' % (len(names), len(cases)),
                       'rule': 'printed pH rows compared with grid and window lattices computed in exact Decimal arithmetic',
                       'violations': viol2})
