"""FRAME clauses shared by several properties (syntactic census over the real AST)."""
from .common import *   # noqa: F401,F403
from pyvc.frame import Census

_census = {}


def census(repo):
    if id(repo) not in _census:
        _census[id(repo)] = Census(repo)
    return _census[id(repo)]


def clause(pr, repo, name, field, mode, allowed, kind='aux'):
    """readers/writers of <field> must be within the declared set."""
    c = census(repo)
    actual = c.readers(field) if mode == 'readers' else c.writers(field)
    extra = sorted(actual - set(allowed))
    pr.add(Ground('FRAME %s' % name, not extra, backend='frame-checker', kind=kind,
                  detail=('undeclared %s of .%s: %s' % (mode, field, extra)) if extra else
                  '%d %s of .%s, all declared' % (len(actual), mode, field),
                  witness={'actual': sorted(actual), 'declared': sorted(allowed)}))
    return extra


NUMB_SINKS = {
    'propka.atom.Atom.make_copy',             # copies numb to the same field of the copy
    'propka.atom.Atom.make_conect_line',      # output
    'propka.atom.Atom.make_pdb_line',         # output (PDB_LINE_FMT1)
    'propka.atom.Atom.__str__',               # output (STR_FMT)
    'propka.output.write_mol2_for_atoms',     # output
}


def numb_only_sinks(pr, repo):
    clause(pr, repo, 'Atom.numb (serial number) is read only by copy/output sinks', 'numb', 'readers', NUMB_SINKS)
    pr.assumptions.append('A-REFL: no reflective access to atom fields beyond the enumerated getattr/setattr sites '
                          '(all in parameters.py / lib.py / molecular_container.py on Parameters / logging objects)')
    c = census(repo)
    bad = [r for r in c.reflection if not r[0].startswith(('propka.parameters.', 'propka.lib.loadOptions',
                                                           'propka.molecular_container.MolecularContainer.__init__',
                                                           'propka.molecular_container.MolecularContainer.write_pka'))]
    pr.add(Ground('FRAME reflection sites are the enumerated ones', not bad, backend='frame-checker', kind='aux',
                  detail=str(bad)[:400]))


MUTATORS = {'append', 'extend', 'update', 'clear', 'setdefault', 'pop', 'popitem', 'add', 'remove', 'discard', 'insert', 'sort',
            'reverse', '__setitem__', '__delitem__'}
PLAIN_DECORATORS = {'staticmethod', 'classmethod', 'property', 'contextlib.contextmanager', 'contextmanager', 'abstractmethod',
                    'typing.overload', 'overload'}


def _self_rooted(node):
    """x in  self.x / self.x[...] / self.x.y[...]  (first attribute after the receiver), else None."""
    import ast
    while isinstance(node, (ast.Attribute, ast.Subscript)):
        if isinstance(node, ast.Attribute) and isinstance(node.value, ast.Name) and node.value.id == 'self':
            return node.attr
        node = node.value
    return None


def query_is_pure(pr, repo, fullnames, what, kind='aux'):
    """FRAME: the listed query functions - and every method of the same object they call through self - store nothing on their
    receiver, keep no memo in a module global and carry no caching decorator: what they return is a function of their arguments and
    the state they read, however often and in whatever order they are asked.  Syntactic and conservative (a correct memo is
    reported too), hence auxiliary: a refuted clause makes the check UNDECIDED and leaves the decision to the reuse monitors."""
    import ast
    bad = []
    seen = set()
    todo = list(fullnames)
    n_funcs = 0
    while todo:
        fn = todo.pop()
        if fn in seen:
            continue
        seen.add(fn)
        try:
            fi = repo.func(fn)
        except Exception:       # noqa
            fi = None
        if fi is None:
            bad.append('%s: no such function on this tree' % fn)
            continue
        n_funcs += 1
        for d in fi.decorators:
            if d.split('(')[0] not in PLAIN_DECORATORS:
                bad.append('%s: decorator @%s' % (fn, d))
        for n in ast.walk(fi.node):
            if isinstance(n, (ast.Global, ast.Nonlocal)) and fn.split('.')[-1] != 'pi':
                bad.append('%s: %s %s' % (fn, type(n).__name__.lower(), ','.join(n.names)))
            tgts = []
            if isinstance(n, ast.Assign):
                tgts = n.targets
            elif isinstance(n, (ast.AugAssign, ast.AnnAssign)):
                tgts = [n.target]
            elif isinstance(n, ast.Delete):
                tgts = n.targets
            for t in tgts:
                for t2 in ast.walk(t):
                    if isinstance(t2, (ast.Attribute, ast.Subscript)) and isinstance(getattr(t2, 'ctx', None), (ast.Store, ast.Del)):
                        r = _self_rooted(t2)
                        if r is not None:
                            bad.append('%s: stores into self.%s' % (fn, r))
            if isinstance(n, ast.Call) and isinstance(n.func, ast.Attribute):
                if n.func.attr in MUTATORS and _self_rooted(n.func.value) is not None:
                    bad.append('%s: self.%s.%s(...)' % (fn, _self_rooted(n.func.value), n.func.attr))
                if isinstance(n.func.value, ast.Name) and n.func.value.id == 'self' and fi.cls is not None:
                    callee = fi.cls.find_method(n.func.attr)
                    if callee is not None:
                        todo.append('%s.%s.%s' % (callee.module.name, callee.cls.name, n.func.attr))
    pr.add(Ground('FRAME %s: no stores on the receiver, no memo, no caching decorator in %d function(s)' % (what, n_funcs), not bad,
                  backend='frame-checker', kind=kind, detail='; '.join(sorted(set(bad)))[:600] if bad else 'clean',
                  witness={'functions': sorted(seen)}))
    return bad


def decorator_census(pr, repo, what='propka'):
    """FRAME: every decorator used in the package is a plain one (property, staticmethod, classmethod, contextmanager): no function result
    is cached across calls by a decorator."""
    found = []
    for m in repo.all_modules():
        for fname, fi in list(m.functions.items()) + [(c.name + '.' + k, v) for c in m.classes.values() for k, v in c.methods.items()]:
            for d in fi.decorators:
                if d.split('(')[0] not in PLAIN_DECORATORS:
                    found.append('%s.%s: @%s' % (m.name, fname, d))
    pr.add(Ground('FRAME decorators (%s): only property / staticmethod / classmethod / contextmanager - nothing caches results across calls' % what,
                  not found, backend='frame-checker', kind='aux', detail='; '.join(found)[:400] if found else 'clean'))
    return found
