"""FRAME clauses shared by several properties (syntactic census over the real AST)."""
from .common import *   # noqa: F401,F403
from pyvc.frame import Census

_census = {}


def census(repo):
    if id(repo) not in _census:
        _census[id(repo)] = Census(repo)
    return _census[id(repo)]


def clause(pr, repo, name, field, mode, allowed, kind='aux'):
    """readers/writers of <field> must be within the declared set."""
    c = census(repo)
    actual = c.readers(field) if mode == 'readers' else c.writers(field)
    extra = sorted(actual - set(allowed))
    pr.add(Ground('FRAME %s' % name, not extra, backend='frame-checker', kind=kind,
                  detail=('undeclared %s of .%s: %s' % (mode, field, extra)) if extra else
                  '%d %s of .%s, all declared' % (len(actual), mode, field),
                  witness={'actual': sorted(actual), 'declared': sorted(allowed)}))
    return extra


NUMB_SINKS = {
    'propka.atom.Atom.make_copy',             # copies numb to the same field of the copy
    'propka.atom.Atom.make_conect_line',      # output
    'propka.atom.Atom.make_pdb_line',         # output (PDB_LINE_FMT1)
    'propka.atom.Atom.__str__',               # output (STR_FMT)
    'propka.output.write_mol2_for_atoms',     # output
}


def numb_only_sinks(pr, repo):
    clause(pr, repo, 'Atom.numb (serial number) is read only by copy/output sinks', 'numb', 'readers', NUMB_SINKS)
    pr.assumptions.append('A-REFL: no reflective access to atom fields beyond the enumerated getattr/setattr sites '
                          '(all in parameters.py / lib.py / molecular_container.py on Parameters / logging objects)')
    c = census(repo)
    bad = [r for r in c.reflection if not r[0].startswith(('propka.parameters.', 'propka.lib.loadOptions',
                                                           'propka.molecular_container.MolecularContainer.__init__',
                                                           'propka.molecular_container.MolecularContainer.write_pka'))]
    pr.add(Ground('FRAME reflection sites are the enumerated ones', not bad, backend='frame-checker', kind='aux',
                  detail=str(bad)[:400]))
