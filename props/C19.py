"""C19 - hybrid-36 atom serials decode correctly over the whole range.

Deductive core, all on the REAL propka.hybrid36.decode, strings as vectors of symbolic
code points, int(s)/int(s,36)/str.strip modelled at character level:
  F  complete functional spec for EVERY printable-ASCII string of length 0..5 (and padded
     forms up to length 8): decode(s) == value(s) if wellformed(s) else ValueError        (TOP)
  RT round trip: for every integer v of every segment of width w=1..5, with the base-36 digits
     d_i of the reference encoder, decode(pad(enc_w(v))) == v                              (TOP)
  MO strict monotonicity along the encoding order (lemma on value(), ground boundary facts) (TOP)
  FR Atom.numb feeds only sinks (frame census)                                             (TOP, frame)
"""
import itertools

from .common import *   # noqa: F401,F403
from pyvc.values import compare, arith

FN = 'propka.hybrid36.decode'
SP = 32


def is_digit(c):
    return And(c >= 48, c <= 57)


def is_upper(c):
    return And(c >= 65, c <= 90)


def is_lower(c):
    return And(c >= 97, c <= 122)


def is_ws(c):
    return Or(And(c >= 9, c <= 13), And(c >= 28, c <= 32))


def v36(c):
    return Ite(is_digit(c), c - 48, Ite(is_upper(c), c - 55, c - 87))


def allof(p, cs):
    return And(*[p(c) for c in cs]) if cs else True


def wf_core(cs):
    """Well-formed (from the hybrid-36 definition + optional sign): returns (wf, value)."""
    if not cs:
        return False, 0
    alts = []
    for signed in (False, True):
        r = cs[1:] if signed else cs
        if not r:
            continue
        sgn = -1 if signed else 1
        pre = (cs[0] == 45) if signed else True
        m = len(r)
        dec = sum((r[i] - 48) * 10 ** (m - 1 - i) for i in range(m))
        b36 = sum(v36(r[i]) * 36 ** (m - 1 - i) for i in range(m))
        alts.append((And(pre, allof(is_digit, r)), sgn * dec))
        alts.append((And(pre, is_upper(r[0]), allof(lambda c: Or(is_digit(c), is_upper(c)), r[1:])),
                     sgn * (b36 - 10 * 36 ** (m - 1) + 10 ** m)))
        alts.append((And(pre, is_lower(r[0]), allof(lambda c: Or(is_digit(c), is_lower(c)), r[1:])),
                     sgn * (b36 + 16 * 36 ** (m - 1) + 10 ** m)))
    wf = Or(*[a for a, _ in alts])
    val = 0
    for a, v in reversed(alts):
        val = Ite(a, v, val)
    return wf, val


def spec(chars):
    """(wellformed, value) of the whole field: blanks around the field are padding."""
    n = len(chars)
    cases = []
    for lo in range(n + 1):
        for hi in range(lo, n + 1):
            if hi == lo and lo != 0:
                continue
            cond = [is_ws(c) for c in chars[:lo]] + [is_ws(c) for c in chars[hi:]]
            if hi > lo:
                cond += [Not(is_ws(chars[lo])), Not(is_ws(chars[hi - 1]))]
            elif n > 0:
                cond = [is_ws(c) for c in chars]
            wf, val = wf_core(chars[lo:hi])
            cases.append((And(*cond) if cond else True, wf, val))
    wf_all = Or(*[And(c, w) for c, w, _ in cases])
    val_all = 0
    for c, w, v in reversed(cases):
        val_all = Ite(c, v, val_all)
    return wf_all, val_all


REPLAY = r'''
import sys
from propka.hybrid36 import decode
s = %(s)r
def ref(s):
    t = s.strip()
    sg = 1
    if t.startswith('-'): sg, t = -1, t[1:]
    if not t: return None
    D, U, L = '0123456789', 'ABCDEFGHIJKLMNOPQRSTUVWXYZ', 'abcdefghijklmnopqrstuvwxyz'
    m = len(t)
    if all(c in D for c in t): return sg*int(t)
    if t[0] in U and all(c in D+U for c in t): return sg*(int(t, 36) - 10*36**(m-1) + 10**m)
    if t[0] in L and all(c in D+L for c in t): return sg*(int(t, 36) + 16*36**(m-1) + 10**m)
    return None
exp = ref(s)
try:
    got = decode(s)
except ValueError:
    got = None
except Exception as e:
    print('decode(%%r) raised %%s, not ValueError' %% (s, type(e).__name__)); sys.exit(1)
print('decode(%%r) = %%r, specification: %%r' %% (s, got, exp))
sys.exit(0 if got == exp else 1)
'''


def replay_from_chars(names, pl=0, prr=0):
    def b(model):
        s = ' ' * pl + ''.join(chr(int(mval(model, n, 32))) for n in names) + ' ' * prr
        return REPLAY % {'s': s}
    return b


def task_F(pr, repo, pl, L, prr):
    ex = Executor(repo)
    fi = repo.func(FN)
    names = ['c%d_%d' % (L, i) for i in range(L)]
    chars = [I(n) for n in names]
    wf, val = spec(chars)          # path independent: built once

    def thunk(ex, ctx):
        for c in chars:
            ctx.assume(And(c >= 32, c <= 126))
        full = [SP] * pl + chars + [SP] * prr
        s = mk_str(full)
        tag = 'len %d pad %d/%d' % (L, pl, prr)
        try:
            r = ex.call_function(fi, [s])
        except PyRaise as e:
            if e.exc_name != 'ValueError':
                ctx.oblige('F[%s]: failure is ValueError, not %s' % (tag, e.exc_name), False,
                           meta={'replay': replay_from_chars(names, pl, prr)})
            else:
                ctx.oblige('F[%s]: only malformed fields are rejected' % tag, Not(wf),
                           meta={'replay': replay_from_chars(names, pl, prr)})
            raise
        ctx.oblige('F[%s]: accepted field is well-formed and decoded to its value' % tag,
                   And(wf, r == val), meta={'replay': replay_from_chars(names, pl, prr)})
        return r
    paths = pr.explore(ex, thunk, 'decode on strings of shape %r' % ((pl, L, prr),), max_paths=20000)
    pr.notes.append('F shape %r: %d paths' % ((pl, L, prr), len(paths)))
    if paths:
        pr.samples.append('F shape %r: path decisions %s' % ((pl, L, prr), paths[0][0].taken[:12]))


def task_RT(pr, repo, w, seg, lo, hi, base, off, pad):
    ex = Executor(repo)
    fi = repo.func(FN)

    def thunk(ex, ctx):
        v = I('v')
        ctx.assume(And(v >= lo, v <= hi))
        nd = w - 1 if seg == 'negative' else w
        d = [I('d%d' % i) for i in range(nd)]      # most significant first
        for x in d:
            ctx.assume(And(x >= 0, x < base))
        if seg == 'decimal':
            u = v
        elif seg == 'negative':
            u = -1 * v
        elif seg == 'upper':
            u = v - 10 ** w + 10 * 36 ** (w - 1)
        else:
            u = v - 10 ** w - 26 * 36 ** (w - 1) + 10 * 36 ** (w - 1)
        # reference encoder: digits of u in the base, width nd
        ctx.assume(u == sum(d[i] * base ** (nd - 1 - i) for i in range(nd)))
        if base == 10:
            chars = [x + 48 for x in d]
            if seg == 'negative':
                chars = [45] + chars
        else:
            chars = [Ite(x < 10, x + 48, x + off) for x in d]
        s = mk_str([SP] * pad[0] + chars + [SP] * pad[1])
        name = 'RT[w=%d %s pad=%s]: decode(enc(v)) == v' % (w, seg, pad)
        try:
            r = ex.call_function(fi, [s])
        except PyRaise as e:
            ctx.oblige(name + ' (path raises %s)' % e.exc_name, False)
            raise
        ctx.oblige(name, r == v)
        return r
    paths = pr.explore(ex, thunk, 'round trip w=%d %s' % (w, seg), max_paths=20000)
    pr.notes.append('RT w=%d %s pad %r: %d paths' % (w, seg, pad, len(paths)))


def task_call_site(pr, repo):
    """CS: the PDB reader takes the serial number from the decoder and from nowhere else: Atom.set_properties calls
    hybrid36.decode exactly once, on columns 7-11 as they stand, stores its result and lets its ValueError through - so a field the
    decoder rejects is rejected by the reader too."""
    from pyvc.values import PyRaise
    ex = Executor(repo)
    fi = repo.func('propka.atom.Atom.set_properties')
    pr.under_contract(fi)
    A = repo.cls('propka.atom.Atom')

    def thunk(ex, ctx):
        field = [I('f%d' % i) for i in range(5)]
        for c in field:
            ctx.assume(And(c >= 32, c <= 126))
        head = [ord(c) for c in 'ATOM  ']
        tail = [ord(c) for c in ' CA  ALA A   1      11.000  12.000  13.000  1.00  0.00           C  ']
        line = mk_str(head + field + tail)
        calls = []
        rejected = B('decoder_rejects')

        def dec(ex_, c_, f_, a, k, so):
            calls.append(a[0])
            if c_.branch(rejected):
                raise PyRaise('ValueError', 'invalid number literal')
            return I('decoded')
        ex.contracts[FN] = dec
        atom = record('atom', A, bonded_atoms=[])
        try:
            ex.call_function(fi, [line], self_obj=atom)
            raised = None
        except PyRaise as e:
            raised = e.exc_name
        ok = len(calls) == 1
        conj = [ok]
        if ok:
            conj.append(ex.equals(calls[0], mk_str(field)))
            if raised is None:
                conj.append(And(Not(rejected), atom.attrs['numb'] == I('decoded')))
            else:
                conj.append(And(rejected, raised == 'ValueError'))
        ctx.oblige('CS: set_properties decodes columns 7-11 once with hybrid36.decode, stores the result as the serial number, and a '
                   'field the decoder rejects makes the reader raise ValueError', And(*conj))
    pr.explore(ex, thunk, 'Atom.set_properties serial field')


def task_topup_reference(pr, repo):
    # which conformation's atom completes the others is decided by the conformation order, not by serial numbers (C08-TC)
    from . import C08
    C08.task_topup_conformations(pr, repo)


def run(pr, repo):
    fi = repo.func(FN)
    pr.under_contract(fi)
    tasks = []
    # ---- F: complete functional specification on all printable strings
    shapes = [(0, L, 0) for L in range(0, 6)]
    shapes += [(2, 5, 1), (1, 4, 0)] if pr.tier == 'quick' else [(2, 5, 1), (1, 4, 0), (0, 5, 2), (3, 3, 2), (1, 1, 1)]
    for sh in sorted(shapes, key=lambda t: -t[1]):
        tasks.append((task_F, sh))
    # ---- RT: round trip through the reference encoder
    for w in range(5, 0, -1):
        segs = [('decimal', 0, 10 ** w - 1, 10, None), ('upper', 10 ** w, 10 ** w + 26 * 36 ** (w - 1) - 1, 36, 55),
                ('lower', 10 ** w + 26 * 36 ** (w - 1), 10 ** w + 52 * 36 ** (w - 1) - 1, 36, 87)]
        if w > 1:
            segs.append(('negative', -(10 ** (w - 1) - 1), -1, 10, None))
        for (seg, lo, hi, base, off) in segs:
            for pad in ((0, 0), (2, 1)):
                if pr.tier == 'quick' and pad != (0, 0) and w not in (1, 5):
                    continue
                tasks.append((task_RT, (w, seg, lo, hi, base, off, pad)))
    tasks.append((task_call_site, ()))
    tasks.append((task_topup_reference, ()))
    pr.parallel(tasks)

    # ---- MO: strict monotonicity along the encoding order (on value(), which F ties to decode)
    for w in range(1, 6):
        a = [I('a%d' % i) for i in range(w)]
        b = [I('b%d' % i) for i in range(w)]
        for seg, first, rest in (('upper', is_upper, lambda c: Or(is_digit(c), is_upper(c))),
                                 ('lower', is_lower, lambda c: Or(is_digit(c), is_lower(c))),
                                 ('decimal', is_digit, is_digit)):
            hy = [first(a[0]), first(b[0])] + [rest(c) for c in a[1:] + b[1:]]
            # lexicographic order on digit values = encoding order
            lex = False
            for i in reversed(range(w)):
                lex = Or(v36(a[i]) < v36(b[i]), And(v36(a[i]) == v36(b[i]), lex))
            wa, va = wf_core(a)
            wb, vb = wf_core(b)
            pr.add(lemma('MO[w=%d %s]: encoding order => value order' % (w, seg), hy + [lex], And(wa, wb, va < vb), kind='top'))
        # segment boundaries (ground): max decimal + 1 == min upper, max upper + 1 == min lower
        def val(s):
            wf, v = wf_core([ord(c) for c in s])
            return v if wf is True or not isinstance(wf, bool) else None
        top_dec, min_up, max_up = val('9' * w), val('A' + '0' * (w - 1)), val('Z' * w)
        min_lo, max_lo = val('a' + '0' * (w - 1)), val('z' * w)
        ok = (top_dec + 1 == min_up == 10 ** w and max_up + 1 == min_lo and max_lo == 10 ** w + 52 * 36 ** (w - 1) - 1)
        pr.add(Ground('MO[w=%d]: segments are contiguous (9..9 -> A0..0, Z..Z -> a0..0), top value %d' % (w, max_lo),
                      bool(ok), detail='%r' % ((top_dec, min_up, max_up, min_lo, max_lo),)))
    pr.add(Ground('width-5 range is -9999 .. 87,440,031 as the property states',
                  10 ** 5 + 52 * 36 ** 4 - 1 == 87440031))
    pr.assumptions += ['CPython int(str[,base]) and str.strip modelled at character level over ASCII '
                       '(sign, underscores between digits, whitespace set); cross-checked against CPython by the bounded part',
                       'fields longer than 5 characters (8 with padding) are not covered by F']
    from . import frames
    frames.numb_only_sinks(pr, repo)
    bounded(pr)
    serial_monitor(pr)


def bounded(pr):
    """Bounded: exhaustive CPython cross-check of real decode vs the executable spec."""
    native_setup()
    import importlib
    import random
    h = importlib.import_module('propka.hybrid36')
    alphabet = "0123456789ABYZabyz -_+.\t!"
    maxw = 3 if pr.tier == 'quick' else 4
    D, U, Lc = '0123456789', 'ABCDEFGHIJKLMNOPQRSTUVWXYZ', 'abcdefghijklmnopqrstuvwxyz'

    def ref(s):
        t = s.strip()
        sg = 1
        if t.startswith('-'):
            sg, t = -1, t[1:]
        if not t:
            return None
        m = len(t)
        if all(c in D for c in t):
            return sg * int(t)
        if t[0] in U and all(c in D + U for c in t):
            return sg * (int(t, 36) - 10 * 36 ** (m - 1) + 10 ** m)
        if t[0] in Lc and all(c in D + Lc for c in t):
            return sg * (int(t, 36) + 16 * 36 ** (m - 1) + 10 ** m)
        return None
    ev = 0
    viol = []
    classes = set()

    def one(s):
        nonlocal ev
        ev += 1
        exp = ref(s)
        try:
            got = h.decode(s)
        except ValueError:
            got = None
        except Exception as e:   # noqa
            got = 'EXC:' + type(e).__name__
        classes.add((len(s), exp is None))
        if got != exp and len(viol) < 3:
            viol.append({'what': 'decode(%r) = %r, specification %r' % (s, got, exp), 'replay': REPLAY % {'s': s}})
    for w in range(0, maxw + 1):
        for t in itertools.product(alphabet, repeat=w):
            one(''.join(t))
    rng = random.Random(pr.seed)
    for _ in range(20000 if pr.tier == 'quick' else 400000):
        w = rng.choice((4, 5, 6, 7))
        one(''.join(rng.choice(alphabet) for _ in range(w)))
    pr.bounded.append({'name': 'C19-monitor: real decode vs executable specification', 'evaluations': ev,
                       'distinct_nontrivial': len(classes),
                       'bound': 'all strings over a %d-character alphabet up to width %d; random width 4-7' % (len(alphabet), maxw),
                       'rule': 'exhaustive small widths + seeded random; distinct = (length, wellformed?) classes',
                       'violations': viol})


def serial_variant(lines, kind, seed=0):
    """Rewrite only columns 7-11 (atom serial) of ATOM/HETATM records."""
    import random
    from . import native
    idx = [i for i, l in enumerate(lines) if l[:6] in ('ATOM  ', 'HETATM')]
    n = len(idx)
    if kind == 'reversed':
        vals = [str(n - k) for k in range(n)]
    elif kind == 'shuffled':
        v = list(range(1, n + 1))
        random.Random(seed).shuffle(v)
        vals = [str(x) for x in v]
    elif kind == 'zero':
        vals = ['0'] * n
    elif kind == 'wide':
        # every serial fills all five columns: 99990 .. 99999, then the hybrid-36 range A0000, A0001, ...
        import string as _st
        digs = _st.digits + _st.ascii_uppercase

        def hy(k):
            if k < 100000:
                return '%5d' % k
            k -= 100000
            k += 10 * 36 ** 4
            out_ = ''
            while k:
                out_ = digs[k % 36] + out_
                k //= 36
            return out_
        vals = [hy(99990 + k) for k in range(n)]
    elif kind == 'hy36-desc':
        vals = ['A%04d' % (9999 - k) for k in range(n)]
    else:
        raise ValueError(kind)
    out = list(lines)
    for k, i in enumerate(idx):
        out[i] = native.set_cols(out[i], 6, 11, vals[k])
    return out


SERIAL_REPLAY = r'''
import sys
sys.path.insert(0, %(verif)r)
from props import native, C19
lines = native.pdb_lines(%(name)r)
base = native.record(native.run_text(lines))
var = native.record(native.run_text(C19.serial_variant(lines, %(kind)r, %(seed)r)))
d = native.diff_records(base, var, tol=1e-9)
print('\n'.join(d) if d else 'identical')
sys.exit(1 if d else 0)
'''


def serial_monitor(pr):
    from . import native
    # multi-conformation inputs too: atoms copied between conformations (top-up) carry their serial along
    names = ['3SGB-subset', '1HPX', 'conf-alt-AB', 'conf-model-missing-atoms'] if pr.tier == 'quick' else \
        ['3SGB-subset', '1HPX', '4DFR', '3SGB', '1FTJ-Chain-A', 'conf-alt-AB', 'conf-alt-BC', 'conf-model-missing-atoms', 'conf-alt-AB-mutant']
    kinds = ['reversed', 'zero', 'wide'] if pr.tier == 'quick' else ['reversed', 'shuffled', 'zero', 'wide', 'hy36-desc']
    ev, viol = 0, []
    for name in names:
        lines = native.pdb_lines(name)
        base = native.record(native.run_text(lines))
        for kind in kinds:
            ev += 1
            try:
                var = native.record(native.run_text(serial_variant(lines, kind, pr.seed)))
                d = native.diff_records(base, var, tol=1e-9)
            except Exception as e:   # noqa
                d = ['exception %s: %s' % (type(e).__name__, e)]
            if d and len(viol) < 3:
                viol.append({'what': 'atom serial numbers (%s) change results of %s: %s' % (kind, name, d[:3]),
                             'replay': SERIAL_REPLAY % {'verif': native.os.path.dirname(native.os.path.dirname(native.__file__)),
                                                        'name': name, 'kind': kind, 'seed': pr.seed}})
    pr.bounded.append({'name': 'C19-monitor: serial-number columns do not influence any reported value', 'evaluations': ev,
                       'distinct_nontrivial': ev, 'bound': '%d structures x %d rewritings of columns 7-11' % (len(names), len(kinds)),
                       'rule': 'whole-pipeline runs compared group by group (pKa, desolvation, buried, determinants) to 1e-9',
                       'violations': viol})
