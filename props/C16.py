"""C16 - every contribution has the physically required sign and stays in model bounds.

Preconditions of the symbolic contracts are closed facts about the shipped propka.cfg
(GROUND obligations, evaluated on the object the REAL parser builds).  Every energy /
determinant constructor the property names is executed symbolically from the real AST.
"""
import ast as _ast

from .common import *   # noqa: F401,F403
from pyvc.loops import LoopSpec
from . import cfg, C02
from pyvc.values import real_val

E = 'propka.energy.'
D = 'propka.determinants.'
IT = 'propka.iterative.'


def sym_params(ctx, name='P'):
    """Symbolic Parameters record + the ground facts the contracts rely on (assumed here,
    proved for the shipped file by ground_facts())."""
    p = record(name, None, desolvationPrefactor='real', desolvationSurfaceScalingFactor='real',
               desolvationAllowance='real', Nmin='int', Nmax='int', coulomb_cutoff1='real', coulomb_cutoff2='real',
               desolv_cutoff_squared='real', buried_cutoff_squared='real')
    a = p.attrs
    ctx.assume(And(a['desolvationPrefactor'] < 0, a['desolvationSurfaceScalingFactor'] >= 0,
                   a['desolvationSurfaceScalingFactor'] <= 1, a['desolvationAllowance'] >= 0,
                   a['Nmax'] > a['Nmin'], a['Nmin'] >= 0, a['coulomb_cutoff1'] > 0,
                   a['coulomb_cutoff1'] < a['coulomb_cutoff2']))
    return p


def ground_facts(pr):
    p = cfg.parameters()
    facts = [
        ('desolvationPrefactor < 0', p.desolvationPrefactor < 0),
        ('0 <= desolvationSurfaceScalingFactor <= 1', 0 <= p.desolvationSurfaceScalingFactor <= 1),
        ('desolvationAllowance >= 0', p.desolvationAllowance >= 0),
        ('Nmax > Nmin >= 0', p.Nmax > p.Nmin >= 0),
        ('0 < coulomb_cutoff1 < coulomb_cutoff2', 0 < p.coulomb_cutoff1 < p.coulomb_cutoff2),
        ('every VanDerWaalsVolume >= 0', all(v >= 0 for v in p.VanDerWaalsVolume.values())),
        ('every titratable/charged group type has charge +1 or -1', all(abs(v) == 1.0 for v in p.charge.values())),
        ('backbone_reorganisation_list contains only acids (types ASP, GLU -> COO, charge -1)',
         all(p.charge[p.protein_group_mapping.get(r + '-CG', p.protein_group_mapping.get(r + '-CD'))] < 0
             for r in p.backbone_reorganisation_list)),
        ('side-chain cut-offs: inner < outer for every pair and the default',
         all(c[0] < c[1] for d in p.sidechain_cutoffs.dictionary.values() for c in d.values())
         and p.sidechain_cutoffs.default[0] < p.sidechain_cutoffs.default[1]),
        ('backbone H-bond tables: inner < outer cut-off', all(v[1] < v[2] for v in list(p.backbone_CO_hydrogen_bond.values())
                                                              + list(p.backbone_NH_hydrogen_bond.values()))),
        ('backbone CO table values >= 0 (bases), NH table values <= 0 in sign convention of the file',
         all(v[0] > 0 for v in p.backbone_CO_hydrogen_bond.values()) and all(v[0] < 0 for v in p.backbone_NH_hydrogen_bond.values())),
        ('sidechain_interaction > 0', p.sidechain_interaction > 0),
        ('exception values are positive', min(p.COO_HIS_exception, p.OCO_HIS_exception, p.CYS_HIS_exception, p.CYS_CYS_exception) > 0),
        ('ion charges are non-zero', all(v != 0 for v in p.ions.values())),
    ]
    for name, ok in facts:
        pr.add(Ground('cfg: ' + name, bool(ok), kind='aux', backend='ground'))


def sym_group(repo, name, **kw):
    G = repo.cls('propka.group.Group')
    g = record(name, G, charge='real', model_pka='real', num_volume='int', buried='real', **kw)
    g.attrs['determinants'] = {'sidechain': [], 'backbone': [], 'coulomb': []}
    g.attrs.setdefault('label', name)
    g.attrs.setdefault('titratable', True)
    g.attrs.setdefault('atom', record(name + '_atom', None, type='atom', res_num=0))
    return g


def dets(g, t):
    """determinants added by the call under test (the pre-existing one is checked by frame_ok)"""
    return [d for d in g.attrs['determinants'][t] if not d.attrs.get('__pre__')]


def seed_twin(repo, g, partner, t):
    """Pre-state: g already lists a determinant from a DIFFERENT group that carries the same label as
    'partner' (insertion-code twin / copy).  The contract's frame: it stays untouched."""
    Dt = repo.cls('propka.determinant.Determinant')
    twin = sym_group(repo, partner.name + '_twin', label=partner.attrs['label'])
    d0 = record(g.name + '_pre', Dt, group=twin, label=twin.attrs['label'], value=R(g.name + '_pre_value'))
    d0.attrs['__pre__'] = True
    g.attrs['determinants'][t].append(d0)
    return d0


def frame_ok(g, t, d0, n_new):
    lst = g.attrs['determinants'][t]
    return And(len(lst) == 1 + n_new, lst[0] is d0, d0.attrs['value'] == R(g.name + '_pre_value'))


# ------------------------------------------------------------------ scalar energy functions
def task_scalars(pr, repo):
    ex = Executor(repo)
    for n in ('calculate_weight', 'calculate_scale_factor', 'calculate_pair_weight', 'hydrogen_bond_energy',
              'coulomb_energy', 'check_coulomb_pair', 'angle_distance_factors'):
        pr.under_contract(repo.func(E + n))

    def t_weight(ex, ctx):
        p = sym_params(ctx)
        nv = I('num_volume')
        w = ex.call_function(repo.func(E + 'calculate_weight'), [p, nv])
        ctx.oblige('calculate_weight in [0,1] (buried fraction 0..100 %)', And(w >= 0, w <= 1))
        ctx.oblige('vacuity guard calculate_weight', w > 2, kind='aux', meta={'expect': 'refuted'})
    pr.explore(ex, t_weight, 'calculate_weight')

    def t_scale(ex, ctx):
        p = sym_params(ctx)
        w = R('weight')
        ctx.assume(And(w >= 0, w <= 1))
        s = ex.call_function(repo.func(E + 'calculate_scale_factor'), [p, w])
        ctx.oblige('calculate_scale_factor in [surface factor, 1]',
                   And(s >= p.attrs['desolvationSurfaceScalingFactor'], s <= 1))
    pr.explore(ex, t_scale, 'calculate_scale_factor')

    def t_pw(ex, ctx):
        p = sym_params(ctx)
        w = ex.call_function(repo.func(E + 'calculate_pair_weight'), [p, I('nv1'), I('nv2')])
        ctx.oblige('calculate_pair_weight in [0,1]', And(w >= 0, w <= 1))
    pr.explore(ex, t_pw, 'calculate_pair_weight')

    def t_hb(ex, ctx):
        dist, dmax, c0, c1, fa = R('dist'), R('dpka_max'), R('cut0'), R('cut1'), R('f_angle')
        ctx.assume(c0 < c1)
        v = ex.call_function(repo.func(E + 'hydrogen_bond_energy'), [dist, dmax, [c0, c1], fa])
        ctx.oblige('hydrogen_bond_energy in [0, |dpka_max * f_angle|]',
                   And(v >= 0, v * v <= dmax * dmax * fa * fa))
        ctx.oblige('hydrogen_bond_energy == 0 beyond the outer cut-off', Implies(dist > c1, v == 0))
    pr.explore(ex, t_hb, 'hydrogen_bond_energy')

    def t_coul(ex, ctx):
        p = sym_params(ctx)
        dist, w = R('dist'), R('weight')
        ctx.assume(And(w >= 0, w <= 1, dist >= 0))
        v = ex.call_function(repo.func(E + 'coulomb_energy'), [dist, w, p])
        c1 = p.attrs['coulomb_cutoff1']
        ctx.oblige('coulomb_energy >= 0', v >= 0)
        ctx.oblige('coulomb_energy <= 244.12 / (30 * coulomb_cutoff1) (value at the inner cut-off, buried dielectric)',
                   v * 30 * c1 <= R244())
        ctx.oblige('coulomb_energy == 0 at and beyond coulomb_cutoff2', Implies(dist >= p.attrs['coulomb_cutoff2'], v == 0))
    pr.explore(ex, t_coul, 'coulomb_energy')

    f_, a_, b_, t_, U_, V_ = [R('L_' + x) for x in 'f a b t U V'.split()]
    pr.add(lemma('lemma (pure): f.a.b == t, a^2 == U, b^2 == V, a,b > 0, t^2 <= U.V  |-  -1 <= f <= 1',
                 [f_ * a_ * b_ == t_, a_ * a_ == U_, b_ * b_ == V_, a_ > 0, b_ > 0, t_ * t_ <= U_ * V_],
                 And(f_ <= 1, f_ >= -1)))

    def t_angle(ex, ctx):
        A = repo.cls('propka.atom.Atom')
        a1, a2, a3 = xyz('a1', A), xyz('a2', A), xyz('a3', A)
        # ghost lemma (Lagrange identity), discharged by the ring back end, then used as a fact
        u = [a2.attrs[c] - a3.attrs[c] for c in 'xyz']
        v = [a1.attrs[c] - a2.attrs[c] for c in 'xyz']
        dot = u[0] * v[0] + u[1] * v[1] + u[2] * v[2]
        cr = (u[1] * v[2] - u[2] * v[1], u[2] * v[0] - u[0] * v[2], u[0] * v[1] - u[1] * v[0])
        ctx.cut('ghost: Lagrange identity (u.v)^2 + |u x v|^2 == |u|^2 |v|^2',
                dot * dot + cr[0] * cr[0] + cr[1] * cr[1] + cr[2] * cr[2] ==
                (u[0] * u[0] + u[1] * u[1] + u[2] * u[2]) * (v[0] * v[0] + v[1] * v[1] + v[2] * v[2]), meta={'ring': True})
        try:
            d12, f, d23 = ex.call_function(repo.func(E + 'angle_distance_factors'), [a1, a2, a3])
        except PyRaise as e:
            # coincident atoms: ZeroDivisionError - outside C16 (C12 deals with degenerate geometry)
            raise
        uu = u[0] * u[0] + u[1] * u[1] + u[2] * u[2]
        vv = v[0] * v[0] + v[1] * v[1] + v[2] * v[2]
        ctx.cut('ghost: (u.v)^2 <= |u|^2 |v|^2', dot * dot <= uu * vv)
        ctx.cut('ghost: distances are the norms', And(d23 * d23 == uu, d12 * d12 == vv, d23 > 0, d12 > 0))
        ctx.cut('ghost: f_angle * d23 * d12 == u.v', f * d23 * d12 == dot)
        # instance of the pure lemma  f.a.b == t, a^2 == U, b^2 == V, a,b > 0, t^2 <= U.V  |-  -1 <= f <= 1
        prem = And(f * d23 * d12 == dot, d23 * d23 == uu, d12 * d12 == vv, d23 > 0, d12 > 0, dot * dot <= uu * vv)
        ctx.cut('ghost: premises of the Cauchy-Schwarz lemma', prem)
        ctx.assume(Implies(prem, And(f <= 1, f >= -1)), kind='def')
        ctx.oblige('angle_distance_factors: |f_angle| <= 1 (Cauchy-Schwarz)', And(f <= 1, f >= -1))
        ctx.oblige('angle_distance_factors: distances are >= 0', And(d12 >= 0, d23 >= 0))
    pr.explore(ex, t_angle, 'angle_distance_factors')


def R244():
    from pyvc.values import real_val
    return Sym(real_val(244.12))


# ------------------------------------------------------------------ desolvation
def task_desolvation(pr, repo):
    ex = Executor(repo)
    FN = E + 'radial_volume_desolvation'
    fi = repo.func(FN)
    pr.under_contract(fi)
    A = repo.cls('propka.atom.Atom')
    vdw_keys = ['C', 'C4', 'N', 'O', 'S', 'F', 'Cl', 'P']
    ex.contracts['propka.calculations.squared_distance'] = lambda ex, ctx, fi_, a, k, so: _sq(ctx)

    def _sq(ctx):
        d = ctx.fresh('sq_dist')
        ctx.assume(d >= 0, kind='def')       # contract of squared_distance (sum of squares), proved in C05
        return d

    def params(ctx):
        p = sym_params(ctx)
        p.attrs['VanDerWaalsVolume'] = {k: R('vdw_' + k) for k in vdw_keys}
        for v in p.attrs['VanDerWaalsVolume'].values():
            ctx.assume(v >= 0)
        return p

    cases = [('C', 'CB'), ('C', 'CA'), ('N', 'N'), ('S', 'SG'), ('X', 'X1')]

    def make_hook(case):
        entry = {}

        def havoc(ex, ctx, env, phase):
            v = ctx.fresh('volume')
            n = ctx.fresh('num_volume', 'int')
            # invariant: volume and count never fall below their values at loop entry (whatever the code initialised them to)
            ctx.assume(And(v >= entry['volume'], n >= entry['num_volume']))
            env.local['volume'] = v
            env.local['group'].attrs['num_volume'] = n
            return (v, n)

        def elem(ex, ctx, env):
            return record('atom', A, res_num=I('a_res_num'), chain_id=mk_str([I('a_chain')]),
                          element=case[0], name=case[1])

        def init(ex, ctx, env):
            entry['volume'] = env.local['volume']
            entry['num_volume'] = env.local['group'].attrs['num_volume']

        def step(ex, ctx, env, tok, x, how):
            ctx.oblige('desolvation loop step [%s/%s]: volume and buried count never decrease' % case,
                       And(env.local['volume'] >= tok[0], env.local['group'].attrs['num_volume'] >= tok[1]), kind='aux')
        return LoopSpec('desolv', elem, havoc, init=init, step=step)

    for case in cases:
        def thunk(ex, ctx, case=case):
            p = params(ctx)
            conf = record('conf', None)
            conf.attrs['get_non_hydrogen_atoms'] = Builtin_list([])
            gatom = record('gatom', A, res_num=I('g_res_num'), chain_id=mk_str([I('g_chain')]), conformation_container=conf)
            g = sym_group(repo, 'g', atom=gatom, energy_volume='real')
            ex.loop_hooks[(FN, 0)] = make_hook(case)
            ex.call_function(fi, [p, g])
            q, ev, b = g.attrs['charge'], g.attrs['energy_volume'], g.attrs['buried']
            ctx.oblige('desolvation: buried fraction in [0,1]', And(b >= 0, b <= 1))
            ctx.oblige('desolvation never lowers an acid pKa nor raises a base pKa (sign(energy_volume) = -sign(charge) or 0)',
                       And(Implies(q < 0, ev >= 0), Implies(q > 0, ev <= 0)))
        pr.explore(ex, thunk, FN + ' %s/%s' % case)
    ex.loop_hooks.clear()


def Builtin_list(v):
    from pyvc.core import Builtin
    return Builtin('const', lambda ex, *a, **k: list(v))


# ------------------------------------------------------------------ backbone reorganisation
def task_reorganization(pr, repo):
    ex = Executor(repo)
    FN = E + 'backbone_reorganization'
    fi = repo.func(FN)
    pr.under_contract(fi)

    def adf(ex, ctx, fi_, a, k, so):
        d, f, d2 = ctx.fresh('adf_dist'), ctx.fresh('adf_fangle'), ctx.fresh('adf_dist23')
        ctx.assume(And(d >= 0, d2 >= 0, f <= 1, f >= -1), kind='def')     # contract proved in task_scalars
        return (d, f, d2)
    ex.contracts[E + 'angle_distance_factors'] = adf
    A = repo.cls('propka.atom.Atom')

    def havoc(ex, ctx, env, phase):
        v = ctx.fresh('dpka')
        ctx.assume(v >= 0)
        env.local['dpka'] = v
        return v

    def elem(ex, ctx, env):
        b = record('bbc', None, atom=xyz('bbc_atom', A))
        b.attrs['get_interaction_atoms'] = Builtin_list([xyz('bbc_o', A)])
        return b

    def step(ex, ctx, env, tok, x, how):
        ctx.oblige('backbone_reorganization inner step: dpka never decreases', env.local['dpka'] >= tok, kind='aux')
    ex.loop_hooks[(FN, 1)] = LoopSpec('reorg-inner', elem, havoc, step=step)

    def thunk(ex, ctx):
        g = sym_group(repo, 'tg', energy_local='real', x='real', y='real', z='real')
        ctx.assume(And(g.attrs['buried'] >= 0, g.attrs['buried'] <= 1))
        conf = record('conf', None)
        conf.attrs['get_backbone_reorganisation_groups'] = Builtin_list([g])
        conf.attrs['get_backbone_co_groups'] = Builtin_list([])
        ex.call_function(fi, [None, conf])
        ctx.oblige('backbone reorganisation term (energy_local) >= 0 (applied to acids only: cfg ground fact)',
                   g.attrs['energy_local'] >= 0)
    pr.explore(ex, thunk, FN)
    ex.loop_hooks.clear()
    # which groups get it: real getter
    pr.under_contract(repo.func('propka.conformation_container.ConformationContainer.get_backbone_reorganisation_groups'))


# ------------------------------------------------------------------ determinant constructors
def task_coulomb_pairs(pr, repo):
    ex = Executor(repo)
    for n in ('add_coulomb_acid_pair', 'add_coulomb_base_pair', 'add_coulomb_ion_pair', 'add_coulomb_determinants',
              'add_sidechain_determinants'):
        pr.under_contract(repo.func(D + n))
    pr.under_contract(repo.func('propka.determinant.Determinant.__init__'), how='inlined')

    def newdets(g1, g2):
        return dets(g1, 'coulomb'), dets(g2, 'coulomb')

    def t_acid(ex, ctx):
        g1, g2 = sym_group(repo, 'g1'), sym_group(repo, 'g2')
        v = R('value')
        ctx.assume(v >= 0)
        p1, p2 = seed_twin(repo, g1, g2, 'coulomb'), seed_twin(repo, g2, g1, 'coulomb')
        ex.call_function(repo.func(D + 'add_coulomb_acid_pair'), [g1, g2, v])
        d1, d2 = newdets(g1, g2)
        ctx.oblige('acid pair: determinants already listed (also from equally labelled groups) are untouched',
                   And(frame_ok(g1, 'coulomb', p1, len(d1)), frame_ok(g2, 'coulomb', p2, len(d2))))
        ok = len(d1) + len(d2) == 1
        if not ok:
            ctx.oblige('acid pair: exactly one new Coulomb determinant is appended' , False)
            return
        tgt = g1 if d1 else g2
        oth = g2 if d1 else g1
        d = (d1 or d2)[0]
        ctx.oblige('acid pair: exactly one Coulomb determinant, +value (destabilising, like charges), on the group with '
                   'the higher model pKa, naming the other group',
                   And(ok, d.attrs['value'] == v, d.attrs['group'] is oth,
                       tgt.attrs['model_pka'] >= oth.attrs['model_pka']))
    pr.explore(ex, t_acid, 'add_coulomb_acid_pair')

    def t_base(ex, ctx):
        g1, g2 = sym_group(repo, 'g1'), sym_group(repo, 'g2')
        v = R('value')
        ctx.assume(v >= 0)
        p1, p2 = seed_twin(repo, g1, g2, 'coulomb'), seed_twin(repo, g2, g1, 'coulomb')
        ex.call_function(repo.func(D + 'add_coulomb_base_pair'), [g1, g2, v])
        d1, d2 = newdets(g1, g2)
        ctx.oblige('base pair: determinants already listed (also from equally labelled groups) are untouched',
                   And(frame_ok(g1, 'coulomb', p1, len(d1)), frame_ok(g2, 'coulomb', p2, len(d2))))
        ok = len(d1) + len(d2) == 1
        if not ok:
            ctx.oblige('base pair: exactly one new Coulomb determinant is appended' , False)
            return
        tgt = g1 if d1 else g2
        oth = g2 if d1 else g1
        d = (d1 or d2)[0]
        ctx.oblige('base pair: exactly one Coulomb determinant, -value (like charges lower a base pKa), on the group with '
                   'the lower model pKa', And(ok, d.attrs['value'] == -1 * v, d.attrs['group'] is oth,
                                               tgt.attrs['model_pka'] <= oth.attrs['model_pka']))
    pr.explore(ex, t_base, 'add_coulomb_base_pair')

    def t_ion(ex, ctx):
        g1, g2 = sym_group(repo, 'g1'), sym_group(repo, 'g2')
        v = R('value')
        ctx.assume(v >= 0)
        q1, q2 = g1.attrs['charge'], g2.attrs['charge']
        p1, p2 = seed_twin(repo, g1, g2, 'coulomb'), seed_twin(repo, g2, g1, 'coulomb')
        ex.call_function(repo.func(D + 'add_coulomb_ion_pair'), [g1, g2, v])
        d1, d2 = newdets(g1, g2)
        ctx.oblige('acid-base pair: determinants already listed (also from equally labelled groups) are untouched',
                   And(frame_ok(g1, 'coulomb', p1, len(d1)), frame_ok(g2, 'coulomb', p2, len(d2))))
        ok = len(d1) == 1 and len(d2) == 1
        if not ok:
            ctx.oblige('acid-base pair: one new determinant on each group', False)
            return
        ctx.oblige('acid-base pair: one determinant each, q1*value and q2*value (stabilising), equal and opposite when q1 = -q2',
                   And(ok, d1[0].attrs['value'] == q1 * v, d2[0].attrs['value'] == q2 * v,
                       d1[0].attrs['group'] is g2, d2[0].attrs['group'] is g1,
                       Implies(q1 == -1 * q2, d1[0].attrs['value'] == -1 * d2[0].attrs['value'])))
    pr.explore(ex, t_ion, 'add_coulomb_ion_pair')

    # dispatch in add_coulomb_determinants: which constructor for which charge signs
    def t_dispatch(ex, ctx):
        g1, g2 = sym_group(repo, 'g1'), sym_group(repo, 'g2')
        q1, q2 = g1.attrs['charge'], g2.attrs['charge']
        ctx.assume(And(Or(q1 == 1, q1 == -1), Or(q2 == 1, q2 == -1)))
        v = R('coul')
        ctx.assume(v > 0)
        version = record('version', None)
        from pyvc.core import Builtin
        version.attrs['electrostatic_interaction'] = Builtin('ei', lambda ex, *a, **k: v)
        ex.call_function(repo.func(D + 'add_coulomb_determinants'), [g1, g2, R('distance'), version])
        d1, d2 = newdets(g1, g2)
        alld = [(g1, d) for d in d1] + [(g2, d) for d in d2]
        conj = []
        for g, d in alld:
            q = g.attrs['charge']
            oq = (g2 if g is g1 else g1).attrs['charge']
            val = d.attrs['value']
            # like charges: acid raised (+), base lowered (-) ; opposite charges: acid lowered, base raised
            conj.append(And(Implies(And(q < 0, oq < 0), val > 0), Implies(And(q > 0, oq > 0), val < 0),
                            Implies(And(q < 0, oq > 0), val < 0), Implies(And(q > 0, oq < 0), val > 0),
                            Or(val == v, val == -1 * v)))
        ctx.oblige('Coulomb determinants: like charges destabilise, opposite charges stabilise; |value| = Coulomb energy',
                   And(len(alld) >= 1, *conj))
    pr.explore(ex, t_dispatch, 'add_coulomb_determinants')

    def t_side(ex, ctx):
        g1, g2 = sym_group(repo, 'g1'), sym_group(repo, 'g2')
        q1, q2 = g1.attrs['charge'], g2.attrs['charge']
        ctx.assume(And(Or(q1 == 1, q1 == -1), Or(q2 == 1, q2 == -1)))
        h = R('hbond')
        ctx.assume(h > 0)
        version = record('version', None)
        from pyvc.core import Builtin
        version.attrs['hydrogen_bond_interaction'] = Builtin('hbi', lambda ex, *a, **k: h)
        p1, p2 = seed_twin(repo, g1, g2, 'sidechain'), seed_twin(repo, g2, g1, 'sidechain')
        ex.call_function(repo.func(D + 'add_sidechain_determinants'), [g1, g2, version])
        d1, d2 = dets(g1, 'sidechain'), dets(g2, 'sidechain')
        ctx.oblige('side-chain determinants already listed (also from equally labelled groups) are untouched',
                   And(frame_ok(g1, 'sidechain', p1, len(d1)), frame_ok(g2, 'sidechain', p2, len(d2))))
        ok = len(d1) == 1 and len(d2) == 1
        if not ok:
            ctx.oblige('side-chain determinants: one new determinant on each group', False)
            return
        v1, v2 = d1[0].attrs['value'], d2[0].attrs['value']
        ctx.oblige('side-chain determinants: |value| = H-bond energy on both groups; acid-base pair: q*value on each; '
                   'like pair: lower model pKa lowered, higher raised',
                   And(ok, Or(v1 == h, v1 == -1 * h), Or(v2 == h, v2 == -1 * h),
                       Implies(q1 != q2, And(v1 == q1 * h, v2 == q2 * h)),
                       Implies(q1 == q2, v1 == -1 * v2),
                       Implies(And(q1 == q2, g1.attrs['model_pka'] < g2.attrs['model_pka']), v1 == -1 * h)))
    pr.explore(ex, t_side, 'add_sidechain_determinants')


def task_ion_backbone(pr, repo):
    ex = Executor(repo)
    pr.under_contract(repo.func(D + 'set_ion_determinants'))
    pr.under_contract(repo.func(D + 'set_backbone_determinants'))
    from pyvc.core import Builtin
    A = repo.cls('propka.atom.Atom')

    def t_ion(ex, ctx):
        tg, ion = sym_group(repo, 'tg', x='real', y='real', z='real'), sym_group(repo, 'ion', x='real', y='real', z='real')
        conf = record('conf', None)
        conf.attrs['get_titratable_groups'] = Builtin_list([tg])
        conf.attrs['get_ions'] = Builtin_list([ion])
        e = R('coulomb_e')
        ctx.assume(e >= 0)       # contract of coulomb_energy (task_scalars)
        p = record('P', None, coulomb_cutoff2_squared='real')
        version = record('version', None, parameters=p)
        version.attrs['calculate_pair_weight'] = Builtin('pw', lambda ex, *a, **k: R('w'))
        version.attrs['calculate_coulomb_energy'] = Builtin('ce', lambda ex, *a, **k: e)
        p0 = seed_twin(repo, tg, ion, 'coulomb')
        ex.call_function(repo.func(D + 'set_ion_determinants'), [conf, version])
        d = dets(tg, 'coulomb')
        ctx.oblige('ion determinants: determinants already listed are untouched', frame_ok(tg, 'coulomb', p0, len(d)))
        qi = ion.attrs['charge']
        conj = [len(d) <= 1, len(dets(ion, 'coulomb')) == 0]
        for x in d:
            conj.append(And(x.attrs['value'] == -1 * qi * e, x.attrs['group'] is ion,
                            Implies(qi > 0, x.attrs['value'] <= 0), Implies(qi < 0, x.attrs['value'] >= 0)))
        ctx.oblige('ion determinant = -q_ion * Coulomb energy: a positive ion lowers, a negative ion raises the pKa of acids '
                   'and bases alike; magnitude = |q_ion| * Coulomb energy', And(*conj))
    pr.explore(ex, t_ion, 'set_ion_determinants')

    def t_two_ions(ex, ctx):
        # two ions of one element in one chain print the same label (no residue number in a hetero label): two determinants, each within
        # the single-determinant bound - never one summed row
        tg = sym_group(repo, 'tg', x='real', y='real', z='real')
        ions = [sym_group(repo, 'ion%d' % k, x='real', y='real', z='real') for k in range(2)]
        for k, io in enumerate(ions):
            io.attrs['label'] = 'ZN   ZN A'
            io.attrs['charge'] = R('q_ion')
            io.attrs['atom'] = record('ion_atom%d' % k, A, type='hetatm', res_num=301 + k, chain_id='A', name='ZN')
        conf = record('conf', None)
        conf.attrs['get_titratable_groups'] = Builtin_list([tg])
        conf.attrs['get_ions'] = Builtin_list(ions)
        es = [R('coulomb_e0'), R('coulomb_e1')]
        for e_ in es:
            ctx.assume(e_ >= 0)
        p = record('P', None, coulomb_cutoff2_squared='real')
        version = record('version', None, parameters=p)
        version.attrs['calculate_pair_weight'] = Builtin('pw', lambda ex, *a, **k: R('w'))
        calls = []
        version.attrs['calculate_coulomb_energy'] = Builtin('ce', lambda ex, *a, **k: (calls.append(1), es[len(calls) - 1])[1])
        ex.call_function(repo.func(D + 'set_ion_determinants'), [conf, version])
        d = dets(tg, 'coulomb')
        qi = R('q_ion')
        ok = len(d) == len(calls) and len(d) <= 2
        ctx.oblige('two equally labelled ions: one determinant per ION within reach (value -q_ion * its own Coulomb energy), never a '
                   'summed row', And(ok, *[x.attrs['value'] == -1 * qi * es[i] for i, x in enumerate(d)]) if ok else False)
    pr.explore(ex, t_two_ions, 'set_ion_determinants two ions')

    for btype in ('BBC', 'BBN'):
        for elem in ('H', 'O'):
            def t_bb(ex, ctx, btype=btype, elem=elem):
                heavy = xyz('heavy', A, element='N')
                tatom = xyz('tatom', A, element=elem if btype == 'BBC' else 'O', bonded_atoms=[heavy])
                batom = xyz('batom', A, element=elem if btype == 'BBN' else 'O', bonded_atoms=[heavy])
                tg = sym_group(repo, 'tg', type='HIS', interaction_atoms_for_acids=[tatom])
                bb = sym_group(repo, 'bb', type=btype)
                bb.attrs['get_interaction_atoms'] = Builtin_list([batom])
                ctx.assume(Or(tg.attrs['charge'] == 1, tg.attrs['charge'] == -1))
                dmax, c1, c2 = R('dpka_max'), R('cutoff1'), R('cutoff2')
                ctx.assume(c1 < c2)
                p = record('P', None, angular_dependent_sidechain_interactions=['HIS', 'ARG', 'AMD', 'TRP'])
                version = record('version', None, parameters=p)
                version.attrs['get_backbone_hydrogen_bond_parameters'] = Builtin('bbp', lambda ex, *a, **k: [dmax, [c1, c2]])
                dist = R('dist')
                ctx.assume(dist >= 0)
                ex.contracts['propka.calculations.get_smallest_distance'] = lambda ex, ctx, fi_, a, k, so: [batom, dist, tatom]
                fa = R('f_angle')

                def adf(ex, ctx, fi_, a, k, so):
                    ctx.assume(And(fa <= 1, fa >= -1), kind='def')
                    return (R('d12'), fa, R('d23'))
                ex.contracts[E + 'angle_distance_factors'] = adf
                p0 = seed_twin(repo, tg, bb, 'backbone')
                ex.call_function(repo.func(D + 'set_backbone_determinants'), [[tg], [bb], version])
                d = dets(tg, 'backbone')
                ctx.oblige('backbone determinants already listed are untouched [%s %s]' % (btype, elem),
                           frame_ok(tg, 'backbone', p0, len(d)))
                q = tg.attrs['charge']
                conj = [len(d) <= 1]
                for x in d:
                    v = x.attrs['value']
                    conj.append(And(Implies(q < 0, v <= 0), Implies(q > 0, v >= 0), v * v <= dmax * dmax,
                                    x.attrs['group'] is bb))
                ctx.oblige('backbone determinant [%s, partner atom %s] = charge * H-bond energy: never raises an acid, never '
                           'lowers a base; |value| <= |dpka_max|' % (btype, elem), And(*conj))
            pr.explore(ex, t_bb, 'set_backbone_determinants %s %s' % (btype, elem))


def task_iterative(pr, repo, presence_only=False):
    """presence_only: only WHICH terms exist (used by properties that do not speak about signs and sizes)."""
    ex = Executor(repo)
    for n in ('add_iterative_acid_pair', 'add_iterative_base_pair', 'add_iterative_ion_pair'):
        pr.under_contract(repo.func(IT + n))

    def mk(name):
        o = record(name, None, pka_old='real', q='real', res_name='ASP')
        o.attrs['determinants'] = {'sidechain': [], 'backbone': [], 'coulomb': []}
        return o

    def setup(ctx):
        o1, o2 = mk('o1'), mk('o2')
        hb, cv = R('hbond'), R('coulomb')
        ctx.assume(And(hb >= 0, cv >= 0))
        inter = [[None, None], [hb, cv], [R('ann0'), R('ann1')]]
        return o1, o2, hb, cv, inter

    def t_acid(ex, ctx):
        o1, o2, hb, cv, inter = setup(ctx)
        ex.call_function(repo.func(IT + 'add_iterative_acid_pair'), [o1, o2, inter])
        c = o1.attrs['determinants']['coulomb'] + o2.attrs['determinants']['coulomb']
        s1, s2 = o1.attrs['determinants']['sidechain'], o2.attrs['determinants']['sidechain']
        ok = len(c) == 1 and len(s1) == 1 and len(s2) == 1
        ctx.oblige('iterative acid pair: one Coulomb term +coulomb (destabilising), side-chain terms +-hbond, |.| within the inputs',
                   And(c[0][1] == cv, s1[0][1] == -1 * s2[0][1], Or(s1[0][1] == hb, s1[0][1] == -1 * hb)) if ok else False)
    if not presence_only:
        pr.explore(ex, t_acid, 'add_iterative_acid_pair')

    def t_base(ex, ctx):
        o1, o2, hb, cv, inter = setup(ctx)
        ex.call_function(repo.func(IT + 'add_iterative_base_pair'), [o1, o2, inter])
        c = o1.attrs['determinants']['coulomb'] + o2.attrs['determinants']['coulomb']
        s1, s2 = o1.attrs['determinants']['sidechain'], o2.attrs['determinants']['sidechain']
        ok = len(c) == 1 and len(s1) == 1 and len(s2) == 1
        ctx.oblige('iterative base pair: one Coulomb term -coulomb (like charges lower a base), side-chain terms +-hbond',
                   And(c[0][1] == -1 * cv, s1[0][1] == -1 * s2[0][1], Or(s1[0][1] == hb, s1[0][1] == -1 * hb)) if ok else False)
    if not presence_only:
        pr.explore(ex, t_base, 'add_iterative_base_pair')

    import ast as _ast
    MINV = _ast.literal_eval(repo.module('propka.iterative').assigns['UNK_MIN_VALUE'])

    def make_t_ion(excluded):
        def t_ion(ex, ctx):
            o1, o2, hb, cv, inter = setup(ctx)
            o2.attrs['res_name'] = 'HIS'
            q1, q2 = o1.attrs['q'], o2.attrs['q']
            ctx.assume(And(Or(q1 == 1, q1 == -1), q2 == -1 * q1))
            p = record('P', None, exclude_sidechain_interactions=list(excluded))
            version = record('version', None, parameters=p)
            ann0, ann1 = inter[2][0], inter[2][1]
            # provisional pKa of each partner; the term is added when the acid's lies below the base's
            comp1 = o1.attrs['pka_old'] + ann0 + q1 * cv + (0 if 'ASP' in excluded else q1 * hb)
            comp2 = o2.attrs['pka_old'] + ann1 + q2 * cv + (0 if 'HIS' in excluded else q2 * hb)
            add = Or(And(q1 == -1, comp1 < comp2), And(q1 == 1, comp2 < comp1))
            ex.call_function(repo.func(IT + 'add_iterative_ion_pair'), [o1, o2, inter, version])
            c1, c2 = o1.attrs['determinants']['coulomb'], o2.attrs['determinants']['coulomb']
            s1, s2 = o1.attrs['determinants']['sidechain'], o2.attrs['determinants']['sidechain']
            conj = [len(c1) == len(c2), len(c1) <= 1, len(s1) <= 1, len(s2) <= 1]
            if len(c1) == 1 and len(c2) == 1 and not presence_only:
                conj.append(And(c1[0][1] == q1 * cv, c2[0][1] == q2 * cv, c1[0][1] == -1 * c2[0][1]))
            for s_, q in ((s1, q1), (s2, q2)):
                for x in s_:
                    if not presence_only:
                        conj.append(x[1] == q * hb)
            # which terms exist: Coulomb and hydrogen-bond terms are decided independently of each other; the exclusion list only
            # concerns the side-chain term of the excluded residue
            big_c, big_h = cv > Sym(real_val(MINV)), hb > Sym(real_val(MINV))
            conj.append(Sym(to_bool(len(c1) == 1)) == Sym(to_bool(And(add, big_c))))
            conj.append(Sym(to_bool(len(s1) == 1)) == Sym(to_bool(And(add, big_h) if 'ASP' not in excluded else False)))
            conj.append(Sym(to_bool(len(s2) == 1)) == Sym(to_bool(And(add, big_h) if 'HIS' not in excluded else False)))
            ctx.oblige('iterative acid-base pair [excluded from side-chain interactions: %s]: Coulomb terms q1*coulomb and q2*coulomb on '
                       'BOTH partners (equal and opposite) iff the pair is accepted and coulomb > threshold; side-chain terms q*hbond '
                       'iff accepted, hbond > threshold and that residue type is not excluded' % (list(excluded) or 'none'), And(*conj))
        return t_ion
    for excluded in ((), ('ASP',), ('HIS',)):
        pr.explore(ex, make_t_ion(excluded), 'add_iterative_ion_pair %s' % (excluded,))


def task_exceptions(pr, repo):
    ex = Executor(repo)
    pr.under_contract(repo.func(E + 'check_coo_coo_exception'))
    pr.under_contract(repo.func(E + 'check_coo_arg_exception'))
    from pyvc.core import Builtin
    A = repo.cls('propka.atom.Atom')

    def common(ctx):
        dmax, c0, c1 = R('dpka_max'), R('cut0'), R('cut1')
        ctx.assume(And(c0 < c1, dmax > 0))
        p = sym_params(ctx)
        p.attrs['angular_dependent_sidechain_interactions'] = ['HIS', 'ARG', 'AMD', 'TRP']
        version = record('version', None, parameters=p)
        version.attrs['get_hydrogen_bond_parameters'] = Builtin('hbp', lambda ex, *a, **k: [dmax, [c0, c1]])
        return dmax, version

    def t_coo(ex, ctx):
        dmax, version = common(ctx)
        a1, a2 = xyz('a1', A), xyz('a2', A)
        g1, g2 = sym_group(repo, 'g1'), sym_group(repo, 'g2')
        g1.attrs['get_interaction_atoms'] = Builtin_list([a1])
        g2.attrs['get_interaction_atoms'] = Builtin_list([a2])
        dist = R('dist')
        ctx.assume(dist >= 0)
        ex.contracts['propka.calculations.get_smallest_distance'] = lambda ex, ctx, fi_, a, k, so: [a1, dist, a2]
        exc, v = ex.call_function(repo.func(E + 'check_coo_coo_exception'), [g1, g2, version])
        ctx.oblige('COO-COO exception value in [0, 2 * side-chain maximum]', And(v >= 0, v <= 2 * dmax))
    pr.explore(ex, t_coo, 'check_coo_coo_exception')

    def t_arg(ex, ctx):
        dmax, version = common(ctx)
        h = xyz('heavy', A)
        coo = [xyz('o1', A), xyz('o2', A)]
        arg = [xyz('h1', A, bonded_atoms=[h]), xyz('h2', A, bonded_atoms=[h])]
        g1, g2 = sym_group(repo, 'gcoo'), sym_group(repo, 'garg', type='ARG')
        g1.attrs['get_interaction_atoms'] = Builtin_list(coo)
        g2.attrs['get_interaction_atoms'] = Builtin_list(arg)
        calls = []

        def gsd(ex, ctx, fi_, a, k, so):
            i = len(calls)
            calls.append(i)
            d = ctx.fresh('dist')
            ctx.assume(d >= 0, kind='def')
            l1, l2 = a[0], a[1]
            return [l1[0] if l1 else None, d, l2[0] if l2 else None]
        ex.contracts['propka.calculations.get_smallest_distance'] = gsd

        def adf(ex, ctx, fi_, a, k, so):
            fa = ctx.fresh('f_angle')
            ctx.assume(And(fa <= 1, fa >= -1), kind='def')
            return (ctx.fresh('d12'), fa, ctx.fresh('d23'))
        ex.contracts[E + 'angle_distance_factors'] = adf
        exc, v = ex.call_function(repo.func(E + 'check_coo_arg_exception'), [g1, g2, version])
        ctx.oblige('COO-ARG exception value in [0, 2 * side-chain maximum]', And(v >= 0, v <= 2 * dmax))
    pr.explore(ex, t_arg, 'check_coo_arg_exception')


def task_exception_dispatch(pr, repo):
    """XD: check_exceptions is symmetric in the order of the two groups and returns a non-negative value from the declared
    exception parameters (the sub-routines for COO-ARG / COO-COO are under contract in task_exceptions)."""
    ex = Executor(repo)
    for n in ('check_exceptions', 'check_coo_his_exception', 'check_oco_his_exception', 'check_cys_his_exception',
              'check_cys_cys_exception', 'check_buried', 'electrostatic_interaction', 'check_coulomb_pair'):
        pr.under_contract(repo.func(E + n))
    import ast as _ast
    asg = repo.module('propka.energy').assigns
    BUR = {k: _ast.literal_eval(asg[k]) for k in ('COMBINED_NUM_BURIED_MAX', 'SEPARATE_NUM_BURIED_MAX')}
    fi = repo.func(E + 'check_exceptions')
    types = ['COO', 'ARG', 'HIS', 'CYS', 'OCO', 'LYS']
    names = {'COO_HIS_exception': ('COO', 'HIS'), 'OCO_HIS_exception': ('OCO', 'HIS'), 'CYS_HIS_exception': ('CYS', 'HIS'),
             'CYS_CYS_exception': ('CYS', 'CYS')}
    for i, t1 in enumerate(types):
        for t2 in types[i:]:
            def thunk(ex, ctx, t1=t1, t2=t2):
                pv = {k: R(k) for k in names}
                for v in pv.values():
                    ctx.assume(v >= 0)          # ground fact GR(exception parameters >= 0)
                p = record('P', None, **pv)
                version = record('version', None, parameters=p)
                g1 = record('g1', None, type=t1, num_volume=I('nv1'))
                g2 = record('g2', None, type=t2, num_volume=I('nv2'))
                ctx.assume(And(I('nv1') >= 0, I('nv2') >= 0))
                sub = {}

                def helper(kind):
                    def f(ex_, ctx_, fi_, a, k, so):
                        # contract of the geometric sub-routine: a result that depends on the (COO, partner) pair only
                        key = (kind, a[0].name, a[1].name)
                        if key not in sub:
                            v = R('val_%s' % kind)
                            ctx_.assume(v >= 0, kind='def')
                            sub[key] = (B('exc_%s' % kind), v)
                        return sub[key]
                    return f
                ex.contracts[E + 'check_coo_arg_exception'] = helper('coo_arg')
                ex.contracts[E + 'check_coo_coo_exception'] = helper('coo_coo')
                e12, v12 = ex.call_function(fi, [version, g1, g2])
                e21, v21 = ex.call_function(fi, [version, g2, g1])
                if t1 == t2 == 'COO':
                    # the COO-COO routine is called with the groups in the given order; its own symmetry is geometric
                    # (closest pair of the same two atom lists) and is not claimed here
                    ctx.oblige('XD[COO, COO]: the COO-COO routine decides', len(sub) == 2)
                    return
                conj = [Sym(to_bool(e12)) == Sym(to_bool(e21))]
                if v12 is None or v21 is None:
                    conj.append(v12 is None and v21 is None and e12 is False)
                else:
                    conj += [v12 == v21, v12 >= 0]
                pair = {t1, t2}
                want = [k for k, tt in names.items() if set(tt) == pair]
                if want:
                    conj.append(v12 == pv[want[0]])
                    nv = I('nv1') + I('nv2')
                    buried = Not(And(nv <= BUR['COMBINED_NUM_BURIED_MAX'],
                                     Or(I('nv1') <= BUR['SEPARATE_NUM_BURIED_MAX'], I('nv2') <= BUR['SEPARATE_NUM_BURIED_MAX'])))
                    conj.append(Sym(to_bool(e12)) == Sym(to_bool(buried)))
                elif pair == {'COO', 'ARG'}:
                    conj.append(len(sub) == 1)
                else:
                    conj.append(e12 is False and v12 is None)
                ctx.oblige('XD[%s, %s]: same verdict and value for both orders of the pair; value = the declared exception parameter '
                           '(>= 0), applied iff the pair is buried; no exception for other pairs' % (t1, t2), And(*conj))
            pr.explore(ex, thunk, 'check_exceptions %s/%s' % (t1, t2))

    def t_elec(ex, ctx):
        p = sym_params(ctx)
        g1 = record('g1', None, titratable=B('t1'), num_volume=I('nv1'))
        g2 = record('g2', None, titratable=B('t2'), num_volume=I('nv2'))
        ctx.assume(And(I('nv1') >= 0, I('nv2') >= 0))
        dist = R('dist')
        ctx.assume(dist >= 0)
        from pyvc.core import Builtin
        version = record('version', None, parameters=p)
        cp = repo.func(E + 'check_coulomb_pair')
        version.attrs['check_coulomb_pair'] = Builtin('ccp', lambda ex_, a, b, d: ex_.call_function(cp, [p, a, b, d]))
        w = R('weight')
        ctx.assume(And(w >= 0, w <= 1))           # contract of calculate_pair_weight (task_scalars)
        cv = R('coulomb')
        ctx.assume(cv >= 0)                       # contract of coulomb_energy (task_scalars)
        version.attrs['calculate_pair_weight'] = Builtin('cpw', lambda ex_, a, b: w)
        version.attrs['calculate_coulomb_energy'] = Builtin('cce', lambda ex_, d, ww: cv)
        f = repo.func(E + 'electrostatic_interaction')
        r12 = ex.call_function(f, [g1, g2, dist, version])
        r21 = ex.call_function(f, [g2, g1, dist, version])
        # at dist == coulomb_cutoff2 exactly the Coulomb energy is 0 (task_scalars), so either verdict is right there
        inner = And(B('t1'), B('t2'), dist < p.attrs['coulomb_cutoff2'], I('nv1') + I('nv2') >= p.attrs['Nmin'])
        outer = And(B('t1'), B('t2'), dist <= p.attrs['coulomb_cutoff2'], I('nv1') + I('nv2') >= p.attrs['Nmin'])
        if r12 is None or r21 is None:
            ctx.oblige('EI: no Coulomb term only if a group is not titratable, the distance reaches coulomb_cutoff2 or the pair is '
                       'too exposed (same verdict for both orders)', And(r12 is None and r21 is None, Not(inner)))
        else:
            ctx.oblige('EI: a Coulomb term (>= 0, the same for both orders) only if both titratable, within coulomb_cutoff2, '
                       'buried enough', And(outer, r12 == r21, r12 >= 0))
    pr.explore(ex, t_elec, 'electrostatic_interaction')


def task_version_dispatch(pr, repo):
    """VD: the Version object the determinants go through forwards every call to the energy routine under contract above, with the
    arguments in the order that routine expects (so the sign / bound contracts reach the determinant constructors)."""
    ex = Executor(repo)
    VM = 'propka.version.'
    for n in ('Version.__init__', 'VersionA.__init__', 'Version.calculate_desolvation', 'Version.calculate_pair_weight',
              'Version.hydrogen_bond_interaction', 'Version.calculate_side_chain_energy', 'Version.electrostatic_interaction',
              'Version.calculate_coulomb_energy', 'Version.check_coulomb_pair', 'Version.calculate_backbone_reorganization',
              'Version.check_exceptions', 'Version.setup_bonding_and_protonation', 'VersionA.get_hydrogen_bond_parameters',
              'VersionA.get_backbone_hydrogen_bond_parameters'):
        pr.under_contract(repo.func(VM + n))
    want = {  # wrapper -> (routine, argument pattern); P = parameters, V = the version object, digits = wrapper arguments
        'calculate_desolvation': ('propka.energy.radial_volume_desolvation', 'P0'),
        'calculate_pair_weight': ('propka.energy.calculate_pair_weight', 'P01'),
        'hydrogen_bond_interaction': ('propka.energy.hydrogen_bond_interaction', '01V'),
        'calculate_side_chain_energy': ('propka.energy.hydrogen_bond_energy', '0124'),
        'electrostatic_interaction': ('propka.energy.electrostatic_interaction', '012V'),
        'calculate_coulomb_energy': ('propka.energy.coulomb_energy', '01P'),
        'check_coulomb_pair': ('propka.energy.check_coulomb_pair', 'P012'),
        'calculate_backbone_reorganization': ('propka.energy.backbone_reorganization', 'P0'),
        'check_exceptions': ('propka.energy.check_exceptions', 'V01'),
        'setup_bonding_and_protonation': ('propka.hydrogens.setup_bonding_and_protonation', '0'),
    }
    nargs = {'calculate_desolvation': 1, 'calculate_pair_weight': 2, 'hydrogen_bond_interaction': 2, 'calculate_side_chain_energy': 5,
             'electrostatic_interaction': 3, 'calculate_coulomb_energy': 2, 'check_coulomb_pair': 3,
             'calculate_backbone_reorganization': 1, 'check_exceptions': 2, 'setup_bonding_and_protonation': 1}
    classes = ['VersionA'] if pr.tier == 'quick' else ['VersionA', 'SimpleHB', 'ElementBasedLigandInteractions']
    for cname in classes:
        for wname, (target, pattern) in want.items():
            def thunk(ex, ctx, cname=cname, wname=wname, target=target, pattern=pattern):
                params = record('P', None)
                seen = []
                for t in {v[0] for v in want.values()}:
                    ex.contracts[t] = (lambda t: lambda ex_, ctx_, fi_, a, k, so: (seen.append((t, list(a), dict(k))), record('ret', None))[1])(t)
                v = ex.instantiate(repo.cls(VM + cname), [params], {})
                args = [record('arg%d' % i, None) for i in range(nargs[wname])]
                ret = ex.call(ex.getattr(v, wname), args, {})
                exp = [params if c == 'P' else v if c == 'V' else args[int(c)] for c in pattern]
                ok = (len(seen) == 1 and seen[0][0] == target and not seen[0][2] and len(seen[0][1]) == len(exp)
                      and all(x is y for x, y in zip(seen[0][1], exp)) and isinstance(ret, Obj) and ret.name == 'ret')
                ctx.oblige('VD[%s.%s]: forwards to %s with arguments %s and returns its result' % (cname, wname, target, pattern), ok)
            pr.explore(ex, thunk, 'version dispatch %s.%s' % (cname, wname))

    task_version_hb(pr, repo, ex)


def task_version_hb(pr, repo, ex=None):
    """H-bond parameter look-ups of the Version object (own parameters; other group types: None, never an exception)."""
    VM = 'propka.version.'
    if ex is None:
        ex = Executor(repo)
        for n in ('VersionA.get_hydrogen_bond_parameters', 'VersionA.get_backbone_hydrogen_bond_parameters'):
            pr.under_contract(repo.func(VM + n))

    def t_hb(ex, ctx):
        dmax = R('sidechain_interaction')
        calls = []
        cut = record('cutoffs', None)

        def get_value(ex_, a, b):
            calls.append((a, b))
            return [R('c0'), R('c1')]
        from pyvc.core import Builtin
        cut.attrs['get_value'] = Builtin('get_value', get_value)
        co = {'HIS': [R('co_v'), R('co_1'), R('co_2')]}
        nh = {'COO': [R('nh_v'), R('nh_1'), R('nh_2')]}
        params = record('P', None, sidechain_interaction=dmax, sidechain_cutoffs=cut, backbone_CO_hydrogen_bond=co,
                        backbone_NH_hydrogen_bond=nh)
        v = ex.instantiate(repo.cls(VM + 'VersionA'), [params], {})
        a1, a2 = record('a1', None, group_type='COO'), record('a2', None, group_type='HIS')
        r = ex.call(ex.getattr(v, 'get_hydrogen_bond_parameters'), [a1, a2], {})
        ctx.oblige('VD: side-chain H-bond parameters = (sidechain_interaction, cut-offs of the two GROUP TYPES from the pairwise table)',
                   len(calls) == 1 and set(calls[0]) == {'COO', 'HIS'} and r[0] is dmax and len(r[1]) == 2)
        # a second Version object made from OTHER parameters (another run in the same process) answers from its own parameters
        dmax2 = R('sidechain_interaction_2')
        cut2 = record('cutoffs2', None)
        cut2.attrs['get_value'] = Builtin('get_value2', lambda ex_, a, b: [R('c0_2'), R('c1_2')])
        params2 = record('P2', None, sidechain_interaction=dmax2, sidechain_cutoffs=cut2, backbone_CO_hydrogen_bond={},
                         backbone_NH_hydrogen_bond={})
        v2 = ex.instantiate(repo.cls(VM + 'VersionA'), [params2], {})
        r2 = ex.call(ex.getattr(v2, 'get_hydrogen_bond_parameters'), [a1, a2], {})
        r1b = ex.call(ex.getattr(v, 'get_hydrogen_bond_parameters'), [a1, a2], {})
        ctx.oblige('VD: H-bond parameters come from the parameters of THIS Version object - a second object built from other '
                   'parameters in the same process returns its own maximum and cut-offs, and the first keeps its own',
                   r2[0] is dmax2 and r1b[0] is dmax and isinstance(r2[1][0], Sym) and isinstance(r1b[1][0], Sym)
                   and And(r2[1][0] == R('c0_2'), r1b[1][0] == R('c0')))
        # ('COO', ...): an atom that a later group set-up relabelled (the OXT of a C-terminus whose carbonyl O is missing)
        for bt, gt, table in (('BBC', 'HIS', co), ('BBN', 'COO', nh), ('BBC', 'COO', None), ('BBN', 'HIS', None), ('COO', 'HIS', None),
                              ('COO', 'COO', None), ('ION', 'HIS', None)):
            bb, at = record('bb', None, group_type=bt), record('at', None, group_type=gt)
            try:
                r = ex.call(ex.getattr(v, 'get_backbone_hydrogen_bond_parameters'), [bb, at], {})
            except PyRaise as e:
                ctx.oblige('VD: backbone H-bond parameters [%s, %s]: the look-up raises %s' % (bt, gt, e.exc_name), False)
                continue
            if table is None:
                ok = r is None
            else:
                row = table[gt]
                ok = r is not None and r[0] is row[0] and r[1][0] is row[1] and r[1][1] is row[2]
            ctx.oblige('VD: backbone H-bond parameters [%s, %s]: C=O acceptors use the CO table, N-H donors the NH table, row of the '
                       'partner group type as (value, [inner, outer]); no row -> no interaction' % (bt, gt), ok)
    pr.explore(ex, t_hb, 'version H-bond parameters')


def task_coupling_effects(pr, repo):
    """CE: in every covalently coupled system the groups whose label is returned as penalised are exactly the groups that are marked
    'discarded due to coupling' (so that a group whose determinants are removed from its partners is not itself still reported with
    its own half of the pair), and exactly one group per system keeps titrating."""
    from pyvc.core import Builtin
    ex = Executor(repo)
    CCn = 'propka.conformation_container.ConformationContainer'
    fi = repo.func(CCn + '.coupling_effects')
    pr.under_contract(fi)
    Gc = repo.cls('propka.group.Group')
    layouts = {'N+ and CYS (base + acid, acid has the highest pKa)': [('N+    1 A', 1.0, 8.0), ('CYS   1 A', -1.0, 9.5)],
               'N+ and ASP (base has the highest pKa)': [('N+    7 I', 1.0, 7.6), ('ASP   7 I', -1.0, 2.5)],
               'two acids': [('OCO   1 L', -1.0, 4.0), ('OCO   2 L', -1.0, 3.0)],
               'three bases': [('N31   1 L', 1.0, 9.0), ('N32   2 L', 1.0, 7.0), ('N33   3 L', 1.0, 8.0)]}
    for what, spec in layouts.items():
        def thunk(ex, ctx, what=what, spec=spec):
            gs = [record('g%d' % i, Gc, label=l, charge=q, pka_value=pk, coupled_titrating_group=None,
                         atom=record('a%d' % i, repo.cls('propka.atom.Atom'), type='atom', res_num=i)) for i, (l, q, pk) in enumerate(spec)]
            conf = record('conf', repo.cls(CCn), parameters=record('P', None, shared_determinants=False), groups=list(gs))
            ex.contracts[CCn + '.get_coupled_systems'] = lambda ex_, c_, f_, a, k, so: [list(gs)]
            ex.contracts[CCn + '.get_covalently_coupled_groups'] = lambda ex_, c_, f_, a, k, so: list(gs)
            labels = ex.call_function(fi, [], self_obj=conf)
            marked = [g.attrs['label'] for g in gs if g.attrs['coupled_titrating_group'] is not None]
            ctx.oblige('CE[%s]: penalised labels == labels of the groups marked as discarded; all but one group of the system' % what,
                       sorted(labels) == sorted(marked) and len(marked) == len(gs) - 1
                       and all(g.attrs['coupled_titrating_group'] is not g for g in gs))
        pr.explore(ex, thunk, 'coupling_effects ' + what)


def task_set_determinant(pr, repo):
    """SD: Group.set_determinant (used when covalently coupled groups share their determinants) REPLACES the value of an existing
    determinant from the same partner - it never adds to it (the single-determinant bounds survive sharing) - and appends otherwise."""
    ex = Executor(repo)
    fi = repo.func('propka.group.Group.set_determinant')
    pr.under_contract(fi)

    def thunk(ex, ctx):
        partner = C02.mkgroup(repo, 'partner', (0, 0, 0), label='ASP  27 A')
        other = C02.mkgroup(repo, 'other', (0, 0, 0), label='LYS  10 A')
        for g_ in (partner, other):
            g_.attrs['atom'].attrs.update(type='atom')
        g = C02.mkgroup(repo, 'g', (0, 0, 0), label='N1   MTX A')
        old = C02.mkdet(repo, 'old', group=partner, label='ASP  27 A')
        g.attrs['determinants']['coulomb'].append(old)
        new = C02.mkdet(repo, 'new', group=partner, label='ASP  27 A')
        ex.call_function(fi, [new, 'coulomb'], self_obj=g)
        d = g.attrs['determinants']['coulomb']
        ok = len(d) == 1
        ctx.oblige('SD: an existing determinant from the same partner takes the new value (not the sum)',
                   And(ok, d[0].attrs['value'] == new.attrs['value']) if ok else False)
        new2 = C02.mkdet(repo, 'new2', group=other, label='LYS  10 A')
        ex.call_function(fi, [new2, 'coulomb'], self_obj=g)
        ok2 = len(d) == 2
        ctx.oblige('SD: a determinant from a new partner is appended with its value',
                   And(ok2, d[1].attrs['value'] == new2.attrs['value'], d[0].attrs['value'] == new.attrs['value']) if ok2 else False)
    pr.explore(ex, thunk, 'Group.set_determinant')


def task_average_bounds(pr, repo):
    # the reported average keeps the bounds: every averaged quantity (buried fraction, desolvation terms, determinants) is the arithmetic
    # mean of values that satisfy them (C08-AV, 'means' clauses)
    from . import C08
    C08.task_average(pr, repo, 2, clauses=('means',))


def run(pr, repo):
    ground_facts(pr)
    pr.parallel([(task_scalars, ()), (task_desolvation, ()), (task_reorganization, ()), (task_coulomb_pairs, ()),
                 (task_ion_backbone, ()), (task_iterative, ()), (task_exceptions, ()), (task_exception_dispatch, ()), (task_version_dispatch, ()), (task_coupling_effects, ()), (task_set_determinant, ()),
                 # the signs fixed when a determinant is created must survive the temporary swaps of the coupling analysis:
                 # every swap is undone exactly (C02/C15 obligations on swap_interactions / transfer_determinant)
                 (C02.task_swap, ()), (C02.task_swap_once, ()),
                 # ... and the conformation average, which must leave the conformations' own determinants untouched
                 (C02.task_average, ()), (C02.task_sequencing, ()), (task_average_bounds, ())])
    bounded(pr)


def bounded(pr):
    """Bounded: sign/bound monitor over all determinants of real runs."""
    from . import native
    p = cfg.parameters()
    names = ['1HPX', '3SGB-subset', 'sample-issue-140'] if pr.tier == 'quick' else \
        ['1HPX', '3SGB', '4DFR', '1FTJ-Chain-A', 'sample-issue-140', '3SGB-subset', '1HPX-warn']
    cmax = 244.12 / (30 * p.coulomb_cutoff1)
    smax = max(2 * p.sidechain_interaction, p.COO_HIS_exception, p.OCO_HIS_exception, p.CYS_HIS_exception, p.CYS_CYS_exception)
    bmax = max(abs(v[0]) for v in list(p.backbone_CO_hydrogen_bond.values()) + list(p.backbone_NH_hydrogen_bond.values()))
    ev, viol, kinds = 0, [], set()
    for name in names:
        mol = native.run_text(native.pdb_lines(name))
        for cname in list(mol.conformation_names) + ['AVR']:
            for g in mol.conformations[cname].groups:
                if not g.titratable and g.residue_type not in p.ions:
                    continue
                q = g.charge
                bad = []
                if not (0 <= g.buried <= 1):
                    bad.append('buried %r' % g.buried)
                if (q < 0 and g.energy_volume < -1e-12) or (q > 0 and g.energy_volume > 1e-12):
                    bad.append('desolvation %r with charge %r' % (g.energy_volume, q))
                if (q < 0 and g.energy_local < -1e-12) or (q > 0 and g.energy_local > 1e-12):
                    bad.append('local desolvation %r with charge %r' % (g.energy_local, q))
                if cname == 'AVR':
                    # entries of equally labelled partners are merged in the average: only the group's own quantities are bounded here
                    if bad and len(viol) < 3:
                        viol.append({'what': '%s %s %s: %s' % (name, cname, g.label, '; '.join(bad[:3])), 'replay': None})
                    continue
                for d in g.determinants['backbone']:
                    ev += 1
                    kinds.add(('bb', q > 0))
                    if (q < 0 and d.value > 1e-12) or (q > 0 and d.value < -1e-12) or abs(d.value) > bmax + 1e-9:
                        bad.append('backbone determinant %r' % d.value)
                for d in g.determinants['coulomb']:
                    ev += 1
                    oq = getattr(d.group, 'charge', None) if hasattr(d.group, 'charge') else d.group.q
                    ort = getattr(d.group, 'residue_type', None) or getattr(d.group, 'res_name', '')
                    kinds.add(('coul', q > 0, oq > 0))
                    lim = cmax * (abs(oq) if ort in p.ions else 1) + 1e-9
                    like = (q > 0) == (oq > 0)
                    want_pos = (q < 0) if like else (q > 0)
                    if abs(d.value) > lim or (want_pos and d.value < -1e-12) or (not want_pos and d.value > 1e-12):
                        bad.append('coulomb determinant %r from %s (charges %r, %r)' % (d.value, d.group.label, q, oq))
                for d in g.determinants['sidechain']:
                    ev += 1
                    kinds.add(('sc', q > 0))
                    if abs(d.value) > smax + 1e-9:
                        bad.append('side-chain determinant %r exceeds %r' % (d.value, smax))
                if bad and len(viol) < 3:
                    viol.append({'what': '%s %s %s: %s' % (name, cname, g.label, '; '.join(bad[:3])), 'replay': None})
    pr.bounded.append({'name': 'C16-monitor: signs and bounds of every determinant in real runs', 'evaluations': ev,
                       'distinct_nontrivial': len(kinds), 'bound': '%d structures, all conformations' % len(names),
                       'rule': 'every determinant checked; distinct = (kind, sign of charges) classes', 'violations': viol})
