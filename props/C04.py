"""C04 - predictions do not depend on where the structure sits in space.

  SQ  squared_distance(Pa+t, Pb+t) == squared_distance(a, b) for all 24 proper signed permutations P and every
      translation t (ring identities on the real function); distance, get_smallest_distance, check_distance,
      desolvation, ion and pair cut-offs read coordinates ONLY through it (frame census FR)                   (TOP)
  VE  Vector(atom1, atom2), Group.set_center: equivariant (result of the moved input == moved result)         (TOP)
  AD  angle_distance_factors: the three factors are invariant                                                   (TOP)
  BX  bond search independent of the placement relative to the cell grid (C11-BX, cell lemma)                  (TOP)
  HY  hydrogen placement equivariant before the 0.001 rounding (C17-EQ); rounding bounded by 0.0005 (C17-AP);
      Vector.orthogonal (frame dependent) is called only in the two 1-bond placements (call-site census)       (TOP)
  CO  coordinates come from columns 31-54 only (C07-CO)                                                        (TOP, frame)
"""
import ast as _ast

import os
from .common import *   # noqa: F401,F403
from . import frames, C11, C17, C07, C20, reader
from pyvc.values import real_val

XYZ_READERS = {
    'propka.atom.Atom.make_copy', 'propka.atom.Atom.make_pdb_line', 'propka.atom.Atom.make_mol2_line', 'propka.atom.Atom.__str__',
    'propka.bonds.BondMaker.find_bonds_for_atoms_using_boxes', 'propka.calculations.squared_distance',
    'propka.conformation_container.ConformationContainer.set_common_charge_centres', 'propka.energy.angle_distance_factors',
    'propka.energy.backbone_reorganization', 'propka.group.Group.set_center', 'propka.hydrogens.protonate_average_direction',
    'propka.hydrogens.protonate_direction', 'propka.hydrogens.protonate_sp2', 'propka.protonate.Protonate.add_proton',
    'propka.vector_algebra.Matrix4x4.__matmul__', 'propka.vector_algebra.Vector.__add__', 'propka.vector_algebra.Vector.__init__',
    'propka.vector_algebra.Vector.__mul__', 'propka.vector_algebra.Vector.__neg__', 'propka.vector_algebra.Vector.__str__',
    'propka.vector_algebra.Vector.__sub__', 'propka.vector_algebra.Vector.cross', 'propka.vector_algebra.Vector.dot',
    'propka.vector_algebra.Vector.orthogonal', 'propka.vector_algebra.Vector.rescale', 'propka.vector_algebra.Vector.sq_length',
    'propka.vector_algebra.rotate_vector_around_an_axis'}


def moved(P_, t, v):
    w = C17.apply(P_, v)
    return [w[i] + t[i] for i in range(3)]


def pts(n, prefix='p'):
    return [[R('%s%d%s' % (prefix, i, c)) for c in 'xyz'] for i in range(n)]


def atom_at(repo, name, p):
    A = repo.cls('propka.atom.Atom')
    return record(name, A, x=p[0], y=p[1], z=p[2])


def task_invariance(pr, repo):
    ex = Executor(repo)
    Ps = C17.perms24()
    sample = Ps if pr.tier == 'thorough' else Ps[::3]
    for n in ('propka.calculations.squared_distance', 'propka.vector_algebra.Vector.__init__', 'propka.group.Group.set_center',
              'propka.energy.angle_distance_factors'):
        pr.under_contract(repo.func(n))
    V = repo.cls('propka.vector_algebra.Vector')
    G = repo.cls('propka.group.Group')
    t = [R('t' + c) for c in 'xyz']
    for idx, P_ in enumerate(sample):
        def thunk(ex, ctx, P_=P_):
            p = pts(3)
            a, b = atom_at(repo, 'a', p[0]), atom_at(repo, 'b', p[1])
            a2, b2 = atom_at(repo, 'a2', moved(P_, t, p[0])), atom_at(repo, 'b2', moved(P_, t, p[1]))
            f = repo.func('propka.calculations.squared_distance')
            ctx.oblige('SQ[P=%r]: squared_distance is unchanged by the motion' % (P_,),
                       ex.call_function(f, [a, b]) == ex.call_function(f, [a2, b2]), meta={'ring': True})
            v1 = ex.instantiate(V, [], {'atom1': a, 'atom2': b})
            v2 = ex.instantiate(V, [], {'atom1': a2, 'atom2': b2})
            w = C17.apply(P_, [v1.attrs[c] for c in 'xyz'])
            ctx.oblige('VE[P=%r]: the inter-atomic vector of the moved atoms is the rotated vector (translation drops out)' % (P_,),
                       And(*[v2.attrs[c] == w[i] for i, c in enumerate('xyz')]), meta={'ring': True})
            c3, c32 = atom_at(repo, 'c', p[2]), atom_at(repo, 'c2', moved(P_, t, p[2]))
            g1 = record('g1', G, x=0.0, y=0.0, z=0.0)
            g2 = record('g2', G, x=0.0, y=0.0, z=0.0)
            ex.call_function(repo.func('propka.group.Group.set_center'), [[a, b, c3]], self_obj=g1)
            ex.call_function(repo.func('propka.group.Group.set_center'), [[a2, b2, c32]], self_obj=g2)
            m = moved(P_, t, [g1.attrs[c] for c in 'xyz'])
            ctx.oblige('VE[P=%r]: Group.set_center of the moved atoms is the moved centre' % (P_,),
                       And(*[g2.attrs[c] == m[i] for i, c in enumerate('xyz')]), meta={'ring': True})
        pr.explore(ex, thunk, 'invariance %r' % (P_,))
    for idx, P_ in enumerate(sample[:4] if pr.tier == 'quick' else sample):
        def t_ad(ex, ctx, P_=P_):
            p = pts(3)
            f = repo.func('propka.energy.angle_distance_factors')
            for i in (0, 2):
                d = [p[i][c] - p[1][c] for c in range(3)]
                ctx.assume(d[0] * d[0] + d[1] * d[1] + d[2] * d[2] > Sym(real_val(0.01)))
            try:
                r1 = ex.call_function(f, [atom_at(repo, 'a', p[0]), atom_at(repo, 'b', p[1]), atom_at(repo, 'c', p[2])])
                r2 = ex.call_function(f, [atom_at(repo, 'a2', moved(P_, t, p[0])), atom_at(repo, 'b2', moved(P_, t, p[1])),
                                          atom_at(repo, 'c2', moved(P_, t, p[2]))])
            except PyRaise as e:
                if e.exc_name == 'ZeroDivisionError':
                    raise Infeasible()
                raise
            ctx.oblige('AD[P=%r]: both distances of angle_distance_factors are unchanged by the motion' % (P_,),
                       And(r1[0] == r2[0], r1[2] == r2[2]))
            # f_angle = (u . v) / (d12 d23): numerators equal by ring, denominators are the same terms
            ctx.oblige('AD[P=%r]: the angle factor is unchanged by the motion' % (P_,),
                       r1[1] * r1[0] * r1[2] == r2[1] * r2[0] * r2[2])
            ctx.oblige_from('AD[P=%r]: ... hence f_angle itself' % (P_,),
                            [r1[1] * r1[0] * r1[2] == r2[1] * r2[0] * r2[2], r1[0] == r2[0], r1[2] == r2[2], r1[0] > 0, r1[2] > 0],
                            r1[1] == r2[1], kind='top')
        pr.explore(ex, t_ad, 'angle_distance_factors %r' % (P_,))


def ground_callsites(pr, repo):
    """orthogonal() is frame dependent: census of its call sites."""
    sites = []
    for m in repo.all_modules():
        for fname, fi in list(m.functions.items()) + [(c.name + '.' + k, v) for c in m.classes.values() for k, v in c.methods.items()]:
            for n in _ast.walk(fi.node):
                if isinstance(n, _ast.Call) and isinstance(n.func, _ast.Attribute) and n.func.attr == 'orthogonal':
                    sites.append('%s.%s' % (m.name, fname))
    want = ['propka.protonate.Protonate.tetrahedral', 'propka.protonate.Protonate.trigonal']
    pr.add(Ground('HY: Vector.orthogonal() (not equivariant) is called only from the 1-bond branches of trigonal/tetrahedral (terminal '
                  'rotatable hydrogens)', sorted(sites) == want, detail=str(sites), kind='aux',
                  backend='frame-checker'))
    # ... which the property excuses for hetero groups only.  Nothing in the 1-bond trigonal branch asks what kind of atom it is: a
    # backbone nitrogen whose preceding residue is missing (chain break) has CA as its only neighbour and gets its amide hydrogen from
    # orthogonal() as well - known finding D16 (replayed on the real code on every run)
    src = _ast.unparse(repo.func('propka.protonate.Protonate.trigonal').node)
    guarded = 'hetatm' in src or '.type' in src
    pr.add(Ground('HY(property form): a hydrogen built on an amino-acid atom never takes its direction from Vector.orthogonal() - also '
                  'after a chain break', guarded or 'orthogonal' not in src, kind='top', backend='frame-checker',
                  detail='Protonate.trigonal, 1-bond branch: "else: axis = avec.orthogonal()" is reached by a backbone N after a chain break',
                  replay=CHAIN_BREAK_REPLAY % {'verif': os.path.dirname(os.path.dirname(os.path.abspath(__file__)))}))

    # BO: an atom's bond list is in the order in which the box search met the pairs, which depends on the cells the atoms fall into
    # (the pose).  A geometric result may therefore take `X.bonded_atoms[k]` only where X has a single neighbour: a hydrogen, i.e.
    # inside `if X.element == 'H':`.  (propka.ligand types hetero atoms - outside the pKa claim for amino-acid structures.)
    unguarded, guarded_n = [], 0
    for m in repo.all_modules():
        if m.name in ('propka.ligand', 'propka.protonate'):
            # ligand: hetero-atom typing.  protonate: the placement routines index the bond list of the atom they build on (one
            # neighbour: unambiguous; two: used symmetrically; the one-neighbour branch looks at the NEIGHBOUR's list - D16); their
            # order dependence is not classified by this census (stated in the assumptions)
            continue
        for fname, fi in list(m.functions.items()) + [(c.name + '.' + k, v) for c in m.classes.values() for k, v in c.methods.items()]:
            parents = {}
            for n in _ast.walk(fi.node):
                for ch in _ast.iter_child_nodes(n):
                    parents[id(ch)] = n
            for n in _ast.walk(fi.node):
                if not (isinstance(n, _ast.Subscript) and isinstance(n.value, _ast.Attribute) and n.value.attr == 'bonded_atoms'
                        and isinstance(n.slice, _ast.Constant) and isinstance(n.slice.value, int)):
                    continue
                recv = _ast.unparse(n.value.value)
                ok, cur = False, n
                while id(cur) in parents:
                    par = parents[id(cur)]
                    if isinstance(par, _ast.If) and any(cur is b for b in par.body):
                        for t in _ast.walk(par.test):
                            if (isinstance(t, _ast.Compare) and len(t.ops) == 1 and isinstance(t.ops[0], _ast.Eq)
                                    and _ast.unparse(t.left) == recv + '.element' and isinstance(t.comparators[0], _ast.Constant)
                                    and t.comparators[0].value == 'H'):
                                ok = True
                    cur = par
                if ok:
                    guarded_n += 1
                else:
                    unguarded.append('%s.%s: %s' % (m.name, fname, _ast.unparse(n)))
    pr.add(Ground('BO: census of `X.bonded_atoms[k]` sites outside the hetero-atom typing', guarded_n + len(unguarded) > 0, kind='aux',
                  backend='frame-checker', detail='%d guarded by `X.element == "H"`, %d not' % (guarded_n, len(unguarded))))
    # one obligation per unguarded site, so that a known finding names its site and a new site is reported
    for site in sorted(set(unguarded)):
        pr.add(Ground('BO(property form)[%s]: outside the hetero-atom typing, `X.bonded_atoms[k]` is taken only of a hydrogen (guard '
                      '`X.element == "H"`) - never of an atom whose bond-list order depends on the pose' % site, False, kind='top',
                      backend='frame-checker', detail='unguarded site ' + site,
                      replay=ARG_ORDER_REPLAY % {'verif': os.path.dirname(os.path.dirname(os.path.abspath(__file__)))}))


CHAIN_BREAK_REPLAY = r'''
import sys, logging
sys.path.insert(0, %(verif)r)
logging.disable(logging.CRITICAL)
from props import native, C04
bad = C04.chain_break_differences()
print('\n'.join(bad) if bad else 'identical in all poses')
sys.exit(1 if bad else 0)
'''


def chain_break_differences(max_poses=6):
    """1HPX (amino-acid part) with residue A 26 removed: the amide hydrogen of GLY 27 A, hydrogen-bond partner of ASP 25 A, is then
    built on a nitrogen with a single neighbour.  Returns the differences between the original pose and moved copies."""
    from . import native
    lines = [l for l in native.pdb_lines('1HPX') if not l.startswith('HETATM')
             and not (l[:6] == 'ATOM  ' and l[21] == 'A' and int(l[22:26]) == 26)]
    base = native.record(native.run_text(lines))
    Ps = C17.perms24()
    out = []
    for P_ in Ps[1:1 + max_poses]:
        moved = []
        for l in lines:
            if l[:6] in ('ATOM  ', 'HETATM'):
                w = C17.apply(P_, [float(l[30:38]), float(l[38:46]), float(l[46:54])])
                l = l[:30] + '%8.3f%8.3f%8.3f' % (w[0] + 3.0, w[1] - 7.0, w[2] + 11.0) + l[54:]
            moved.append(l)
        d = native.diff_records(base, native.record(native.run_text(moved)), tol=0.02, keys=('pka',), dets=False)
        if d:
            out.append('pose %r: %s' % (P_, d[:2]))
    return out


ARG_ORDER_REPLAY = r"""
import sys, logging
sys.path.insert(0, %(verif)r)
logging.disable(logging.CRITICAL)
from props import native, C04
bad = C04.arg_bond_order_differences()
print('\n'.join(bad) if bad else 'identical in both poses')
sys.exit(1 if bad else 0)
"""


def arg_bond_order_differences():
    """ARG 8 A of 1HPX with a carboxylate oxygen 2.4 A from NE, off the guanidinium plane (NE is then the closest ARG atom, not a
    hydrogen): energy.check_coo_arg_exception takes its third atom from closest_arg_atom.bonded_atoms[0], and the order of NE's bond
    list (CD, CZ or CZ, CD) is the order in which the box search meets the pairs - it changes with the pose.  Returns the differences
    between the original pose and a copy turned by 180 degrees about z and shifted (known finding D19)."""
    from . import native
    lines = [l for l in native.pdb_lines('1HPX') if l.startswith('ATOM')]
    R = [l for l in lines if l[17:20] == 'ARG' and l[21] == 'A' and int(l[22:26]) == 8]
    D = [l for l in lines if l[17:20] == 'ASP' and l[21] == 'A' and int(l[22:26]) == 25]
    xyz = lambda l: [float(l[30:38]), float(l[38:46]), float(l[46:54])]     # noqa
    at = lambda rs, n: [xyz(l) for l in rs if l[12:16].strip() == n][0]     # noqa
    sub = lambda a, b: [a[i] - b[i] for i in range(3)]                      # noqa
    ne, cz, cd, od1 = at(R, 'NE'), at(R, 'CZ'), at(R, 'CD'), at(D, 'OD1')
    a, b = sub(cz, ne), sub(cd, ne)
    n = [a[1] * b[2] - a[2] * b[1], a[2] * b[0] - a[0] * b[2], a[0] * b[1] - a[1] * b[0]]
    ln, la = sum(c * c for c in n) ** 0.5, sum(c * c for c in a) ** 0.5
    target = [ne[i] + 2.2 * n[i] / ln - 1.0 * a[i] / la for i in range(3)]
    atoms = [(l, xyz(l)) for l in R] + [(l[:21] + 'B' + l[22:], [xyz(l)[i] + target[i] - od1[i] for i in range(3)]) for l in D]

    def text(sign, shift):
        return ['%s%5d%s%8.3f%8.3f%8.3f%s' % (l[:6], i + 1, l[11:30], sign[0] * q[0] + shift[0], sign[1] * q[1] + shift[1],
                                              sign[2] * q[2] + shift[2], l[54:]) for i, (l, q) in enumerate(atoms)]
    base = native.record(native.run_text(text((1, 1, 1), (0, 0, 0))))
    out = []
    for sign, shift in (((-1, -1, 1), (1.1, 0.0, 0.0)), ((-1, -1, 1), (1.2, 0.0, 0.0))):
        d = native.diff_records(base, native.record(native.run_text(text(sign, shift))), tol=0.02, keys=('pka',), dets=False)
        if d:
            out.append('turned by 180 degrees about z, shifted by %r: %s' % (shift, d[:2]))
    return out


def task_group_centres(pr, repo):
    """GC: every setup_atoms variant leaves the group centre set by Group.set_center (VE: equivariant) from atoms of the structure -
    never at a frame-fixed default such as the origin."""
    from pyvc.core import Builtin
    from pyvc.values import PyRaise
    ex = Executor(repo)
    mod = repo.module('propka.group')
    classes = [ci for ci in mod.classes.values() if 'setup_atoms' in ci.methods]
    A = repo.cls('propka.atom.Atom')
    for ci in classes:
        fi = ci.methods['setup_atoms']
        pr.under_contract(fi)

        def thunk(ex, ctx, ci=ci, fi=fi):
            main = record('main', A, element='O', name='OX')
            pool = [main]
            centre_calls = []

            def fresh(el):
                a = record('n%d' % len(pool), A, element=el, name=el + 'X')
                pool.append(a)
                return a

            seen_lists = {}

            def some(el, owner, lo=0, hi=3):
                n = I('n_%s_%d' % (el, len(pool)))
                ctx.assume(And(n >= lo, n <= hi))
                k = lo
                while k < hi and ctx.branch(n > k):
                    k += 1
                out = [fresh(el) for _ in range(k)]
                if owner is not main and el == 'O':
                    out.append(main)        # bonds are symmetric: the carboxyl carbon found from the group's oxygen is bonded to it
                seen_lists[(owner.name, el)] = list(out)
                return out
            ex.contracts['propka.atom.Atom.get_bonded_elements'] = lambda ex_, c_, f_, a, k, so: some(a[0] if a else k['element'], so)
            ex.contracts['propka.atom.Atom.get_bonded_heavy_atoms'] = \
                lambda ex_, c_, f_, a, k, so: seen_lists.setdefault((so.name, 'heavy'), some('C', so))
            ex.contracts['propka.ligand.is_ring_member'] = lambda ex_, c_, f_, a, k, so: list(seen_lists['ring']) if 'ring' in seen_lists else \
                seen_lists.setdefault('ring', [main] + [fresh('C'), fresh('N'), fresh('C'), fresh('N')] if ctx.branch(B('ring')) else [])
            ex.contracts['propka.protonate.Protonate.protonate_atom'] = lambda ex_, c_, f_, a, k, so: None

            def set_center(ex_, c_, f_, a, k, so):
                atoms = a[0] if a else k['atoms']
                if len(atoms) == 0:
                    raise PyRaise('ValueError', 'At least one atom must be specified')
                centre_calls.append(list(atoms))
            ex.contracts['propka.group.Group.set_center'] = set_center
            inter_calls = []
            ex.contracts['propka.group.Group.set_interaction_atoms'] = lambda ex_, c_, f_, a, k, so: inter_calls.append((list(a[0]), list(a[1])))
            g = record('g', ci, atom=main, type='XX', x=0.0, y=0.0, z=0.0, label='g')
            try:
                ex.call_function(fi, [], self_obj=g)
                # second run: the SAME oxygen / hydrogen neighbours handed over in the opposite order (the order of an atom's bond list
                # depends on where the cell borders of the bond search fall, i.e. on the frame); carbon and nitrogen lists keep their
                # order: several routines take "the" bonded carbon / nitrogen of an atom that has exactly one
                first = (list(centre_calls), list(inter_calls))
                cache = dict(seen_lists)
                ex.contracts['propka.atom.Atom.get_bonded_elements'] = \
                    lambda ex_, c_, f_, a, k, so: (lambda el, l: list(reversed(l)) if el in ('O', 'H') else list(l))(
                        a[0] if a else k['element'],
                        cache.get((so.name, a[0] if a else k['element']), [main] if (so is not main and (a[0] if a else k['element']) == 'O') else []))
                ex.contracts['propka.atom.Atom.get_bonded_heavy_atoms'] = lambda ex_, c_, f_, a, k, so: list(cache.get((so.name, 'heavy'), []))
                del centre_calls[:], inter_calls[:]
                g2 = record('g', ci, atom=main, type='XX', x=0.0, y=0.0, z=0.0, label='g')
                ex.call_function(fi, [], self_obj=g2)
                ids = lambda l: sorted(x.name for x in l)      # noqa
                same = (len(first[0]) == len(centre_calls) and all(ids(p) == ids(q) for p, q in zip(first[0], centre_calls))
                        and len(first[1]) == len(inter_calls)
                        and all(ids(p[0]) == ids(q[0]) and ids(p[1]) == ids(q[1]) for p, q in zip(first[1], inter_calls)))
                ctx.oblige('GO[%s.setup_atoms]: centre atoms and interaction atoms are the same SETS whatever the order of the bond '
                           'lists' % ci.name, same)
                centre_calls[:] = first[0]
            except PyRaise as e:
                ctx.oblige('GC[%s.setup_atoms]: the only exception is the explicit rejection of an empty atom list' % ci.name,
                           e.exc_name == 'ValueError' and 'At least one atom' in str(e.msg))
                return
            ok = len(centre_calls) >= 1 and all(isinstance(x, Obj) and x in pool for x in centre_calls[-1])
            ctx.oblige('GC[%s.setup_atoms]: on every normal return the centre was set by set_center from a non-empty list of atoms of '
                       'the structure (never left at a frame-fixed default)' % ci.name, ok)
        pr.explore(ex, thunk, 'centre %s' % ci.name)


def task_backbone_two_runs(pr, repo):
    """B2: set_backbone_determinants gives the same determinants for a moved copy of the same geometry.  Its geometric callees
    (closest pair, angle factor, H-bond energy, parameter look-up) are abstracted by their invariance contracts (SQ, AD): they return
    the same values for corresponding atoms; anything ELSE the routine does with coordinates shows up as a difference."""
    from pyvc.core import Builtin
    from . import C16
    ex = Executor(repo)
    fi = repo.func('propka.determinants.set_backbone_determinants')
    pr.under_contract(fi)
    A = repo.cls('propka.atom.Atom')
    Ps = C17.perms24()
    t = [R('t' + c) for c in 'xyz']
    for btype in ('BBC', 'BBN'):
        for P_ in (Ps[0], Ps[5], Ps[9], Ps[16]) if pr.tier == 'quick' else Ps:
            def thunk(ex, ctx, btype=btype, P_=P_):
                dist, fang, dpka, c1, c2, en = R('dist'), R('f_angle'), R('dpka_max'), R('c1'), R('c2'), R('hb_energy')
                ctx.assume(And(dist >= 0, c1 < c2, fang <= 1, fang >= -1))
                results = []
                for run in (0, 1):
                    def mv(v):
                        return v if run == 0 else moved(P_, t, v)
                    pt = pts(5, prefix='p')
                    heavy = atom_at(repo, 'heavy%d' % run, mv(pt[0]))
                    heavy.attrs.update(element='N')
                    ta = atom_at(repo, 'tatom%d' % run, mv(pt[1]))
                    ta.attrs.update(element='H', bonded_atoms=[heavy])
                    bn = atom_at(repo, 'bheavy%d' % run, mv(pt[2]))
                    bn.attrs.update(element='N')
                    ba = atom_at(repo, 'batom%d' % run, mv(pt[3]))
                    ba.attrs.update(element='H' if btype == 'BBN' else 'O', bonded_atoms=[bn])
                    gc, bc = mv(pt[4]), mv(pts(1, prefix='b')[0])
                    tg = C16.sym_group(repo, 'tg%d' % run, type='HIS', interaction_atoms_for_acids=[ta], x=gc[0], y=gc[1], z=gc[2])
                    tg.attrs['charge'] = R('q')
                    bb = C16.sym_group(repo, 'bb%d' % run, type=btype, x=bc[0], y=bc[1], z=bc[2])
                    bb.attrs['get_interaction_atoms'] = Builtin('gia', lambda ex_, g, ba=ba: [ba])
                    version = record('version', None, parameters=record('P', None, angular_dependent_sidechain_interactions=['HIS']))
                    version.attrs['get_backbone_hydrogen_bond_parameters'] = Builtin('bbp', lambda ex_, *a, **k: [dpka, [c1, c2]])
                    ex.contracts['propka.calculations.get_smallest_distance'] = lambda ex_, c_, f_, a, k, so, ba=ba, ta=ta: [ba, dist, ta]
                    ex.contracts['propka.energy.angle_distance_factors'] = lambda ex_, c_, f_, a, k, so: (R('d12'), fang, R('d23'))
                    ex.contracts['propka.energy.hydrogen_bond_energy'] = lambda ex_, c_, f_, a, k, so: en
                    ex.call_function(fi, [[tg], [bb], version])
                    results.append([d.attrs['value'] for d in tg.attrs['determinants']['backbone']])
                same = len(results[0]) == len(results[1]) and And(*[a == b for a, b in zip(results[0], results[1])])
                ctx.oblige('B2[%s, P=%r]: the backbone determinants of a moved copy equal those of the original' % (btype, P_), same)
            pr.explore(ex, thunk, 'set_backbone_determinants two runs %s %r' % (btype, P_))


def run(pr, repo):
    pr.level = 'other'
    pr.explanation = ('deductive core (VC, ring identities, frame census) plus bounded pose monitor; level "other" because one clause of '
                      'the property does NOT hold on this tree (recorded known finding D16: the amide hydrogen of a backbone nitrogen that '
                      'follows a chain break is built with the frame-dependent Vector.orthogonal()): its property-form obligation is '
                      'refuted and replayed on every run and reported as KNOWN-FINDING, so discharged < obligations; known finding D19, seen by '
                      'the pose monitor only: the COO-ARG exception takes its third atom from the pose-dependent bond-list order of NE)')
    tasks = [(task_invariance, ()), (C11.task_cell_lemma, ()), (C11.task_offsets, ()), (C11.task_check_distance, ()), (C11.task_plumbing, ()),
             (C11.task_boxes_pair, ('S', 'S', False, (0,))), (C17.task_equivariance, ()), (C17.task_add_proton, ()),
             (C17.task_orthogonal, ()), (task_group_centres, ()), (C20.task_rotation, (), 'support'), (task_backbone_two_runs, ()),
             # which nitrogen is an N-terminus (3 hydrogens, frame-dependent rotamer excluded by the property) vs a backbone amide
             (reader.task_nterm, ())]
    pr.parallel(tasks)
    C07.task_columns(pr, repo)
    ground_callsites(pr, repo)
    for f in 'xyz':
        frames.clause(pr, repo, 'coordinate .%s is read only by the declared geometric leaves and sinks' % f, f, 'readers', XYZ_READERS)
    pr.assumptions += ['A-REAL: (x+t)-(y+t) == x-y holds over the reals; in floats the last ulp may differ (the property restricts '
                       'inputs to the 0.001 grid, arithmetic is still floating point): bounded monitor',
                       'composition step: every numeric result is computed from the leaves above (frame census)',
                       'hetero groups: rotamer of a terminal hydrogen is frame dependent by design (excluded by the property)',
                       'bond-list order: the census BO classifies the `bonded_atoms[k]` sites of the interaction code only; how far the '
                       'hydrogen placement (propka.protonate) and the hetero-atom typing (propka.ligand) depend on the order of a bond '
                       'list is not classified (C17 proves placement equivariant for a FIXED list order; the pose monitor runs real '
                       'structures)']
    bounded(pr)


def bounded(pr):
    from . import native
    Ps = C17.perms24()
    names = ['3SGB-subset'] if pr.tier == 'quick' else ['3SGB-subset', '3SGB', '1FTJ-Chain-A', '4DFR']
    poses = [(Ps[5], (11.111, -7.5, 3.25)), (Ps[12], (-250.0, 300.123, -99.999)), (Ps[0], (-1.234, 2.505, 5.02)), (Ps[20], (900.0, 900.0, 900.0))]
    if pr.tier == 'thorough':
        poses += [(P_, (3.3 * i, -2.51 * i, 1000.0 - i)) for i, P_ in enumerate(Ps)]
    ev, viol, classes = 0, [], set()
    for name in names:
        base = native.pdb_lines(name)
        ref = native.record(native.run_text(base), with_label=True)
        refmol = native.run_text(base)
        rc = refmol.conformations[refmol.conformation_names[0]]
        ref_b = sorted((a.name, a.res_num, a.chain_id, tuple(sorted((b.name, b.res_num) for b in a.bonded_atoms if b.element != 'H')))
                       for a in rc.atoms if a.element != 'H')
        # the pKa claim is for structures made of amino-acid residues (a hetero group's terminal hydrogen gets a frame-dependent
        # rotamer by design): with hetero content present only the heavy-atom quantities are compared, and the pKa values are
        # compared on the amino-acid part alone in the first poses
        has_het = any(l.startswith('HETATM') and l[17:20] != 'HOH' for l in base)
        # the ends of the PDB coordinate field: a translation that puts the largest x at 9999.9 / the smallest z at -999.9
        xs = [float(l[30:38]) for l in base if l[:6] in ('ATOM  ', 'HETATM')]
        zs = [float(l[46:54]) for l in base if l[:6] in ('ATOM  ', 'HETATM')]
        edge = [(Ps[0], (round(9999.9 - max(xs), 3), 0.0, 0.0)), (Ps[0], (0.0, 0.0, round(-999.9 - min(zs), 3)))]
        variants = [(base, ref, not has_het, poses + edge)]
        if has_het:
            aa = [l for l in base if not l.startswith('HETATM')]
            variants.append((aa, native.record(native.run_text(aa), with_label=True), True, poses[:4]))
        for src, ref_v, cmp_pka, poses_v in variants:
          for P_, t in poses_v:
            ev += 1
            classes.add((P_, t[0] > 500))
            lines = []
            for l in src:
                if l[:6] in ('ATOM  ', 'HETATM'):
                    w = C17.apply(P_, [float(l[30:38]), float(l[38:46]), float(l[46:54])])
                    l = l[:30] + '%8.3f%8.3f%8.3f' % (w[0] + t[0], w[1] + t[1], w[2] + t[2]) + l[54:]
                lines.append(l)
            try:
                mol = native.run_text(lines)
                got = native.record(mol)
                # claimed for every structure: protein and ion groups (ligand group typing is not part of the claim)
                keep = lambda r: {c: [g for g in gs if g['atom_type'] == 'atom' or g['type'] == 'ION'] for c, gs in r.items()}    # noqa
                bad = native.diff_records(keep(ref_v), keep(got), tol=1e-9, keys=('evol', 'buried', 'nvol', 'type'), dets=False)   # heavy-atom quantities: exact
                if cmp_pka:
                    bad += native.diff_records(ref_v, got, tol=0.02, keys=('pka',), dets=False)                          # built hydrogens: rounding only
                if src is not base:
                    raise StopIteration
                c = mol.conformations[mol.conformation_names[0]]
                b2 = sorted((a.name, a.res_num, a.chain_id, tuple(sorted((b.name, b.res_num) for b in a.bonded_atoms if b.element != 'H')))
                            for a in c.atoms if a.element != 'H')
                if b2 != ref_b:
                    bad.append('perceived bonds differ')
            except StopIteration:
                pass
            except Exception as e:    # noqa
                bad = ['%s: %s' % (type(e).__name__, e)]
            if bad and len(viol) < 3:
                viol.append({'what': '%s pose %r + %r: %s' % (name, P_, t, bad[:2]), 'replay': None})
    # hydrogens supplied with the structure (keep-protons), NOT at the program's ideal positions: every pKa and determinant unchanged
    for name in names[:1]:
        hl = native.with_own_hydrogens(native.pdb_lines(name), perturb=0.15)
        ref_k = native.record(native.run_text(hl, ['--keep-protons']), with_label=True)
        for P_, t in poses[:4] + [(Ps[0], (0.7, 0.0, 0.0)), (Ps[0], (0.0, 1.3, -0.6))]:
            ev += 1
            classes.add(('keep-protons', P_))
            lines = []
            for l in hl:
                if l[:6] in ('ATOM  ', 'HETATM'):
                    w = C17.apply(P_, [float(l[30:38]), float(l[38:46]), float(l[46:54])])
                    l = l[:30] + '%8.3f%8.3f%8.3f' % (w[0] + t[0], w[1] + t[1], w[2] + t[2]) + l[54:]
                lines.append(l)
            try:
                got = native.record(native.run_text(lines, ['--keep-protons']))
                bad = native.diff_records(ref_k, got, tol=1e-6, keys=('pka', 'evol', 'buried', 'nvol', 'type'), dets=True)
            except Exception as e:    # noqa
                bad = ['%s: %s' % (type(e).__name__, e)]
            if bad and len(viol) < 3:
                viol.append({'what': '%s with supplied (non-ideal) hydrogens, --keep-protons, pose %r + %r: %s' % (name, P_, t, bad[:2]),
                             'replay': None})
    # a LARGE structure (four copies of the 1HPX dimer side by side, 6064 heavy atoms - code paths gated on size), moved into the
    # negative octant and turned: heavy-atom quantities exact, pKa within rounding
    big = []
    prot = [l for l in native.pdb_lines('1HPX') if l[:6] == 'ATOM  ']
    for k, (ca, cb) in enumerate((('A', 'B'), ('C', 'D'), ('E', 'F'), ('G', 'H'))):
        for l in prot:
            big.append(l[:21] + (ca if l[21] == 'A' else cb) + l[22:30] + '%8.3f' % (float(l[30:38]) + 80.0 * k) + l[38:])
        big.append('TER\n')
    try:
        ref_big = native.record(native.run_text(big))
        for P_, t in ((Ps[0], (-400.0, -150.0, -90.0)), (Ps[7], (-35.5, 20.25, -60.125))):
            ev += 1
            classes.add(('large structure', P_))
            moved = []
            for l in big:
                if l[:6] == 'ATOM  ':
                    w = C17.apply(P_, [float(l[30:38]), float(l[38:46]), float(l[46:54])])
                    l = l[:30] + '%8.3f%8.3f%8.3f' % (w[0] + t[0], w[1] + t[1], w[2] + t[2]) + l[54:]
                moved.append(l)
            got = native.record(native.run_text(moved))
            bad = native.diff_records(ref_big, got, tol=1e-9, keys=('evol', 'buried', 'nvol', 'type'), dets=False)
            bad += native.diff_records(ref_big, got, tol=0.02, keys=('pka',), dets=False)
            if bad and len(viol) < 3:
                viol.append({'what': 'four copies of 1HPX (6064 heavy atoms), pose %r + %r: %s' % (P_, t, bad[:2]), 'replay': None})
    except Exception as e:    # noqa
        viol.append({'what': 'large structure: %s: %s' % (type(e).__name__, e), 'replay': None})
    # the rotation used to place ARG / ASN / GLN / HIS ... hydrogens turns with the structure: rot(theta, P a, P v) == P rot(theta, a, v)
    # for every sign / zero pattern of the axis (planes that contain a coordinate axis exactly - idealised or model-built coordinates)
    import importlib
    va = importlib.import_module('propka.vector_algebra')
    ev_r, bad_r = 0, []
    for sx in (-1, 0, 1):
        for sy in (-1, 0, 1):
            for sz in (-1, 0, 1):
                if (sx, sy, sz) == (0, 0, 0):
                    continue
                for mag in ((1.0, 1.0, 1.0), (0.3, 2.0, 1.7)):
                    a = (sx * mag[0], sy * mag[1], sz * mag[2])
                    for th in (2.0943951023931953, -1.1):
                        for v in ((1.0, 1.0, 0.3), (-0.7, 0.4, 1.9)):
                            try:
                                r0 = va.rotate_vector_around_an_axis(th, va.Vector(*a), va.Vector(*v))
                                r0 = (r0.x, r0.y, r0.z)
                            except Exception as e:    # noqa
                                bad_r.append('axis %r: %s' % (a, type(e).__name__))
                                continue
                            for P_ in Ps:
                                ev_r += 1
                                pa, pv = C17.apply(P_, list(a)), C17.apply(P_, list(v))
                                try:
                                    r1 = va.rotate_vector_around_an_axis(th, va.Vector(*pa), va.Vector(*pv))
                                    got = (r1.x, r1.y, r1.z)
                                except Exception as e:    # noqa
                                    got = None
                                want = C17.apply(P_, list(r0))
                                if got is None or max(abs(g - w) for g, w in zip(got, want)) > 1e-9:
                                    if len(bad_r) < 3:
                                        bad_r.append('rotate_vector_around_an_axis(%r, P%r, P%r) = %r, P applied to the unmoved result = %r (P = %r)'
                                                     % (th, a, v, got, want, P_))
    # the angle factor of a hydrogen bond that is exactly straight on the 0.001 A grid (donor, hydrogen, acceptor collinear, the line
    # not parallel to a coordinate axis): same value in every pose, no exception
    en = importlib.import_module('propka.energy')
    import propka.atom as patom
    import random as _random
    rg = _random.Random(pr.seed)

    def mk_at(p):
        a = patom.Atom()
        a.x, a.y, a.z = p
        return a
    for d in ((0.583, 0.577, 0.572), (0.301, -0.912, 0.277), (-0.654, 0.123, 0.745)):
        n0 = (12.345, -7.108, 3.771)
        ref_f = None
        for P_ in Ps:
            for _ in range(3):
                ev_r += 1
                t = tuple(round(rg.uniform(-60, 60), 3) for _ in range(3))
                pts = []
                for k_ in (0, 1, 3):
                    q = C17.apply(P_, [n0[c] + k_ * d[c] for c in range(3)])
                    pts.append(tuple(round(q[c] + t[c], 3) for c in range(3)))
                try:
                    r = en.angle_distance_factors(atom1=mk_at(pts[2]), atom2=mk_at(pts[1]), atom3=mk_at(pts[0]))
                    f = r[1]
                except Exception as e:    # noqa
                    f = '%s: %s' % (type(e).__name__, e)
                if ref_f is None:
                    ref_f = f
                if isinstance(f, str) or isinstance(ref_f, str) or abs(f - ref_f) > 1e-9:
                    if len(bad_r) < 3:
                        bad_r.append('angle_distance_factors on a straight donor-H-acceptor line %r: %r in pose %r + %r, %r in the first pose'
                                     % (d, f, P_, t, ref_f))
    ev += ev_r
    classes.add('rotation helper turns with the structure')
    if bad_r:
        viol.append({'what': 'geometric helper depends on the pose: %s' % bad_r[:2], 'replay': None})
    # an amino-acid structure with a chain break: the nitrogen after the gap has one neighbour only (known finding D16)
    ev += 1
    classes.add('chain break')
    try:
        cb = chain_break_differences(3 if pr.tier == 'quick' else 23)
    except Exception as e:    # noqa
        cb = ['%s: %s' % (type(e).__name__, e)]
    if cb:
        viol.append({'what': '1HPX (amino-acid part) with residue A 26 removed - hydrogen built on the backbone N after a chain break: '
                             'moved copies differ: %s' % cb[:2],
                     'replay': CHAIN_BREAK_REPLAY % {'verif': os.path.dirname(os.path.dirname(os.path.abspath(__file__)))}})
    # a carboxylate oxygen next to NE of an arginine, off the plane: the third atom of the angle comes from the bond-list order (D19)
    ev += 1
    classes.add('arginine NE closest')
    try:
        ao = arg_bond_order_differences()
    except Exception as e:    # noqa
        ao = ['%s: %s' % (type(e).__name__, e)]
    if ao:
        viol.append({'what': 'ARG 8 A of 1HPX with a carboxylate oxygen 2.4 A from NE - COO-ARG exception takes its third atom from the '
                             'bond-list order of NE: moved copies differ: %s' % ao[:1],
                     'replay': ARG_ORDER_REPLAY % {'verif': os.path.dirname(os.path.dirname(os.path.abspath(__file__)))}})
    pr.bounded.append({'name': 'C04-monitor: rotated/translated copies of amino-acid structures', 'evaluations': ev,
                       'distinct_nontrivial': len(classes), 'bound': '%d structures x %d poses' % (len(names), len(poses)),
                       'rule': 'bonds, groups, desolvation, buried fractions exact (1e-9); pKa within 0.02 (hydrogen coordinates are rounded '
                               'to 0.001 A)', 'violations': viol})
