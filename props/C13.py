"""C13 - selecting chains equals deleting the other chains from the file.

  ST  stutter lemma on the real record loop: an ATOM/HETATM record whose chain column is not selected leaves the loop
      state unchanged and yields nothing                                                                      (TOP)
  TR  every other record is processed exactly as the specification automaton prescribes, which does not mention
      the selection: so step_chains == step_None on selected records (rule iii => whole-file statement)       (TOP)
  OP  option plumbing: -c is action=append (a blank is passed as ' '), read_pdb hands options.chains on       (TOP)
  FR  options.chains / the chains argument are read nowhere else                                              (aux, frame)
"""
import ast as _ast

from .common import *   # noqa: F401,F403
from . import reader, frames
from pyvc.core import Builtin


def task_steps(pr, repo, tag):
    def check(step):
        if step.chains:
            f = reader.line_fields(step)
            if f:
                sel = step.ex.contains(step.chains, f['chain'])
                step.ctx.oblige('ST[%s %s %s chains=%s]: record of an unselected chain: loop state unchanged, nothing yielded' %
                                (step.tag.strip(), (step.name or '').strip(), step.shape, step.chains),
                                Implies(Not(sel), And(reader.same_state(step.ex, step.post, step.pre), len(step.yields) == 0)))
        reader.check_transition(step)
    names = [' N  ', ' OXT', ' CA '] if pr.tier == 'quick' else reader.NAMES
    reader.explore_steps(pr, repo, check, tags=[tag], names=names, chains_cases=(None, ['A'], [' '], ['A', 'b']),
                         what='C13 record step')


def task_group_level(pr, repo):
    """GL: once the reader has let an atom through, nothing downstream drops its group because of the chain selection: a group of a
    selected chain - also the blank chain, which atoms store as '_' while the option holds ' ' - is initialised and kept."""
    ex = Executor(repo)
    CCn = 'propka.conformation_container.ConformationContainer'
    fi = repo.func(CCn + '.setup_and_add_group')
    pr.under_contract(fi)
    A = repo.cls('propka.atom.Atom')
    for chains, atom_chain in ((None, 'A'), ([' '], '_'), (['A'], 'A'), ([' ', 'B'], '_'), (['B', ' '], 'B'), (['a'], 'a')):
        def thunk(ex, ctx, chains=chains, atom_chain=atom_chain):
            seen = []
            ex.contracts[CCn + '.init_group'] = lambda ex_, c_, f_, a, k, so: seen.append(a[0])
            opts = record('options', None, chains=chains, titrate_only=None)
            mol = record('mol', None, options=opts)
            conf = record('conf', repo.cls(CCn), groups=[], molecular_container=mol, options=opts, parameters=record('P', None))
            at = record('at', A, chain_id=atom_chain, res_num=5, icode=' ', type='atom', molecular_container=mol)
            g = record('g', repo.cls('propka.group.Group'), atom=at, interaction_atoms_for_acids=[], interaction_atoms_for_bases=[])
            ex.call_function(fi, [g], self_obj=conf)
            ctx.oblige('GL[-c %r, atom chain %r]: the group of an atom the reader let through is initialised and kept' % (chains, atom_chain),
                       len(seen) == 1 and seen[0] is g and conf.attrs['groups'] == [g])
        pr.explore(ex, thunk, 'setup_and_add_group chains=%r' % (chains,))


def task_plumbing(pr, repo):
    ex = Executor(repo)
    fi = repo.func('propka.input.read_pdb')
    pr.under_contract(fi)
    seen = {}

    A = repo.cls('propka.atom.Atom')

    def galp(ex, ctx, fi_, a, k, so):
        seen['chains'] = k.get('chains', 'MISSING')
        seen['keep'] = k.get('keep_protons', 'MISSING')
        seen['ignore'] = k.get('ignore_residues', 'MISSING')
        return [('1A', record('atomQ', A, chain_id='Q', conformation_container=None, molecular_container=None)),
                ('1A', record('atomB', A, chain_id=' ', conformation_container=None, molecular_container=None))]
    ex.contracts[reader.FN] = galp

    def thunk(ex, ctx):
        ch = ['Q', ' ']
        ign = ['HOH']
        keep = B('keep')
        mol = record('mol', None, options=record('options', None, chains=ch, keep_protons=keep))
        params = record('P', None, ignore_residues=ign)
        ex.call_function(fi, ['f.pdb', params, mol])
        ctx.oblige('OP: read_pdb passes options.chains, options.keep_protons and parameters.ignore_residues unchanged to the record reader, '
                   'and leaves the selection list itself untouched for the next input of the same invocation',
                   seen.get('chains') is ch and seen.get('keep') is keep and seen.get('ignore') is ign
                   and ch == ['Q', ' '] and ign == ['HOH'] and mol.attrs['options'].attrs['chains'] is ch)
    pr.explore(ex, thunk, 'read_pdb')
    # argparse declaration of -c, checked on the AST of build_parser
    bp = repo.func('propka.lib.build_parser')
    ok = False
    for n in _ast.walk(bp.node):
        if isinstance(n, _ast.Call) and any(isinstance(a, _ast.Constant) and a.value == '--chain' for a in n.args):
            kw = {k.arg: k.value for k in n.keywords}
            ok = (isinstance(kw.get('action'), _ast.Constant) and kw['action'].value == 'append'
                  and isinstance(kw.get('dest'), _ast.Constant) and kw['dest'].value == 'chains'
                  and 'type' not in kw and 'choices' not in kw)
    pr.add(Ground('OP: "-c/--chain" is declared action="append", dest="chains", no type/choices conversion '
                  '(so `-c " "` arrives as [" "] and matches a blank chain column)', ok, kind='top'))


def run(pr, repo):
    pr.parallel([(task_steps, (t,)) for t in reader.TAGS] + [(task_plumbing, ()), (task_group_level, ())])
    c = frames.census(repo)
    readers = {r for r in c.readers('chains')}
    allowed = {'propka.input.read_pdb',                                   # options.chains -> reader
               'propka.conformation_container.ConformationContainer.add_atom',          # container.chains: derived from atoms
               'propka.molecular_container.MolecularContainer.average_of_conformations',
               'propka.output.get_determinant_section', 'propka.lib.loadOptions',
               'propka.bonds.BondMaker.find_bonds_for_protein_by_distance'}     # container.chains (derived from atoms)
    extra = sorted(readers - allowed)
    pr.add(Ground('FRAME: attribute .chains is read only by the declared functions (selection is applied in the record reader only)',
                  not extra, detail=str(extra), kind='aux', backend='frame-checker'))
    frames.clause(pr, repo, 'options.titrate_only is written by the argument parser only (the chain selection does not edit other options)',
                  'titrate_only', 'writers', set())
    pr.assumptions += ['stutter/simulation rule (DESIGN 1.1 iii) lifts the per-record obligations to whole files',
                       'composition step: the rest of the pipeline is a function of the (conformation, atom) sequence (C03); '
                       'bounded monitor stands in for it', 'atom-name field ranges over the listed classes']
    bounded(pr)


def bounded(pr):
    from . import native
    ev, viol, classes = 0, [], set()
    # 4DFR: the hetero groups of chain A follow the records of chain B (a chain's records need not be contiguous)
    cases = [('1HPX', ['A']), ('1HPX', ['B']), ('3SGB-subset', ['E']), ('3SGB-subset', ['I']), ('4DFR', ['A']),
             ('1HPX', ['B', 'A']), ('1HPX:blankB', [' ']), ('1HPX:blankB', [' ', 'A'])]
    if pr.tier == 'thorough':
        cases += [('3SGB', ['E']), ('3SGB', ['I']), ('3SGB', ['E', 'I']), ('1HPX', ['A', 'B'])]
    variants = ['asis', 'noter', 'lower', 'split', 'ionpairs']
    for name, sel in cases:
        base = native.pdb_lines(name.split(':')[0])
        if name.endswith(':blankB'):
            base = [(l[:21] + ' ' + l[22:]) if l[:6] in ('ATOM  ', 'HETATM') and l[21] == 'B' else l for l in base]
        for v in (variants if name not in ('4DFR', '1HPX:blankB') and len(sel) == 1 else ['asis', 'interleave']):
            lines = list(base)
            s = list(sel)
            if v == 'noter':
                lines = [l for l in lines if not l.startswith('TER') and l[12:16] != ' OXT']
            if v == 'interleave':
                # records of an UNSELECTED chain (a hetero residue with its own chain id) in the middle of a selected chain, no TER
                mine = [i for i, l in enumerate(lines) if l[:6] == 'ATOM  ' and l[21] == sel[0]]
                if mine:
                    mid = mine[len(mine) // 2]
                    while lines[mid][22:27] == lines[mid - 1][22:27]:
                        mid += 1
                        if mid >= len(lines) or lines[mid][:6] != 'ATOM  ':
                            break
                    x = lines[mid - 1]
                    het = 'HETATM 9990 ZN    ZN Z 900    ' + x[30:54].replace(x[30:38], '%8.3f' % (float(x[30:38]) + 25.0), 1) + '  1.00  0.00          ZN  \n'
                    lines = lines[:mid] + [het] + lines[mid:]
            if v == 'ionpairs':
                # hetero groups listed by kind at the end of the file: an ion of each chain with the SAME residue name and number in
                # consecutive records (CL x 300 of the selected chain right before / after CL y 300 of another chain)
                chs = sorted({l[21] for l in lines if l[:6] == 'ATOM  '})
                anchor = {}
                for l in lines:
                    if l[:6] == 'ATOM  ' and l[12:16] == ' CA ':
                        anchor.setdefault(l[21], l)
                ions = []
                for k_, c in enumerate(chs + chs[::-1]):
                    a = anchor[c]
                    ions.append('HETATM%5d CL    CL %s 300    %8.3f%s  1.00  0.00          CL  \n' % (
                        9900 + k_, c, float(a[30:38]) + 3.5 + (4.0 if k_ >= len(chs) else 0.0), a[38:54]))
                    if k_ >= len(chs):
                        ions[-1] = ions[-1][:22] + ' 301' + ions[-1][26:]
                ions = ions[:len(chs)] + ions[len(chs):]
                lines = [l for l in lines if not l.startswith(('END', 'MASTER', 'CONECT'))] + ions
            if v == 'split':
                # the last 40 records of the first selected chain are moved to the end of the file (after every other chain)
                mine = [i for i, l in enumerate(lines) if l[:6] in ('ATOM  ', 'HETATM') and l[21] == sel[0]]
                tail = set(mine[-40:])
                lines = [l for i, l in enumerate(lines) if i not in tail and not l.startswith(('END', 'MASTER', 'CONECT'))] + \
                        [lines[i] for i in sorted(tail)]
            if v == 'lower':
                lines = [(l[:21] + l[21].lower() + l[22:]) if l[:6] in ('ATOM  ', 'HETATM') and l[21] == sel[0] else l for l in lines]
                s = [c.lower() if c == sel[0] else c for c in sel]
            ev += 1
            classes.add((v, len(sel)))
            opts = []
            for c in s:
                opts += ['-c', c]
            deleted = [l for l in lines if not (l[:6] in ('ATOM  ', 'HETATM') and l[21] not in s)]

            def run(ls, o):
                try:
                    return native.record(native.run_text(ls, o))
                except Exception as e:    # noqa
                    return {'error': [type(e).__name__]}
            a, b = run(lines, opts), run(deleted, [])
            # the determinant table of the report (rows per chain) is part of what is compared
            try:
                import propka.output as _out
                ma, mb = native.run_text(lines, opts), native.run_text(deleted, [])
                ta = _out.get_determinant_section(ma, 'AVR', ma.version.parameters)
                tb = _out.get_determinant_section(mb, 'AVR', mb.version.parameters)
                if ta != tb and len(viol) < 3:
                    viol.append({'what': '%s (%s) -c %s: the determinant section differs from that of the file with the other chains '
                                         'deleted (%d vs %d lines)' % (name, v, s, len(ta.splitlines()), len(tb.splitlines())), 'replay': None})
            except (Exception, SystemExit):      # noqa
                pass
            d = native.diff_records(a, b, tol=1e-9) if 'error' not in a and 'error' not in b else ([] if a == b else ['%r vs %r' % (a, b)])
            if d and len(viol) < 3:
                viol.append({'what': '%s (%s) -c %s differs from the file with the other chains deleted: %s' % (name, v, s, d[:2]),
                             'replay': None})
    # the selection together with another option that names chains (--titrate_only writes a blank chain as "_", -c as " "): the
    # selection must not edit what the other option says
    for name, blank, sel, extra in (('3SGB-subset', 'I', [' '], ['-i', '_:7,_:10,_:13']), ('3SGB-subset', 'I', ['E', ' '], ['-i', '_:7,E:102']),
                                    ('1HPX', None, ['A'], ['-i', 'A:25,A:30']), ('1HPX', 'B', [' '], ['-i', '_:25,_:30', '--protonate-all'])):
        lines = native.pdb_lines(name)
        if blank:
            lines = [(l[:21] + ' ' + l[22:]) if l[:6] in ('ATOM  ', 'HETATM') and l[21] == blank else l for l in lines]
        opts = []
        for c in sel:
            opts += ['-c', c]
        deleted = [l for l in lines if not (l[:6] in ('ATOM  ', 'HETATM') and l[21] not in sel)]
        ev += 1
        classes.add(('with options', tuple(extra[:1]), len(sel)))
        try:
            a, b = native.record(native.run_text(lines, opts + extra)), native.record(native.run_text(deleted, extra))
            d = native.diff_records(a, b, tol=1e-9)
        except (Exception, SystemExit) as e:      # noqa
            d = ['%s: %s' % (type(e).__name__, e)]
        if d and len(viol) < 3:
            viol.append({'what': '%s -c %s %s differs from the file with the other chains deleted (same further options): %s'
                                 % (name, sel, extra, d[:2]), 'replay': None})
    pr.bounded.append({'name': 'C13-monitor: chain selection vs deletion on real runs', 'evaluations': ev,
                       'distinct_nontrivial': len(classes), 'bound': '%d structure/selection pairs x {as is, no TER/OXT, lower-case chain id}' % len(cases),
                       'rule': 'whole-pipeline records compared to 1e-9', 'violations': viol})
