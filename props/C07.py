"""C07 - content the model does not use has no effect on any result.

  ST  record loop (real body, arbitrary state): records other than ATOM/HETATM/MODEL/TER, records of ignorable
      residues and (without keep-protons) hydrogen records yield nothing; the first two leave the state unchanged  (TOP)
  HY  hydrogen absorption: for a hydrogen record h and a record a of the same residue,
      step(step(s,h),a) and step(step(s,a),h) end in the state of step(s,a) with the output of a alone            (TOP)
  CO  Atom.set_properties: columns read, per field, from the AST (x,y,z <- 31-54; serial <- 7-11; segment/element/
      charge columns 67-80 never); occupancy / B-factor / serial are stored but read only by copy/output sinks     (TOP, frame)
  EL  element inference (symbolic atom-name field): element == 'H' only if the name's first non-digit is H          (TOP)
  PI  Protonate.protonate_atom is idempotent (is_protonated guard) and skips hydrogens; Protonate.protonate only
      calls protonate_atom; --protonate-all / --keep-protons are store_true options that reach the two call sites   (TOP)
"""
import ast as _ast

from .common import *   # noqa: F401,F403
from . import reader, frames
from pyvc.core import Builtin
from pyvc.values import str_chars


def task_stutter(pr, repo, tag):
    def check(step):
        ex, ctx = step.ex, step.ctx
        tagname = '%s %s %s keep=%s' % (step.tag.strip(), (step.name or '').strip(), step.shape, step.keep)
        if step.tag == 'OTHER':
            ctx.oblige('ST[%s]: a record that is not ATOM/HETATM/MODEL/TER changes nothing and yields nothing' % tagname,
                       And(reader.same_state(ex, step.post, step.pre), len(step.yields) == 0))
        f = reader.line_fields(step)
        if f:
            ign = ex.contains(step.ignore, f['resname'])
            ctx.oblige('ST[%s]: a record of an ignorable residue changes nothing and yields nothing' % tagname,
                       Implies(ign, And(reader.same_state(ex, step.post, step.pre), len(step.yields) == 0)))
            if step.is_h is True and not step.keep:
                ctx.oblige('ST[%s]: a hydrogen record yields nothing unless keep-protons is set' % tagname, len(step.yields) == 0)
            if step.is_h is True and step.keep:
                ctx.oblige('ST[%s]: with keep-protons a hydrogen record of a used residue is yielded' % tagname,
                           Implies(Not(ign), len(step.yields) == 1))
        reader.check_transition(step, label='TR')
    names = [' N  ', ' OXT', ' CA ', ' H  ', '1HB '] if pr.tier == 'quick' else reader.NAMES
    reader.explore_steps(pr, repo, check, tags=[tag], names=names, keep_protons_cases=(False, True), what='C07 record step')


def task_absorb(pr, repo):
    """HY on the specification automaton (which TR ties to the real loop body): composition of two steps."""
    # The automaton is reader.spec_cases; here it is composed symbolically for a hydrogen record followed/preceded
    # by a heavy-atom record of the same residue.
    ex = Executor(repo)

    class S:      # minimal stand-in for reader.Step
        pass

    def mkstep(ctx, pre, name, is_h, res_chars, alt):
        s = S()
        line = [32] * 80
        for i, c in enumerate('ATOM  '):
            line[i] = ord(c)
        line[12:16] = [ord(c) for c in name]
        line[16] = alt
        line[17:20] = [ord(c) for c in 'ALA']
        line[21:27] = res_chars
        s.ex, s.ctx, s.pre, s.tag, s.name, s.keep, s.is_h, s.chains = ex, ctx, pre, 'ATOM  ', name, False, is_h, None
        s.line = mk_str(line)
        s.ignore, s.model_digits = ['HOH'], None
        return s

    def run_spec(ctx, step):
        """deterministic evaluation of the automaton on a path: pick the case whose condition holds (forks)."""
        for cond, st, out in reader.spec_cases(step):
            if cond is False:
                continue
            if ex.truth(cond):
                return st, out
        raise Infeasible()
    for shape in reader.SHAPES:
        for aname in (' N  ', ' OXT', ' CA '):
            for hname in (' H  ', '1HB '):
                def thunk(ex, ctx, shape=shape, aname=aname, hname=hname):
                    res = [I('r%d' % i) for i in range(6)]
                    for c in res:
                        ctx.assume(And(c >= 32, c <= 126))
                    pre = {'nterm_residue': 'next_residue' if shape[0] == 'next' else reader.sym_res(ctx, 'nt'),
                           'old_residue': None if shape[1] is None else reader.sym_res(ctx, 'od'),
                           'terminal': None, 'model': I('model')}
                    alt = I('alt')
                    ctx.assume(And(alt >= 32, alt <= 126))
                    a = lambda p: mkstep(ctx, p, aname, False, res, alt)      # noqa
                    h = lambda p: mkstep(ctx, p, hname, True, res, alt)       # noqa
                    s_a, out_a = run_spec(ctx, a(pre))
                    s_h, out_h = run_spec(ctx, h(pre))
                    s_ha, out_ha = run_spec(ctx, a(s_h))
                    s_ah, out_ah = run_spec(ctx, h(s_a))

                    def same_out(x, y):
                        if x is None or y is None:
                            return x is None and y is None
                        return And(x[0] == y[0], x[1] == y[1], x[2] == y[2] if (x[2] is None) == (y[2] is None) else False)
                    ctx.oblige('HY[%s, %s then/after %s]: a hydrogen record inside a residue block neither yields anything nor changes '
                               'what the residue\'s other records yield or the state they leave' % (shape, hname.strip(), aname.strip()),
                               And(out_h is None, out_ah is None, reader.same_state(ex, s_ha, s_a), reader.same_state(ex, s_ah, s_a),
                                   same_out(out_ha, out_a)))
                pr.explore(ex, thunk, 'hydrogen absorption')


COLS = {'name': [(12, 16)], 'numb': [(6, 11)], 'x': [(30, 38)], 'y': [(38, 46)], 'z': [(46, 54)], 'res_num': [(22, 26)],
        'res_name': [(17, 20)], 'chain_id': [(21, 22)], 'type': [(0, 6)], 'occ': [(55, 60)], 'beta': [(60, 66)],
        'icode': [(26, 27)], 'element': [(12, 14)]}


def task_columns(pr, repo):
    """CO: syntactic frame of Atom.set_properties on the string `line`."""
    fi = repo.func('propka.atom.Atom.set_properties')
    pr.under_contract(fi, how='frame (AST) + element rule (VC)')
    uses = {}
    other_use = []
    parents = {}
    for n in _ast.walk(fi.node):
        for ch in _ast.iter_child_nodes(n):
            parents[ch] = n
    for n in _ast.walk(fi.node):
        if isinstance(n, _ast.Name) and n.id == 'line' and isinstance(n.ctx, _ast.Load):
            par = parents.get(n)
            if isinstance(par, _ast.Subscript) and par.value is n:
                sl = par.slice
                if isinstance(sl, _ast.Slice) and (sl.lower is None or isinstance(sl.lower, _ast.Constant)) and isinstance(sl.upper, _ast.Constant):
                    rng = (sl.lower.value if sl.lower else 0, sl.upper.value)
                elif isinstance(sl, _ast.Constant):
                    rng = (sl.value, sl.value + 1)
                else:
                    other_use.append(_ast.unparse(par))
                    continue
                # which field does the enclosing assignment write?
                st = par
                while st in parents and not isinstance(st, _ast.Assign):
                    st = parents[st]
                tgt = _ast.unparse(st.targets[0]) if isinstance(st, _ast.Assign) else '?'
                uses.setdefault(tgt.replace('self.', ''), []).append(rng)
            elif isinstance(par, _ast.If) or isinstance(par, _ast.BoolOp) or isinstance(par, _ast.UnaryOp):
                pass      # `if line:` truthiness
            else:
                other_use.append(_ast.unparse(par)[:60])
    # column ranges first stored in a local (serial_field = line[6:11]) flow on to the field computed from that local
    changed = True
    while changed:
        changed = False
        for tgt in [t for t in list(uses) if t not in COLS]:
            sinks = set()
            for st in _ast.walk(fi.node):
                if isinstance(st, _ast.Assign) and any(isinstance(n, _ast.Name) and n.id == tgt and isinstance(n.ctx, _ast.Load)
                                                       for n in _ast.walk(st.value)):
                    sinks.add(_ast.unparse(st.targets[0]).replace('self.', ''))
            if sinks:
                for sk in sinks:
                    uses.setdefault(sk, []).extend(uses[tgt])
                del uses[tgt]
                changed = True
    ok = not other_use and all(sorted(set(uses.get(f, []))) == sorted(COLS[f]) for f in COLS) and set(uses) <= set(COLS)
    pr.add(Ground('CO: Atom.set_properties reads `line` only through constant slices: %s; columns 67-80 (segment, element, charge) '
                  'are never read; coordinates come from 31-54, the serial from 7-11' % sorted(COLS.items()), ok,
                  detail='found %r, other uses %r' % (uses, other_use), kind='top', backend='frame-checker'))
    frames.clause(pr, repo, 'Atom.occ (occupancy) is read only by copy/output sinks', 'occ', 'readers',
                  {'propka.atom.Atom.make_copy', 'propka.atom.Atom.make_pdb_line'})
    frames.clause(pr, repo, 'Atom.beta (B-factor) is read only by copy/output sinks', 'beta', 'readers',
                  {'propka.atom.Atom.make_copy', 'propka.atom.Atom.make_pdb_line'})
    frames.numb_only_sinks(pr, repo)


def task_element(pr, repo):
    ex = Executor(repo)
    fi = repo.func('propka.atom.Atom.set_properties')
    A = repo.cls('propka.atom.Atom')
    ex.contracts['propka.hybrid36.decode'] = lambda ex, ctx, fi_, a, k, so: 1

    def thunk(ex, ctx):
        nm = [I('n%d' % i) for i in range(4)]
        for c in nm:
            # letters, digits, blank, quote
            ctx.assume(Or(And(c >= 65, c <= 90), And(c >= 48, c <= 57), c == 32, c == 39))
        tmpl = "ATOM      1  N   ALA A   1      11.104   6.134  -6.504  1.00  0.00           N  \n"
        chars = [ord(c) for c in tmpl]
        chars[12:16] = nm
        at = record('at', A)
        try:
            ex.call_function(fi, [mk_str(chars)], self_obj=at)
        except PyRaise as e:
            if e.exc_name == 'IndexError':
                raise Infeasible()        # 4-character names whose columns 13-14 hold no letter (e.g. '12AB'): outside the claim
            raise
        el = at.attrs['element']
        name = at.attrs['name']
        is_h = ex.equals(el, 'H')
        nchars = str_chars(name)
        # first non-digit character of the stripped name
        first = None
        conds = []
        for i, c in enumerate(nchars):
            isdig = And(c >= 48, c <= 57) if not isinstance(c, int) else (48 <= c <= 57)
            conds.append((c, isdig))
        lead_h = False
        prefix_digits = True
        for c, isdig in conds:
            lead_h = Or(lead_h, And(prefix_digits, Not(isdig) if not isinstance(isdig, bool) else (not isdig), c == 72))
            prefix_digits = And(prefix_digits, isdig)
        ctx.oblige('EL: element == "H" only if the first non-digit character of the atom name is H (so a hydrogen record is never '
                   'named N, OXT or O\'\')', Implies(is_h, lead_h))
        ctx.oblige('EL: the name is the stripped field 13-16', len(nchars) <= 4)
        # converse (PDB column convention): the element symbol sits in columns 13-14; blanks and digits there are not part of it;
        # a name that fills all four columns has a one-letter element
        from pyvc.builtins_model import strip_forks
        e0 = strip_forks(ex, strip_forks(ex, nm[0:2], (32,)), tuple(range(48, 58)))
        if len(e0) == 0:
            spec_h = False
        elif len(e0) == 1:
            spec_h = (e0[0] == 72)
        else:
            spec_h = And(len(nchars) == 4, e0[0] == 72)
        ctx.oblige('EL: a record is a hydrogen <=> the element symbol in columns 13-14 (digits and blanks dropped; one letter when the '
                   'name fills all four columns) is H - also for digit-first names such as 1HD1', Sym(to_bool(is_h)) == Sym(to_bool(spec_h)))
    pr.explore(ex, thunk, 'element inference', max_paths=20000)


def task_protonate(pr, repo):
    ex = Executor(repo)
    P = 'propka.protonate.Protonate'
    for n in ('protonate_atom', 'protonate'):
        pr.under_contract(repo.func(P + '.' + n))
    pr.under_contract(repo.func('propka.hydrogens.setup_bonding_and_protonation'))
    A = repo.cls('propka.atom.Atom')
    calls = []
    for n in ('set_charge', 'set_number_of_protons_to_add', 'set_steric_number_and_lone_pairs', 'add_protons'):
        ex.contracts[P + '.' + n] = (lambda n: lambda ex, ctx, fi, a, k, so: calls.append(n))(n)

    def thunk(ex, ctx):
        pro = record('protonator', repo.cls(P))
        del calls[:]
        a1 = record('a1', A, is_protonated=False, element='N')
        ex.call_function(repo.func(P + '.protonate_atom'), [a1], self_obj=pro)
        first = list(calls)
        ex.call_function(repo.func(P + '.protonate_atom'), [a1], self_obj=pro)
        h = record('h', A, is_protonated=False, element='H')
        ex.call_function(repo.func(P + '.protonate_atom'), [h], self_obj=pro)
        ctx.oblige('PI: protonate_atom builds the hydrogens once (sets is_protonated), a second call and a call on a hydrogen do nothing',
                   first == ['set_charge', 'set_number_of_protons_to_add', 'set_steric_number_and_lone_pairs', 'add_protons']
                   and calls == first and a1.attrs['is_protonated'] is True and h.attrs['is_protonated'] is False)
    pr.explore(ex, thunk, 'protonate_atom')

    def t2(ex, ctx):
        seen = []
        ex.contracts[P + '.protonate_atom'] = lambda ex, ctx_, fi, a, k, so: seen.append(a[0])
        ex.contracts[P + '.remove_all_hydrogen_atoms'] = lambda ex, ctx_, fi, a, k, so: seen.append('remove')

        def bondmaker(ex, ctx_, ci, a, k, so=None):
            # any bond search started from here is recorded (a search AFTER the hydrogens are built bonds them by distance to whatever
            # heavy atom is near - the hydrogens are bonded by add_proton to their own atom only)
            bm = record('bm', None)
            bm.attrs['__lazy__'] = lambda o, name: Builtin('bm.' + name, lambda ex, *a_, **k_: seen.append('BondMaker.' + name))
            return bm
        ex.contracts['propka.bonds.BondMaker'] = bondmaker
        atoms = [record('x%d' % i, A, element=e) for i, e in enumerate(['N', 'H', 'C'])]
        conf = record('conf', None)
        conf.attrs['get_non_hydrogen_atoms'] = Builtin('g', lambda ex: [a for a in atoms if a.attrs['element'] != 'H'])
        mol = record('mol', None, conformation_names=['1A'], conformations={'1A': conf})
        ex.call_function(repo.func(P + '.protonate'), [mol], self_obj=record('pro', repo.cls(P)))
        ctx.oblige('PI: Protonate.protonate removes supplied hydrogens and then only calls protonate_atom on every heavy atom',
                   seen == ['remove', atoms[0], atoms[2]])
        del ex.contracts[P + '.protonate_atom']
    pr.explore(ex, t2, 'Protonate.protonate')

    def t3(ex, ctx):
        did = []
        ex.contracts['propka.hydrogens.setup_bonding'] = lambda ex, ctx_, fi, a, k, so: record('bm', None, add_pi_electron_information=Builtin('x', lambda ex, m: None))
        ex.contracts['propka.hydrogens.set_ligand_atom_names'] = lambda *a: None
        ex.contracts[P + '.protonate'] = lambda ex, ctx_, fi, a, k, so: did.append(1)
        ex.contracts[P] = lambda ex, ctx_, ci, a, k, so: record('pro', repo.cls(P))
        flag = B('protonate_all')
        mol = record('mol', None, options=record('o', None, protonate_all=flag))
        ex.call_function(repo.func('propka.hydrogens.setup_bonding_and_protonation'), [mol])
        ctx.oblige('PI: setup_bonding_and_protonation protonates everything iff options.protonate_all', (len(did) == 1) == flag
                   if isinstance(flag, bool) else And(Implies(flag, len(did) == 1), Implies(Not(flag), len(did) == 0)))
    pr.explore(ex, t3, 'setup_bonding_and_protonation')
    # argparse declarations (AST)
    bp = repo.func('propka.lib.build_parser')
    found = {}
    for n in _ast.walk(bp.node):
        if isinstance(n, _ast.Call):
            consts = [a.value for a in n.args if isinstance(a, _ast.Constant)]
            for opt, dest in (('--keep-protons', 'keep_protons'), ('--protonate-all', 'protonate_all')):
                if opt in consts:
                    kw = {k.arg: k.value for k in n.keywords}
                    found[opt] = (isinstance(kw.get('action'), _ast.Constant) and kw['action'].value == 'store_true'
                                  and isinstance(kw.get('dest'), _ast.Constant) and kw['dest'].value == dest
                                  and ('default' not in kw or (isinstance(kw['default'], _ast.Constant) and kw['default'].value is False)))
    pr.add(Ground('PI: --keep-protons and --protonate-all are store_true options (default False) with dest keep_protons / protonate_all',
                  found.get('--keep-protons') is True and found.get('--protonate-all') is True, detail=str(found)))


def task_bonded_groups(pr, repo):
    """BG: the covalent-coupling search finds the titratable groups within coupling_max_number_of_bonds bonds - the same set whether or
    not hydrogens are attached to the atoms on the way (hydrogens are only there with --protonate-all / keep-protons)."""
    ex = Executor(repo)
    CCn = 'propka.conformation_container.ConformationContainer'
    fi = repo.func(CCn + '.find_bonded_titratable_groups')
    pr.under_contract(fi)
    A = repo.cls('propka.atom.Atom')
    Gc = repo.cls('propka.group.Group')
    for nheavy in (2, 3, 4, 5):
        for with_h in (False, True):
            def thunk(ex, ctx, nheavy=nheavy, with_h=with_h):
                atoms = [record('a%d' % i, A, element='C', bonded_atoms=[], group=None, name='C%d' % i) for i in range(nheavy)]
                for i in range(nheavy - 1):
                    atoms[i].attrs['bonded_atoms'].append(atoms[i + 1])
                    atoms[i + 1].attrs['bonded_atoms'].append(atoms[i])
                g0 = record('g0', Gc, titratable=True, label='N+    1 A', atom=atoms[0])
                g1 = record('g1', Gc, titratable=True, label='CYS   1 A', atom=atoms[-1])
                atoms[0].attrs['group'], atoms[-1].attrs['group'] = g0, g1
                if with_h:
                    for i, a in enumerate(atoms):
                        for k in range(3 if i == 0 else 1):
                            h = record('h%d_%d' % (i, k), A, element='H', bonded_atoms=[a], group=None, name='H')
                            a.attrs['bonded_atoms'].append(h)
                conf = record('conf', repo.cls(CCn), parameters=record('P', None, coupling_max_number_of_bonds=3))
                r0 = ex.call_function(fi, [atoms[0], 1, atoms[0]], self_obj=conf)
                r1 = ex.call_function(fi, [atoms[-1], 1, atoms[-1]], self_obj=conf)
                near = (nheavy - 1) <= 3
                ok = (set(r0) == ({g1} if near else set())) and (set(r1) == ({g0} if near else set()))
                ctx.oblige('BG[%d bonds apart, hydrogens %s]: the groups found are exactly those within 3 bonds, from either end' %
                           (nheavy - 1, 'attached' if with_h else 'absent'), ok)
            pr.explore(ex, thunk, 'find_bonded_titratable_groups %d %s' % (nheavy, with_h))


def run(pr, repo):
    from . import C01, C17, C11
    # classification does not look at attached hydrogens (what makes --protonate-all harmless for the census)
    pr.parallel([(task_stutter, (t,)) for t in reader.TAGS] + [(task_absorb, ()), (task_element, ()), (task_protonate, ()),
                                                                (C01.task_classify, ()), (task_bonded_groups, ()),
                                                                # constructed hydrogens are stored ON the 0.001 grid, i.e. exactly as
                                                                # a written file carries them (own hydrogens fed back: same numbers)
                                                                (C17.task_add_proton, ()),
                                                                # kept hydrogens are bonded to their heavy atom only (never to each other)
                                                                (C11.task_check_distance, ())])
    task_columns(pr, repo)
    pr.assumptions += ['4-character atom names without a letter in columns 13-14 make set_properties raise IndexError (not claimed)',
                       'stutter/simulation rule; hydrogens are assumed to sit inside their residue block (HY pre)',
                       '"--protonate-all changes no pKa" and "own hydrogens fed back reproduce the results" rest on idempotence (PI) '
                       'plus the bounded monitor (bond re-perception and 0.001 rounding are not modelled)', 'A-ASCII, A-REFL']
    bounded(pr)


def bounded(pr):
    from . import native
    import random
    rng = random.Random(pr.seed)
    # conf-alt-AB / conf-model-missing-atoms: alternate locations / models that need the atom top-up (multi-conformation code paths)
    names = ['3SGB-subset', '1HPX', 'conf-alt-AB', 'conf-model-missing-atoms'] if pr.tier == 'quick' else \
        ['3SGB-subset', '1HPX', 'conf-alt-AB', 'conf-model-missing-atoms', 'conf-alt-BC', '3SGB', '1FTJ-Chain-A', '4DFR']
    ev, viol, classes = 0, [], set()
    for name in names:
        base = native.pdb_lines(name)
        ref = native.record(native.run_text(base))

        def edits():
            junk = ['REMARK 350 SOMETHING\n', 'ANISOU    1  N   ALA A   1     2406   1892   1614    198    519   -328       N  \n',
                    'CONECT    1    2\n', 'HETATM 9001  O   HOH A 901      10.000  10.000  10.000  1.00  0.00           O  \n',
                    'ATOM   9002  O   HOH A 902      12.000  10.000  10.000  1.00  0.00           O  \n']
            out = list(base)
            for j in junk * 3:
                out.insert(rng.randrange(0, len(out)), j)
            # junk never between a TER/OXT and ... anything: positions are arbitrary on purpose
            yield 'junk records, waters (HETATM and ATOM)', out, []
            cols = []
            for l in base:
                if l[:6] in ('ATOM  ', 'HETATM'):
                    l = l.rstrip('\n').ljust(80)
                    l = (l[:6] + '%5d' % (rng.randrange(1, 99999) if rng.random() < 0.9 else -rng.randrange(1, 9999)) + l[11:54] + '%6.2f%6.2f' % (rng.random(), rng.random() * 90)
                         + l[66:72] + 'SEG ' + rng.choice([' H', ' C', 'XX']) + rng.choice(['1+', '  ', '2-']) + '\n')
                cols.append(l)
            yield 'random serial/occupancy/B/segment/element/charge columns', cols, []
            yield '--protonate-all', base, ['--protonate-all']
            # the text ends right after its last atom record: no END / CONECT / MASTER after it and no line terminator
            last = max(i for i, l in enumerate(base) if l[:6] in ('ATOM  ', 'HETATM') and l[17:20] != 'HOH')
            yield 'input text ending right after the last atom record (no line terminator)', base[:last] + [base[last].rstrip('\r\n')], []
        # hydrogens present in the input have no effect (default options): amino-acid records without TER lines, hydrogens (moved off
        # the ideal positions) listed at the end of each residue - also after OXT - against the same records without hydrogens
        aa = [l for l in base if l[:6] == 'ATOM  ']
        if name in ('3SGB-subset', '1HPX', '3SGB'):
            ev += 1
            classes.add('hydrogen records, default options')
            try:
                d = native.diff_records(native.record(native.run_text(aa)),
                                        native.record(native.run_text(native.with_own_hydrogens(aa, perturb=0.2, at_residue_end=True))), tol=1e-9)
            except Exception as e:    # noqa
                d = ['%s: %s' % (type(e).__name__, e)]
            if d and len(viol) < 3:
                viol.append({'what': '%s (ATOM records, no TER) with hydrogen records at the end of every residue, default options: %s'
                                     % (name, d[:2]), 'replay': None})
        for what, lines, opts in edits():
            ev += 1
            classes.add(what)
            try:
                got = native.record(native.run_text(lines, opts))
                d = native.diff_records(ref, got, tol=1e-9)
            except Exception as e:    # noqa
                d = ['%s: %s' % (type(e).__name__, e)]
            if d and len(viol) < 3:
                viol.append({'what': '%s with %s: %s' % (name, what, d[:2]), 'replay': None})
        # own hydrogens fed back with --keep-protons (amino-acid content only)
        if name in ('3SGB-subset', '3SGB', '1FTJ-Chain-A'):
            ev += 1
            classes.add('own hydrogens')
            # the claim is for amino-acid structures: hetero records (ligands, ions - their typing looks at attached hydrogens) are left out
            base = [l for l in base if not l.startswith('HETATM')]
            mol = native.run_text(base)
            conf = mol.conformations[mol.conformation_names[0]]
            # insert the program's own hydrogens into the ORIGINAL records (right after their heavy atom)
            index = {}
            for l in base:
                if l[:6] in ('ATOM  ', 'HETATM'):
                    index[(l[21].strip() or '_', int(l[22:26]), l[26], l[12:16].strip())] = l
            extra = {}
            for a in conf.atoms:
                if a.element != 'H' or not a.bonded_atoms:
                    continue
                hv = a.bonded_atoms[0]
                if min(((a.x - b.x) ** 2 + (a.y - b.y) ** 2 + (a.z - b.z) ** 2) for b in conf.atoms
                       if b is not a and b is not hv and b.element != 'H') < 1.5 ** 2:
                    continue      # would be re-perceived as bonded to two heavy atoms: outside the claim
                k = (hv.chain_id, hv.res_num, hv.icode, hv.name)
                t = index.get(k)
                if t is None:
                    continue
                nm = a.name[:4]
                field = (' ' + nm).ljust(4) if len(nm) < 4 else nm
                t = t.rstrip('\n').ljust(80)
                extra.setdefault(k, []).append(t[:12] + field + t[16:30] + '%8.3f%8.3f%8.3f' % (a.x, a.y, a.z) + t[54:76] + ' H' + t[78:] + '\n')
            out = []
            for l in base:
                out.append(l)
                if l[:6] in ('ATOM  ', 'HETATM'):
                    out.extend(extra.get((l[21].strip() or '_', int(l[22:26]), l[26], l[12:16].strip()), []))
            try:
                cn = mol.conformation_names[0]
                got = native.record(native.run_text(out, ['--keep-protons']), confs=[cn])[cn]
                mine = native.record(mol)[cn]
                key = lambda g: (g['atom'], g['type'])      # noqa  (the fed-back file lists atoms in sorted order)
                gk = {key(g): g for g in got}
                d = []
                for g in mine:
                    if not g['titratable']:
                        continue
                    h = gk.get(key(g))
                    if h is None or abs(h['pka'] - g['pka']) > 0.011:
                        d.append('%s: pKa %r, with own hydrogens fed back %r' % (g['label'], g['pka'], h and h['pka']))
            except Exception as e:    # noqa
                d = ['%s: %s' % (type(e).__name__, e)]
            if d and len(viol) < 3:
                viol.append({'what': '%s own hydrogens fed back with --keep-protons: %s' % (name, d[:2]), 'replay': None})
    # unused records in a FILE (read from its path, not from a text stream) with letters outside ASCII - authors' names, journal titles
    import os
    import tempfile
    import propka.run as prun
    d7 = tempfile.mkdtemp()
    import locale
    enc7 = locale.getpreferredencoding(False)       # what open(path, 'rt') uses on this platform
    try:
        '\u00dc\u00c5\u2013'.encode(enc7)
        names7 = names[:2]
    except (UnicodeError, LookupError):
        names7 = []                                  # a platform whose text encoding cannot hold such a file: nothing to compare
    try:
        for name in names7:
            ev += 1
            classes.add('non-ASCII text in unused records (path input)')
            base = native.pdb_lines(name)
            extra = ['AUTHOR    J. M\u00dcLLER, \u00c5. S\u00d6DERBERG\n', 'REMARK 999 r\u00e9sum\u00e9 \u00b5 \u2013 \u00c5ngstr\u00f6m\n',
                     'JRNL        TITL   STRUCTURE \u00e0 2.0 \u00c5\n']
            plain, deco = os.path.join(d7, name + '.pdb'), os.path.join(d7, name + '-deco.pdb')
            open(plain, 'w', encoding=enc7).write(''.join(base))
            open(deco, 'w', encoding=enc7).write(''.join(extra[:2] + base[:5] + extra[2:] + base[5:]))
            try:
                a_ = native.record(prun.single(plain, optargs=['-q'], write_pka=False))
                b_ = native.record(prun.single(deco, optargs=['-q'], write_pka=False))
                d = native.diff_records(a_, b_, tol=1e-9)
            except Exception as e:    # noqa
                d = ['%s: %s' % (type(e).__name__, e)]
            if d and len(viol) < 3:
                viol.append({'what': '%s read from a file whose AUTHOR / REMARK / JRNL records contain non-ASCII letters (platform text encoding): %s'
                                     % (name, d[:2]), 'replay': None})
    finally:
        import shutil
        shutil.rmtree(d7, ignore_errors=True)
    pr.bounded.append({'name': 'C07-monitor: unused content / options on real runs', 'evaluations': ev, 'distinct_nontrivial': len(classes),
                       'bound': '%d structures x 3 edits (+ own hydrogens fed back)' % len(names),
                       'rule': 'whole-pipeline records compared to 1e-9 (fed-back hydrogens: 0.011, coordinates are written with 3 decimals)',
                       'violations': viol})
