"""C18 - parameter tables are symmetric, complete and self-consistent.

Deductive core on the real code:
  PW  PairwiseMatrix: inductive step of the invariant 'entry (a,b) exists <=> (b,a) exists, equal values'
      for add() from EVERY pre-state over the universe {g1, g2, other} (values symbolic), incl. g1 == g2,
      re-definition of an existing pair, and the 'default' row; get_value symmetric, falls back to default (TOP)
  IM  InteractionMatrix.add keeps SYM and COMPLETE for 0..4 existing rows (names/values abstract tokens),
      rejects rows of the wrong length; get_value symmetric                                             (TOP)
  SQ  squared_property: __get__ == plain**2 after every interleaving of reads/writes of either name   (TOP)
  GR  shipped file, exhaustively: interaction type for every pair of creatable group types (type list taken
      from the AST of group.py), model pKa + charge for every written type, inner < outer cut-offs    (TOP, ground)
"""
import ast as _ast
import itertools

from .common import *   # noqa: F401,F403
from pyvc.core import Builtin
from . import cfg

PM = 'propka.parameters.PairwiseMatrix'
IMX = 'propka.parameters.InteractionMatrix'


def task_pairwise(pr, repo):
    ex = Executor(repo)
    for n in ('add', 'insert', 'get_value'):
        pr.under_contract(repo.func(PM + '.' + n))
    P = repo.cls(PM)
    U = ['g1', 'g2', 'o']
    sym_pairs = [('g1', 'g2'), ('g1', 'o'), ('g2', 'o')]
    diag = ['g1', 'g2', 'o']

    def val(a, b):
        a, b = sorted((a, b))
        return (R('v_%s_%s_0' % (a, b)), R('v_%s_%s_1' % (a, b)))

    def prestate(bits):
        d = {}
        present = [p for p, bit in zip(sym_pairs + [(x, x) for x in diag], bits) if bit]
        for (a, b) in present:
            d.setdefault(a, {})[b] = val(a, b)
            d.setdefault(b, {})[a] = val(a, b)
        return d

    def inv(d, names):
        conj = []
        for a in names:
            for b in names:
                ia = a in d and b in d[a]
                ib = b in d and a in d[b]
                if ia != ib:
                    return False
                if ia:
                    conj.append(And(d[a][b][0] == d[b][a][0], d[a][b][1] == d[b][a][1]))
        return And(*conj) if conj else True

    cases = [('g1', 'g2'), ('g2', 'g1'), ('g1', 'g1')]
    all_bits = list(itertools.product((0, 1), repeat=6))
    if pr.tier == 'quick':
        all_bits = [b for i, b in enumerate(all_bits) if i % 3 == 0 or b[0]]      # every pre-state with the pair present + a third of the rest
    for bits in all_bits:
        for (k1, k2) in cases:
            def thunk(ex, ctx, bits=bits, k1=k1, k2=k2):
                d = prestate(bits)
                m = record('pm', P, name='sidechain_cutoffs', dictionary=d, default=(R('def0'), R('def1')))
                before = {a: dict(d[a]) for a in d}
                ex.call_function(repo.func(PM + '.add'), [(k1, k2, '1.25', '2.5')], self_obj=m)
                d2 = m.attrs['dictionary']
                tag = 'pre-state %s add(%s,%s)' % (''.join(map(str, bits)), k1, k2)
                new = (1.25, 2.5)
                ok_new = (k1 in d2 and k2 in d2[k1] and k2 in d2 and k1 in d2[k2])
                frame = True
                for a in U:
                    for b in U:
                        if {a, b} == {k1, k2}:
                            continue
                        was = a in before and b in before[a]
                        now = a in d2 and b in d2[a]
                        if was != now or (was and d2[a][b] is not before[a][b]):
                            frame = False
                ctx.oblige('PW[%s]: invariant (a,b) <=> (b,a) with equal values is preserved; both orientations carry the new '
                           'value; every other entry untouched' % tag,
                           And(inv(d2, U), ok_new and And(d2[k1][k2][0] == new[0], d2[k1][k2][1] == new[1],
                                                          d2[k2][k1][0] == new[0], d2[k2][k1][1] == new[1]), frame))
                # look-ups: symmetric, default for unspecified pairs (incl. a name never listed)
                gv = repo.func(PM + '.get_value')
                conj = []
                for a in U + ['never']:
                    for b in U + ['never']:
                        r1 = ex.call_function(gv, [a, b], self_obj=m)
                        r2 = ex.call_function(gv, [b, a], self_obj=m)
                        listed = a in d2 and b in d2[a]
                        conj.append(And(r1[0] == r2[0], r1[1] == r2[1]))
                        if not listed:
                            conj.append(And(r1[0] == R('def0'), r1[1] == R('def1')))
                ctx.oblige('PW[%s]: get_value(a,b) == get_value(b,a); unspecified pairs give the declared default' % tag, And(*conj))
            pr.explore(ex, thunk, 'PairwiseMatrix.add')

    def t_default(ex, ctx):
        d = prestate((1, 0, 1, 0, 0, 1))
        m = record('pm', P, name='x', dictionary=d, default=(0.0, 0.0))
        snap = {a: dict(d[a]) for a in d}
        ex.call_function(repo.func(PM + '.add'), [('default', '3.0', '4.0')], self_obj=m)
        same = all(m.attrs['dictionary'][a][b] is snap[a][b] for a in snap for b in snap[a]) and \
            set(m.attrs['dictionary']) == set(snap)
        r = ex.call_function(repo.func(PM + '.get_value'), ['never', 'g1'], self_obj=m)
        ctx.oblige('PW: the default row sets the fall-back value and touches no pair entry (also when it comes last)',
                   same and m.attrs['default'] == (3.0, 4.0) and r == (3.0, 4.0))
    pr.explore(ex, t_default, 'PairwiseMatrix default')

    def t_lookup_frame(ex, ctx):
        # a look-up is a pure read: it stores nothing, so a default declared LATER (a second parameter file read into the same object)
        # applies to every unspecified pair, in both orientations, whether or not the pair was looked up before
        d = prestate((1, 0, 0, 0, 0, 0))
        m = record('pm', P, name='x', dictionary=d, default=(R('old0'), R('old1')))
        gv = repo.func(PM + '.get_value')
        r0 = ex.call_function(gv, ['g1', 'o'], self_obj=m)
        snap_ok = set(m.attrs['dictionary']) == {'g1', 'g2'} and all(set(v) <= {'g1', 'g2'} for v in m.attrs['dictionary'].values())
        ex.call_function(repo.func(PM + '.add'), [('default', '2.0', '3.5')], self_obj=m)
        r1 = ex.call_function(gv, ['g1', 'o'], self_obj=m)
        r2 = ex.call_function(gv, ['o', 'g1'], self_obj=m)
        ctx.oblige('PW: get_value stores nothing; an unspecified pair looked up BEFORE the default was (re)declared gives the default '
                   'now in force, in both orientations',
                   And(snap_ok, r0[0] == R('old0'), *[Sym(to_bool(x == y)) if isinstance(x == y, Sym) else (x == y)
                                                        for x, y in ((r1[0], 2.0), (r1[1], 3.5), (r2[0], 2.0), (r2[1], 3.5))]))
    pr.explore(ex, t_lookup_frame, 'PairwiseMatrix look-up frame')


def task_interaction(pr, repo):
    ex = Executor(repo)
    for n in ('add', 'get_value'):
        pr.under_contract(repo.func(IMX + '.' + n))
    M = repo.cls(IMX)

    def build(ex, rows):
        m = ex.instantiate(M, ['interaction_matrix'], {})
        for r in rows:
            ex.call_function(repo.func(IMX + '.add'), [tuple(r)], self_obj=m)
        return m

    for k in range(0, 5):
        for dup in (False, True):
            if dup and k == 0:
                continue

            def thunk(ex, ctx, k=k, dup=dup):
                names = ['T%d' % i for i in range(k)]
                rows = [[names[i]] + ['v%d_%d' % (i, j) for j in range(i + 1)] for i in range(k)]
                m = build(ex, rows)
                new = names[0] if dup else 'NEW'
                ex.call_function(repo.func(IMX + '.add'), [tuple([new] + ['n%d' % j for j in range(k + 1)])], self_obj=m)
                keys = m.attrs['ordered_keys']
                d = m.attrs['dictionary']
                gv = repo.func(IMX + '.get_value')
                probes = keys + ['never'] + [x.lower() for x in keys[:2]] + [x.capitalize() for x in keys[:1]]
                sym = all(ex.call_function(gv, [a, b], self_obj=m) == ex.call_function(gv, [b, a], self_obj=m)
                          for a in probes for b in probes)
                exact = all(ex.call_function(gv, [x.lower(), keys[0]], self_obj=m) is None for x in keys[:2] if x.lower() != x)
                complete = all(a in d and b in d[a] for a in keys for b in keys)
                newrow = all(d[new][g] == 'n%d' % j for j, g in enumerate(keys) if not (dup and g == new and j < k))
                ctx.oblige('IM[%d rows%s]: after add() the table is symmetric and defined for every pair of listed types; '
                           'the new row holds the given values' % (k, ', re-listed name' if dup else ''),
                           sym and complete and newrow and exact)
            pr.explore(ex, thunk, 'InteractionMatrix.add k=%d' % k)

    def t_len(ex, ctx):
        m = build(ex, [['A', 'x']])
        try:
            ex.call_function(repo.func(IMX + '.add'), [('B', 'y')], self_obj=m)
            ctx.oblige('IM: a row with too few columns is rejected with ValueError', False)
        except PyRaise as e:
            ctx.oblige('IM: a row with too few columns is rejected with ValueError', e.exc_name == 'ValueError')
    pr.explore(ex, t_len, 'InteractionMatrix.add length check')

    def t_float(ex, ctx):
        m = build(ex, [['A', '0.5'], ['B', 'N', '1']])
        d = m.attrs['dictionary']
        ctx.oblige('IM: numeric cells are stored as numbers, symbolic cells as text, symmetrically',
                   d['A']['A'] == 0.5 and d['B']['A'] == 'N' and d['A']['B'] == 'N' and d['B']['B'] == 1.0)
    pr.explore(ex, t_float, 'InteractionMatrix value parsing')


def task_squared(pr, repo):
    ex = Executor(repo)
    SP = 'propka.parameters.squared_property'
    for n in ('__set_name__', '__get__', '__set__'):
        pr.under_contract(repo.func(SP + '.' + n))
    Pcls = repo.cls('propka.parameters.Parameters')
    names = ['desolv_cutoff', 'buried_cutoff', 'coulomb_cutoff1', 'coulomb_cutoff2']

    def thunk(ex, ctx):
        # two instances sharing the class-level descriptors: state must not leak between them
        p = record('p', Pcls, **{n: R('p_' + n) for n in names})
        q = record('q', Pcls, **{n: R('q_' + n) for n in names})
        conj = []
        for n in names:
            v0 = ex.getattr(p, n + '_squared')
            conj.append(v0 == p.attrs[n] * p.attrs[n])
            w = R('new_' + n)
            ex.setattr(p, n, w)                       # plain name assigned (what the cfg parser does)
            conj.append(ex.getattr(p, n + '_squared') == w * w)
            conj.append(ex.getattr(q, n + '_squared') == q.attrs[n] * q.attrs[n])      # other instance unaffected
            s = R('sq_' + n)
            ctx.assume(s >= 0)
            ex.setattr(p, n + '_squared', s)          # squared name assigned
            conj.append(ex.getattr(p, n + '_squared') == s)
            conj.append(p.attrs[n] * p.attrs[n] == s)
            ex.setattr(p, n, w)                       # and the plain one again afterwards
            conj.append(ex.getattr(p, n + '_squared') == w * w)
        ctx.oblige('SQ: each squared cut-off equals the square of the plain one after every interleaving of assignments '
                   'to either name, per instance', And(*conj))
    pr.explore(ex, thunk, 'squared_property')


def group_types_from_ast(repo):
    m = repo.module('propka.group')
    types = {}
    for c in m.classes.values():
        for n in _ast.walk(c.node):
            if (isinstance(n, _ast.Assign) and len(n.targets) == 1 and isinstance(n.targets[0], _ast.Attribute)
                    and n.targets[0].attr == 'type' and isinstance(n.value, _ast.Constant) and n.value.value):
                types.setdefault(n.value.value, c.name)
    return types


def ground_shipped(pr, repo):
    p = cfg.parameters()
    types = group_types_from_ast(repo)
    # backbone groups are never passed to the pair-interaction look-up (get_sidechain_groups drops 'BB*');
    # LG/ALG/BLG need the external Marvin typing, which the shipped 'ligand_typing groups' never selects
    skip = {'BBN', 'BBC', 'LG', 'ALG', 'BLG'}
    side = sorted(t for t in types if t not in skip)
    im = p.interaction_matrix
    have = [t for t in side if t in im.dictionary]
    for t in side:
        pr.add(Ground('GR(a): group type %r (class %s) has a row in the shipped interaction matrix' % (t, types[t]),
                      t in im.dictionary, detail='' if t in im.dictionary else 'no row named %r' % t,
                      replay=("import sys\nfrom props import cfg\np = cfg.parameters()\n"
                              "v = p.interaction_matrix.get_value(%r, 'COO')\nprint('interaction type (%s, COO) =', v)\n"
                              "sys.exit(1 if v is None else 0)\n" % (t, t))))
    for t in have:
        missing = [u for u in have if im.get_value(t, u) is None or im.get_value(t, u) != im.get_value(u, t)]
        pr.add(Ground('GR(a): interaction type of %r defined and symmetric with each of the %d types that have a row'
                      % (t, len(have)), not missing, detail='undefined/asymmetric with: %s' % missing[:40]))
    asym = [(t, u) for t in side for u in side if im.get_value(t, u) != im.get_value(u, t)]
    pr.add(Ground('GR(a): interaction-type look-up symmetric for all %d x %d pairs of creatable group types (with or without a row)'
                  % (len(side), len(side)), not asym, detail=str(asym[:6])))
    for w in p.write_out_order:
        ok = w in p.model_pkas
        pr.add(Ground('GR(b): written type %r has a model pKa' % w, ok, detail='' if ok else 'no model_pkas row',
                      replay=("import sys\nfrom props import cfg\np = cfg.parameters()\nprint(%r in p.model_pkas)\n"
                              "sys.exit(0 if %r in p.model_pkas else 1)\n" % (w, w))))
    # charge of every written type: through the residue -> group-type mapping
    def gtype(w):
        for k, v in p.protein_group_mapping.items():
            if k.split('-')[0] == w:
                return v
        return w
    for w in p.write_out_order:
        t = gtype(w)
        ok = p.charge.get(t, 0) != 0
        pr.add(Ground('GR(b): written type %r (group type %r) has a non-zero charge' % (w, t), ok))
    bad = [(a, b) for a, dd in p.sidechain_cutoffs.dictionary.items() for b, c in dd.items() if not c[0] < c[1]]
    pr.add(Ground('GR(c): inner < outer cut-off for every side-chain pair and the default; coulomb_cutoff1 < coulomb_cutoff2; '
                  'buried_cutoff < desolv_cutoff',
                  not bad and p.sidechain_cutoffs.default[0] < p.sidechain_cutoffs.default[1]
                  and p.coulomb_cutoff1 < p.coulomb_cutoff2 and p.buried_cutoff < p.desolv_cutoff, detail=str(bad)))
    sq = all(abs(getattr(p, n + '_squared') - getattr(p, n) ** 2) == 0 for n in
             ('desolv_cutoff', 'buried_cutoff', 'coulomb_cutoff1', 'coulomb_cutoff2'))
    pr.add(Ground('GR: on the shipped file every *_squared cut-off equals the square of the plain one', sq))
    symm = all(p.sidechain_cutoffs.get_value(a, b) == p.sidechain_cutoffs.get_value(b, a) for a in side for b in side)
    pr.add(Ground('GR: shipped cut-off look-ups symmetric for all %d x %d creatable type pairs' % (len(side), len(side)), symm))


def task_read_file(pr, repo):
    """RF: read_parameter_file hands EVERY line of the file to parse_line, once each and in file order (a later line overrides an
    earlier one; a line that repeats an earlier one is not redundant when something was declared in between)."""
    ex = Executor(repo)
    fi = repo.func('propka.input.read_parameter_file')
    pr.under_contract(fi)
    files = {'A-B-A defaults': ['sidechain_cutoffs default 3.0 4.0\n', 'sidechain_cutoffs default 2.0 2.5\n',
                                'sidechain_cutoffs default 3.0 4.0\n'],
             'duplicates, blank and comment lines': ['ignore_residues HOH\n', '\n', '# comment\n', 'ignore_residues HOH\n',
                                                     'desolv_cutoff 20.0\n', 'desolv_cutoff   20.0\n', 'desolv_cutoff 20.0'],
             'empty file': []}
    for what, lines in files.items():
        def thunk(ex, ctx, what=what, lines=lines):
            got = []
            h = record('handle', None)
            h.attrs['__iter_items__'] = list(lines)
            ex.contracts['propka.input.open_file_for_reading'] = lambda ex_, c_, f_, a, k, so: h
            params = record('P', None)
            from pyvc.core import Builtin
            params.attrs['parse_line'] = Builtin('parse_line', lambda ex_, line: got.append(line))
            # the tables the lines fill (here: a pair whose two numbers come in descending order, as a hand-edited file may have them)
            pm = ex.instantiate(repo.cls(PM), ['sidechain_cutoffs'], {})
            ex.call_function(repo.func(PM + '.add'), [('AAA', 'BBB', '4.5', '3.5')], self_obj=pm)
            params.attrs['sidechain_cutoffs'] = pm
            r = ex.call_function(fi, ['my.cfg', params])
            ctx.oblige('RF[%s]: every line reaches parse_line exactly once, unchanged and in file order; the same Parameters object is '
                       'returned' % what, got == list(lines) and r is params)
            gv = repo.func(PM + '.get_value')
            v1 = ex.call_function(gv, ['AAA', 'BBB'], self_obj=pm)
            v2 = ex.call_function(gv, ['BBB', 'AAA'], self_obj=pm)
            ctx.oblige('RF[%s]: reading a file leaves every pair table symmetric (nothing rewrites one orientation of a pair after the '
                       'lines have been parsed)' % what, tuple(v1) == tuple(v2))
        pr.explore(ex, thunk, 'read_parameter_file ' + what)


def task_version_lookup(pr, repo):
    # the look-up the energy code goes through answers from the parameter object in use (C16-VD)
    from . import C16
    C16.task_version_hb(pr, repo)


def task_created_types(pr, repo):
    """CT: the group types the program can create are the ones enumerated for the exhaustive look-up check GR: every group returned
    by the real ligand / protein / ion classification, for every SYBYL type the classifier mentions and 0..6 bonded heavy atoms, carries a
    type that is assigned as a string literal in propka/group.py (the census GR ranges over)."""
    from . import C01
    ex = Executor(repo)
    GM = 'propka.group.'
    fi = repo.func(GM + 'is_ligand_group_by_groups')
    pr.under_contract(fi)
    ex.contracts['propka.protonate.Protonate.protonate_atom'] = lambda *a, **k: None
    census = group_types_from_ast(repo)
    sybyl = sorted({n.value for n in _ast.walk(fi.node) if isinstance(n, _ast.Constant) and isinstance(n.value, str)
                    and (n.value[:1].isupper() and len(n.value) <= 5 and ' ' not in n.value)})
    pr.add(Ground('CT: SYBYL types mentioned by the ligand classifier are enumerated (%d)' % len(sybyl), len(sybyl) >= 10, kind='aux',
                  detail=str(sybyl)))
    params = record('P', None, ligand_typing='groups')

    def thunk(ex, ctx):
        made = {}
        for sy in sybyl:
            for heavy in range(0, 7):
                for el in ('C', 'N', 'O', 'P'):
                    nb = [C01.mkatom(repo, element=el, name='%s%d' % (el, i), sybyl_type={'C': 'C.3', 'N': 'N.pl3', 'O': 'O.co2', 'P': 'P.3'}[el])
                          for i in range(heavy)]
                    at = C01.mkatom(repo, type='hetatm', res_name='LIG', name='X1', sybyl_type=sy, bonded_atoms=nb,
                                    element=sy.split('.')[0])
                    for b in nb:
                        b.attrs['bonded_atoms'] = [at]
                    g = ex.call_function(fi, [params, at])
                    if isinstance(g, Obj):
                        made.setdefault(g.attrs.get('type'), (sy, heavy, el))
        im = cfg.parameters().interaction_matrix
        unknown = {t: w for t, w in made.items() if not isinstance(t, str) or (t not in census and t not in im.dictionary)}
        ctx.oblige('CT: every group the ligand classification creates (SYBYL type x 0..6 bonded heavy atoms of C / N / O / P) carries one of '
                   'the %d literal group types that the look-up check GR enumerates, or a type with a row in the shipped interaction '
                   'matrix - no type without a row is made up at run time' % len(census),
                   not unknown and len(made) >= 10)
        ctx.notes.append('created: %s; outside the census: %s' % (sorted(map(str, made)), unknown))
    pr.explore(ex, thunk, 'created group types')


def run(pr, repo):
    pr.level = 'other'
    pr.explanation = ('deductive proof of the table invariants (VC) + exhaustive ground evaluation of the shipped file; '
                      'level is "other" because 3 recorded known findings (D10a-c) mean the completeness clause does NOT hold on this tree: '
                      'their obligations are refuted on every run and reported as KNOWN-FINDING, so discharged < obligations')
    from . import C03
    pr.parallel([(task_pairwise, ()), (task_interaction, ()), (task_squared, ()), (task_read_file, ()), (C03.task_param_lookup, ()), (task_version_lookup, ()), (task_created_types, ())])
    ground_shipped(pr, repo)
    pr.assumptions += ['PW: pre-states range over the universe {g1, g2, other}; entries of further names behave like "other" '
                       '(add() touches only the two keys it is given)',
                       'IM: 0..4 existing rows with abstract tokens; longer tables argued by the same loop',
                       'Parameters.parse_line dispatch (dataclass annotations) is not symbolically executed: bounded monitor']
    bounded(pr)


def bounded(pr):
    """Bounded: generated parameter files through the REAL parser."""
    import random
    from . import native
    import importlib
    from propka.parameters import Parameters
    from propka.input import read_parameter_file
    import tempfile
    import os
    rng = random.Random(pr.seed)
    base = open(os.path.join(native.REPO, 'propka', 'propka.cfg')).read().splitlines(True)
    ev, viol, classes = 0, [], set()
    n = 12 if pr.tier == 'quick' else 150
    names = ['COO', 'ARG', 'HIS', 'LYS', 'TYR', 'SER', 'ZZZ']
    for k in range(n):
        lines = list(base)
        extra = []
        for _ in range(rng.randint(1, 4)):
            a, b = rng.choice(names), rng.choice(names)
            lo = round(rng.uniform(1, 3), 2)
            extra.append('sidechain_cutoffs %s %s %s %s\n' % (a, b, lo, lo + 1))
        if rng.random() < 0.5:
            extra.append('sidechain_cutoffs default %s %s\n' % (2.0 + k % 3, 5.0))
        if rng.random() < 0.5:
            extra.append('desolv_cutoff %s\n' % rng.choice((16.0, 18.5, 25.0)))
        if rng.random() < 0.3:
            extra.append('desolv_cutoff_squared %s\n' % rng.choice((256.0, 300.0)))
            extra.append('desolv_cutoff %s\n' % rng.choice((17.0, 21.0)))
        pos = rng.choice(('end', 'shuffle'))
        if k % 3 == 1:
            # last line of the file (written without terminator below): every character of its last value counts
            extra.append('sidechain_cutoffs default 3.25 4.75\n' if k % 2 else 'desolv_cutoff 18.25\n')
        lines += extra
        if k == 0:
            fd, path = tempfile.mkstemp(suffix='.cfg')
            os.close(fd)
            import atexit
            atexit.register(lambda p_=path: os.path.exists(p_) and os.unlink(p_))     # also when a monitor step raises
        # the SAME path is rewritten with other content each time (a regenerated custom parameter file);
        # every third file ends without a line terminator, some lines carry a trailing comment or Windows line ends
        text = ''.join(lines)
        if k % 3 == 1:
            text = text.rstrip('\n')
        if k % 4 == 2:
            text = text.replace('\n', '  # generated\n', 5)
        if k % 5 == 3:
            text = text.replace('\n', '\r\n')
        open(path, 'w', newline='').write(text)
        try:
            p = read_parameter_file(path, Parameters())
            p2 = Parameters()
            p2.desolv_cutoff_squared          # read once on another instance first (descriptor state)
            ev += 1
            classes.add((len(extra), pos))
            bad = []
            allnames = names + ['never']
            for a in allnames:
                for b in allnames:
                    if p.sidechain_cutoffs.get_value(a, b) != p.sidechain_cutoffs.get_value(b, a):
                        bad.append('cut-off (%s,%s) %r != (%s,%s) %r' % (a, b, p.sidechain_cutoffs.get_value(a, b), b, a,
                                                                       p.sidechain_cutoffs.get_value(b, a)))
            if p.sidechain_cutoffs.get_value('never', 'COO') != p.sidechain_cutoffs.default:
                bad.append('unspecified pair does not fall back to the default')
            dl = [l.split() for l in lines if l.startswith('sidechain_cutoffs default')]
            if dl and tuple(float(x) for x in dl[-1][2:4]) != tuple(p.sidechain_cutoffs.default):
                bad.append('default %r is not the one declared last in this file (%r)' % (p.sidechain_cutoffs.default, dl[-1][2:4]))
            dc = [l.split() for l in lines if l.startswith('desolv_cutoff ')]
            if dc and float(dc[-1][1]) != p.desolv_cutoff:
                bad.append('desolv_cutoff %r is not the value of this file (%r)' % (p.desolv_cutoff, dc[-1][1]))
            for nm in ('desolv_cutoff', 'buried_cutoff', 'coulomb_cutoff1', 'coulomb_cutoff2'):
                if abs(getattr(p, nm + '_squared') - getattr(p, nm) ** 2) > 1e-9 * getattr(p, nm) ** 2:
                    bad.append('%s_squared %r != %s**2 %r' % (nm, getattr(p, nm + '_squared'), nm, getattr(p, nm) ** 2))
            if bad and len(viol) < 3:
                viol.append({'what': 'parameter file with extra lines %r: %s' % (extra, bad[:2]), 'replay': None})
        finally:
            pass
    os.unlink(path)
    pr.bounded.append({'name': 'C18-monitor: generated parameter files through the real parser', 'evaluations': ev,
                       'distinct_nontrivial': len(classes), 'bound': '%d files' % n,
                       'rule': 'shipped file + 1-4 extra/duplicate pair rows, optional default row, scalar overrides; last line without terminator, trailing comments, CRLF; '
                               'symmetry, default fall-back and squared consistency checked', 'violations': viol})
