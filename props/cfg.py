"""The shipped parameter file, read by the REAL parser (for GROUND obligations)."""
import os
import sys
from pyvc import REPO

_cache = {}


def parameters():
    if 'p' not in _cache:
        if REPO not in sys.path:
            sys.path.insert(0, REPO)
        import logging
        logging.disable(logging.CRITICAL)
        from propka.parameters import Parameters
        from propka.input import read_parameter_file
        _cache['p'] = read_parameter_file('propka.cfg', Parameters())
    return _cache['p']
