"""Native runs of the real pipeline (bounded stand-ins / monitors).  Everything here executes
/repo's code under CPython; nothing here is counted as proved."""
import io
import os
import sys

from pyvc import REPO

if REPO not in sys.path:
    sys.path.insert(0, REPO)
import logging   # noqa: E402
logging.disable(logging.CRITICAL)

PDB_DIR = os.path.join(REPO, 'tests', 'pdb')


def pdb_lines(name):
    return open(os.path.join(PDB_DIR, name + '.pdb')).read().splitlines(True)


def run_text(text, optargs=(), name='x.pdb'):
    import propka.run as run
    if not isinstance(text, str):
        text = ''.join(text)
    return run.single(name, optargs=['-q'] + list(optargs), stream=io.StringIO(text), write_pka=False)


def group_record(g, with_label=True):
    dets = {}
    for t in ('sidechain', 'backbone', 'coulomb'):
        dets[t] = [((d.group.label if with_label else None), d.value) for d in g.determinants[t]]
    return {'label': g.label if with_label else None, 'type': g.type, 'residue_type': g.residue_type,
            'pka': g.pka_value, 'model_pka': g.model_pka, 'evol': g.energy_volume, 'eloc': g.energy_local,
            'buried': g.buried, 'nvol': g.num_volume, 'charge': g.charge, 'titratable': g.titratable,
            'coupled': len(g.non_covalently_coupled_groups), 'dets': dets,
            # what the report does with the group: listed or not, discarded because of covalent coupling to which partner type
            'reported': bool(g.use_in_calculations()) if hasattr(g, 'use_in_calculations') else None,
            'discarded': (g.coupled_titrating_group.residue_type if getattr(g, 'coupled_titrating_group', None) is not None else None),
            'atom': (g.atom.chain_id, g.atom.res_num, g.atom.icode, g.atom.name, g.atom.res_name), 'atom_type': g.atom.type}


def record(mol, confs=None, with_label=True):
    out = {}
    for name in (confs or (list(mol.conformation_names) + ['AVR'])):
        c = mol.conformations[name]
        out[name] = [group_record(g, with_label) for g in c.groups]
    return out


def close(a, b, tol):
    if isinstance(a, float) or isinstance(b, float):
        if a is None or b is None:
            return a is b
        return abs(a - b) <= tol
    return a == b


def diff_records(r1, r2, tol=1e-9, keys=('pka', 'evol', 'eloc', 'buried', 'nvol', 'type', 'reported', 'discarded'), dets=True, limit=5):
    out = []
    for conf in r1:
        if conf not in r2:
            out.append('conformation %s missing' % conf)
            continue
        a, b = r1[conf], r2[conf]
        if len(a) != len(b):
            out.append('%s: %d groups vs %d' % (conf, len(a), len(b)))
            continue
        for x, y in zip(a, b):
            for k in keys:
                if not close(x[k], y[k], tol):
                    out.append('%s %s %s: %r vs %r' % (conf, x['label'] or x['atom'], k, x[k], y[k]))
            if dets:
                for t in x['dets']:
                    va = sorted(v for _, v in x['dets'][t])
                    vb = sorted(v for _, v in y['dets'][t])
                    if len(va) != len(vb) or any(abs(p - q) > tol for p, q in zip(va, vb)):
                        out.append('%s %s %s determinants: %r vs %r' % (conf, x['label'] or x['atom'], t, va, vb))
            if len(out) >= limit:
                return out
    return out


def atom_lines(lines):
    return [l for l in lines if l[:6] in ('ATOM  ', 'HETATM')]


def set_cols(line, lo, hi, text):
    line = line.rstrip('\n').ljust(80)
    return line[:lo] + text.rjust(hi - lo)[:hi - lo] + line[hi:] + '\n'


REPLAY_HEAD = r'''
import sys, io, logging
logging.disable(logging.CRITICAL)
sys.path.insert(0, %(verif)r)
from props import native
'''
