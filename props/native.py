"""Native runs of the real pipeline (bounded stand-ins / monitors).  Everything here executes
/repo's code under CPython; nothing here is counted as proved."""
import io
import os
import sys

from pyvc import REPO

if REPO not in sys.path:
    sys.path.insert(0, REPO)
import logging   # noqa: E402
logging.disable(logging.CRITICAL)

PDB_DIR = os.path.join(REPO, 'tests', 'pdb')


def pdb_lines(name):
    return open(os.path.join(PDB_DIR, name + '.pdb')).read().splitlines(True)


def run_text(text, optargs=(), name='x.pdb'):
    import propka.run as run
    if not isinstance(text, str):
        text = ''.join(text)
    return run.single(name, optargs=['-q'] + list(optargs), stream=io.StringIO(text), write_pka=False)


def group_record(g, with_label=True):
    dets = {}
    for t in ('sidechain', 'backbone', 'coulomb'):
        dets[t] = [((d.group.label if with_label else None), d.value) for d in g.determinants[t]]
    return {'label': g.label if with_label else None, 'type': g.type, 'residue_type': g.residue_type,
            'pka': g.pka_value, 'model_pka': g.model_pka, 'evol': g.energy_volume, 'eloc': g.energy_local,
            'buried': g.buried, 'nvol': g.num_volume, 'charge': g.charge, 'titratable': g.titratable,
            'coupled': len(g.non_covalently_coupled_groups), 'dets': dets,
            # what the report does with the group: listed or not, discarded because of covalent coupling to which partner type
            'reported': bool(g.use_in_calculations()) if hasattr(g, 'use_in_calculations') else None,
            'discarded': (g.coupled_titrating_group.residue_type if getattr(g, 'coupled_titrating_group', None) is not None else None),
            'atom': (g.atom.chain_id, g.atom.res_num, g.atom.icode, g.atom.name, g.atom.res_name), 'atom_type': g.atom.type}


def record(mol, confs=None, with_label=True):
    out = {}
    for name in (confs or (list(mol.conformation_names) + ['AVR'])):
        c = mol.conformations[name]
        out[name] = [group_record(g, with_label) for g in c.groups]
    return out


def close(a, b, tol):
    if isinstance(a, float) or isinstance(b, float):
        if a is None or b is None:
            return a is b
        return abs(a - b) <= tol
    return a == b


def diff_records(r1, r2, tol=1e-9, keys=('pka', 'evol', 'eloc', 'buried', 'nvol', 'type', 'reported', 'discarded'), dets=True, limit=5):
    out = []
    for conf in r1:
        if conf not in r2:
            out.append('conformation %s missing' % conf)
            continue
        a, b = r1[conf], r2[conf]
        if len(a) != len(b):
            out.append('%s: %d groups vs %d' % (conf, len(a), len(b)))
            continue
        for x, y in zip(a, b):
            for k in keys:
                if not close(x[k], y[k], tol):
                    out.append('%s %s %s: %r vs %r' % (conf, x['label'] or x['atom'], k, x[k], y[k]))
            if dets:
                for t in x['dets']:
                    va = sorted(v for _, v in x['dets'][t])
                    vb = sorted(v for _, v in y['dets'][t])
                    if len(va) != len(vb) or any(abs(p - q) > tol for p, q in zip(va, vb)):
                        out.append('%s %s %s determinants: %r vs %r' % (conf, x['label'] or x['atom'], t, va, vb))
            if len(out) >= limit:
                return out
    return out


def atom_lines(lines):
    return [l for l in lines if l[:6] in ('ATOM  ', 'HETATM')]


def set_cols(line, lo, hi, text):
    line = line.rstrip('\n').ljust(80)
    return line[:lo] + text.rjust(hi - lo)[:hi - lo] + line[hi:] + '\n'


REPLAY_HEAD = r'''
import sys, io, logging
logging.disable(logging.CRITICAL)
sys.path.insert(0, %(verif)r)
from props import native
'''


def with_own_hydrogens(base, perturb=0.0, at_residue_end=False):
    """The records of `base` (amino-acid content) with the program's own hydrogens inserted after their heavy atoms; `perturb` moves
    every hydrogen by a deterministic offset of that size (A) so that they are NOT at the program's ideal positions."""
    import math
    base = [l for l in base if not l.startswith('HETATM')]
    mol = run_text(base)
    conf = mol.conformations[mol.conformation_names[0]]
    index = {}
    for l in base:
        if l[:6] == 'ATOM  ':
            index[(l[21].strip() or '_', int(l[22:26]), l[26], l[12:16].strip())] = l
    extra = {}
    n = 0
    for a in conf.atoms:
        if a.element != 'H' or not a.bonded_atoms:
            continue
        hv = a.bonded_atoms[0]
        if min(((a.x - b.x) ** 2 + (a.y - b.y) ** 2 + (a.z - b.z) ** 2) for b in conf.atoms
               if b is not a and b is not hv and b.element != 'H') < 1.6 ** 2:
            continue
        k = (hv.chain_id, hv.res_num, hv.icode, hv.name)
        t = index.get(k)
        if t is None:
            continue
        n += 1
        dx, dy, dz = (perturb * math.cos(n), perturb * math.sin(n) * 0.6, perturb * math.sin(2.0 * n) * 0.5) if perturb else (0.0, 0.0, 0.0)
        nm = a.name[:4]
        field = (' ' + nm).ljust(4) if len(nm) < 4 else nm
        t = t.rstrip('\n').ljust(80)
        extra.setdefault(k, []).append(t[:12] + field + t[16:30] + '%8.3f%8.3f%8.3f' % (a.x + dx, a.y + dy, a.z + dz) + t[54:76] + ' H' + t[78:] + '\n')
    out = []
    if not at_residue_end:
        for l in base:
            out.append(l)
            if l[:6] == 'ATOM  ':
                out.extend(extra.get((l[21].strip() or '_', int(l[22:26]), l[26], l[12:16].strip()), []))
        return out
    # the usual layout of protonation tools: heavy atoms of a residue first, then all of its hydrogens (also after OXT)
    pending, cur = [], None
    for l in base:
        res = (l[21], l[22:27]) if l[:6] == 'ATOM  ' else None
        if res != cur:
            out.extend(pending)
            pending, cur = [], res
        out.append(l)
        if l[:6] == 'ATOM  ':
            pending.extend(extra.get((l[21].strip() or '_', int(l[22:26]), l[26], l[12:16].strip()), []))
    out.extend(pending)
    return out


def titrated_with_list(pdbname, sel_list):
    """Run <pdbname> with options.titrate_only set (through the API, as the regression tests do) to the given LIST OBJECT; returns the
    sorted (chain, number, icode) of the titrated groups of the reported conformation."""
    import propka.lib as plib
    import propka.input as pinp
    from propka.parameters import Parameters
    from propka.molecular_container import MolecularContainer
    f = os.path.join(PDB_DIR, pdbname + '.pdb')
    o = plib.loadOptions(['-q', f])
    o.titrate_only = sel_list
    m = MolecularContainer(pinp.read_parameter_file(o.parameters, Parameters()), o)
    m = pinp.read_molecule_file(f, m)
    m.calculate_pka()
    return sorted({(g.atom.chain_id, g.atom.res_num, g.atom.icode) for g in m.conformations['AVR'].groups if g.titratable})


def recycled_address_selections(pdbname, sel1, sel2, tries=20000):
    """Two calculations in one process with different residue selections, where the second selection is a list object living at the
    address the first one had (the first calculation and its list are dropped in between).  Returns (got1, got2, recycled?)."""
    import gc
    first = list(sel1)
    got1 = titrated_with_list(pdbname, first)
    gc.collect()
    addr = id(first)
    del first
    second = []
    hold = []
    n = 0
    while id(second) != addr and n < tries:
        hold.append(second)
        second = []
        n += 1
    recycled = id(second) == addr
    del hold
    second.extend(sel2)
    got2 = titrated_with_list(pdbname, second)
    return got1, got2, recycled
