"""Lean 4 / Mathlib lemma files: checked by `lean <file>`; result cached in lean/.stamp-<name> keyed by the file's hash."""
import hashlib
import os
import subprocess
import time

from .common import VERIF, Ground


def check(name, force=False, timeout=1500):
    path = os.path.join(VERIF, 'lean', name + '.lean')
    sha = hashlib.sha256(open(path, 'rb').read()).hexdigest()
    stamp = os.path.join(VERIF, 'lean', '.stamp-' + name)
    if not force and os.path.exists(stamp):
        s = open(stamp).read().split('\n', 1)
        if s[0] == sha:
            return True, 'cached (checked at setup): ' + (s[1][:300] if len(s) > 1 else ''), 0.0
    t0 = time.time()
    try:
        p = subprocess.run(['lean', path], capture_output=True, text=True, timeout=timeout, cwd=os.path.join(VERIF, 'lean'))
        out = (p.stdout + p.stderr).strip()
        ok = p.returncode == 0 and 'error' not in out and 'sorry' not in out
    except Exception as e:   # noqa
        ok, out = False, 'lean could not be run: %r' % e
    if ok:
        open(stamp, 'w').write(sha + '\n' + out)
    return ok, out[:600], time.time() - t0


def ground(pr, name, what, force=False):
    ok, out, secs = check(name, force=force)
    g = Ground('LEAN %s: %s' % (name, what), ok, detail=out, kind='aux', backend='lean4+mathlib')
    pr.add(g)
    pr.notes.append('lean %s: %.1fs' % (name, secs))
    return ok
