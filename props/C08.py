"""C08 - the conformation average is the mean over the conformations that contain a group.

  AV  MolecularContainer.average_of_conformations (real clone / += / / / find_group inlined): for EVERY presence
      pattern of two groups over 2 and 3 conformations (values symbolic): exactly one averaged group per group that
      exists in at least one conformation; pKa, desolvation terms, buried, counts and determinant sums equal
      SUM over the containing conformations / their number                                                   (TOP)
  TU  ConformationContainer.top_up_from_atoms: exhaustive over a universe of residue positions/types/atoms:
      every missing atom is copied unless its residue position is already held by another residue type; no
      position ever mixes two residue types; present atoms are never duplicated                              (TOP)
  TC  MolecularContainer.top_up_conformations hands every conformation the atoms of all conformations        (TOP)
  SO  conformation_sorter injective and ordered by (model, alt-loc) for printable alt-loc tags              (TOP)
"""
import itertools

from .common import *   # noqa: F401,F403
from pyvc.core import Builtin
from . import C02, C14, reader

MC = 'propka.molecular_container.MolecularContainer'
CC = 'propka.conformation_container.ConformationContainer'
G = 'propka.group.Group'


def mk_conf_group(repo, cname, gi, partner):
    """group number gi as it appears in conformation cname (own symbolic values)."""
    A = repo.cls('propka.atom.Atom')
    nm = 'g%d_%s' % (gi, cname)
    g = C02.mkgroup(repo, nm, (0, 0, 0), label='ASP%4d A' % (10 + gi), type='COO', residue_type='ASP', num_volume='real',
                    num_local='real', buried='real', coupled_titrating_group=None, covalently_coupled_groups=[],
                    non_covalently_coupled_groups=[], titratable=True, exclude_cys_from_results=False, charge=-1.0)
    g.attrs['atom'] = record(nm + '_atom', A, residue_label='CG %4d A' % (10 + gi), res_name='ASP', terminal=None, type='atom',
                             res_num=10 + gi, chain_id='A', cysteine_bridge=False, group=None)
    g.attrs['determinants']['coulomb'].append(C02.mkdet(repo, nm + '_co', group=partner, label=partner.attrs['label']))
    g.attrs['determinants']['sidechain'].append(C02.mkdet(repo, nm + '_sc', group=partner, label=partner.attrs['label']))
    return g


def task_average(pr, repo, nconf, clauses=('census', 'means', 'marks')):
    """clauses: which obligations to state - importing properties that speak only about WHICH groups are reported ('census') or about
    the coupling marks ('marks') do not take the arithmetic-mean clauses along."""
    ex = Executor(repo)
    fi = repo.func(MC + '.average_of_conformations')
    pr.under_contract(fi)
    for n in ('find_group', '__init__', 'get_groups_for_calculations'):
        pr.under_contract(repo.func(CC + '.' + n), how='inlined')
    for n in ('clone', '__iadd__', 'add_determinant', '__truediv__', 'use_in_calculations'):
        pr.under_contract(repo.func(G + '.' + n), how='inlined')
    names = ['1A', '1B', '1C'][:nconf]
    CCls = repo.cls(CC)
    patterns = [p for p in itertools.product((0, 1), repeat=2 * nconf)]
    if pr.tier == 'quick' and nconf == 3:
        patterns = [p for i, p in enumerate(patterns) if i % 3 == 1 or sum(p) in (1, 2 * nconf)]
    for pat in patterns:
        pres = {(gi, c): pat[gi * nconf + ci] for gi in range(2) for ci, c in enumerate(names)}
        if not any(pres.values()):
            continue

        def thunk(ex, ctx, pres=pres, pat=pat):
            partner = C02.mkgroup(repo, 'partner', (0, 0, 0), label='LYS  99 A')
            partner.attrs['atom'].attrs.update(type='atom')
            confs = {}
            allg = {}
            for c in names:
                gs = []
                for gi in range(2):
                    if pres[(gi, c)]:
                        g = mk_conf_group(repo, c, gi, partner)
                        if gi == 0 and c == names[1]:
                            # in the second conformation the Coulomb partner of group 0 is out of range: no such determinant there
                            # (the mean is still over the conformations that contain the GROUP)
                            g.attrs['determinants']['coulomb'] = []
                        gs.append(g)
                        allg[(gi, c)] = g
                confs[c] = record('conf' + c, CCls, groups=gs, parameters=None, non_covalently_coupled_groups=False, chains=['A'])
            mol = record('mol', repo.cls(MC), conformation_names=list(names), conformations=confs)
            # coupling marks differ between conformations: only the groups of the LAST conformation are marked coupled
            for (gi, c), g in allg.items():
                if c == names[-1]:
                    g.attrs['non_covalently_coupled_groups'].append(partner)
            marks_before = {k: list(g.attrs['non_covalently_coupled_groups']) for k, g in allg.items()}
            ex.call_function(fi, [], self_obj=mol)
            if 'marks' in clauses:
              ctx.oblige('AV%s: the conformations keep their own coupling marks (a group that is coupled only in a later conformation '
                       'does not become coupled in an earlier one)' % (pat,),
                       all(len(g.attrs['non_covalently_coupled_groups']) == len(marks_before[k])
                           and all(x is y for x, y in zip(g.attrs['non_covalently_coupled_groups'], marks_before[k]))
                           for k, g in allg.items()))
            avr = confs.get('AVR')
            if not isinstance(avr, Obj):
                ctx.oblige('AV%s: an AVR conformation is stored' % (pat,), False)
                return
            ag = avr.attrs['groups']
            exp = [gi for gi in range(2) if any(pres[(gi, c)] for c in names)]
            got = [[a for a in ag if a.attrs['atom'].attrs['res_num'] == 10 + gi] for gi in range(2)]
            census = all(len(got[gi]) == (1 if gi in exp else 0) for gi in range(2)) and len(ag) == len(exp)
            if 'census' in clauses:
                ctx.oblige('AV%s: exactly one averaged group for each group that exists in at least one conformation, no other' % (pat,),
                           census)
            if not census or 'means' not in clauses:
                return
            conj = []
            for gi in exp:
                a = got[gi][0]
                members = [allg[(gi, c)] for c in names if pres[(gi, c)]]
                k = len(members)
                for f in ('pka_value', 'energy_volume', 'energy_local', 'buried', 'num_volume', 'num_local'):
                    conj.append(a.attrs[f] * k == sum(m.attrs[f] for m in members))
                for t in ('sidechain', 'backbone', 'coulomb'):
                    sa = sum((d.attrs['value'] for d in a.attrs['determinants'][t]), 0)
                    sm = sum((d.attrs['value'] for m in members for d in m.attrs['determinants'][t]), 0)
                    conj.append(sa * k == sm)
                conj.append(a.attrs['model_pka'] == members[0].attrs['model_pka'])
            ctx.oblige('AV%s: every averaged quantity (pKa, desolvation terms, buried, counts, determinant sums per type) equals the '
                       'arithmetic mean over the conformations that contain the group' % (pat,), And(*conj))
        pr.explore(ex, thunk, 'average_of_conformations %s' % (pat,))


def task_average_twins(pr, repo):
    """Groups of ONE conformation that share a printed label (hetero groups: the label has no residue number) or even
    the atom label (same chain+number: insertion-code twins, a structure and its copy)."""
    ex = Executor(repo)
    fi = repo.func(MC + '.average_of_conformations')
    CCls = repo.cls(CC)
    names = ['1A', '1B']
    for kind in ('hetero: equal label, different residue number', 'equal atom label (same chain and number)',
                 'mutant: the same defining atom carries another group type in the other conformation (ASN / ASP on CG)',
                 'own: one residue with two groups of one type (C-terminal ASP: side chain and C-, both COO)'):
        def thunk(ex, ctx, kind=kind):
            partner = C02.mkgroup(repo, 'partner', (0, 0, 0), label='LYS  99 A')
            confs, allg = {}, {}
            for c in names:
                gs = []
                for gi in range(2):
                    g = mk_conf_group(repo, c, gi, partner)
                    if kind.startswith('hetero'):
                        g.attrs['label'] = 'ACT   C A'
                        g.attrs['atom'].attrs.update(type='hetatm', residue_label='C  %4d A' % (101 + gi), res_num=101 + gi)
                    elif kind.startswith('mutant'):
                        # conformation 1A holds ASN 33 (group 0 only), conformation 1B holds ASP 33 (group 1 only): same atom label
                        g.attrs['atom'].attrs.update(residue_label='CG   33 A', res_num=33, icode=' ', name='CG')
                        g.attrs['label'] = ('ASN  33 A', 'ASP  33 A')[gi]
                        g.attrs['type'] = ('AMD', 'COO')[gi]
                        g.attrs['residue_type'] = ('AMD', 'ASP')[gi]
                        if (c == '1A') != (gi == 0):
                            continue
                    elif kind.startswith('own'):
                        g.attrs['atom'].attrs.update(residue_label=('CG   60 A', 'OXT  60 A')[gi], res_num=60, icode=' ',
                                                     name=('CG', 'OXT')[gi])
                        g.attrs['label'] = ('ASP  60 A', 'C-   60 A')[gi]
                        g.attrs['residue_type'] = ('ASP', 'C-')[gi]
                    else:
                        g.attrs['atom'].attrs.update(residue_label='CG   29 A', res_num=29)
                        g.attrs['label'] = 'ASP  29 A'
                    g.attrs['__gi__'] = gi
                    gs.append(g)
                    allg[(gi, c)] = g
                confs[c] = record('conf' + c, CCls, groups=gs, parameters=None, non_covalently_coupled_groups=False, chains=['A'])
            mol = record('mol', repo.cls(MC), conformation_names=list(names), conformations=confs)
            from pyvc.values import PyRaise
            try:
                ex.call_function(fi, [], self_obj=mol)
            except PyRaise as e:
                ctx.oblige('AVT[%s]: the average is computed (it raises %s: %s)' % (kind, e.exc_name, str(e.msg)[:80]), False)
                return
            avr = confs.get('AVR')
            ag = avr.attrs['groups'] if isinstance(avr, Obj) else []
            ctx.oblige('AVT[%s]: two distinct groups per conformation => two averaged groups are reported' % kind, len(ag) == 2)
            if kind.startswith('mutant') and len(ag) == 2:
                ctx.oblige('AVT[%s]: each of the two groups is reported with the values of the only conformation that has it' % kind,
                           And(*[ag[gi].attrs['pka_value'] == allg[(gi, c)].attrs['pka_value']
                                 for gi, c in ((0, '1A'), (1, '1B'))] + [ag[0].attrs['type'] == 'AMD' and ag[1].attrs['type'] == 'COO']))
            if kind.startswith(('hetero', 'own')) and len(ag) == 2:
                conj = []
                for gi in range(2):
                    a = ag[gi]
                    members = [allg[(gi, c)] for c in names]
                    conj.append(a.attrs['atom'] is members[0].attrs['atom'])
                    for f in ('pka_value', 'energy_volume', 'energy_local', 'buried'):
                        conj.append(a.attrs[f] * 2 == sum(m.attrs[f] for m in members))
                ctx.oblige('AVT[%s]: each averaged group is the mean of ITS OWN group over the conformations' % kind, And(*conj))
        pr.explore(ex, thunk, 'average_of_conformations twins')


def task_average_partner_twins(pr, repo):
    """AVP: determinants towards two hetero partners that print the same label (two ions / two copies of a ligand in one chain; the
    label has no residue number) stay two rows in the average, each the mean of its own."""
    ex = Executor(repo)
    fi = repo.func(MC + '.average_of_conformations')
    CCls = repo.cls(CC)
    names = ['1A', '1B']

    def thunk(ex, ctx):
        partners = []
        for k in range(2):
            p = C02.mkgroup(repo, 'ion%d' % k, (0, 0, 0), label='CA   CA A')
            p.attrs['atom'].attrs.update(type='hetatm', res_num=301 + k)
            partners.append(p)
        confs, allg = {}, {}
        for c in names:
            g = mk_conf_group(repo, c, 0, partners[0])
            g.attrs['determinants'] = {'sidechain': [], 'backbone': [],
                                       'coulomb': [C02.mkdet(repo, 'd%s_%d' % (c, k), group=partners[k], label='CA   CA A') for k in range(2)]}
            allg[c] = g
            confs[c] = record('conf' + c, CCls, groups=[g], parameters=None, non_covalently_coupled_groups=False, chains=['A'])
        mol = record('mol', repo.cls(MC), conformation_names=list(names), conformations=confs)
        ex.call_function(fi, [], self_obj=mol)
        avr = confs.get('AVR')
        ag = avr.attrs['groups'] if isinstance(avr, Obj) else []
        ok = len(ag) == 1 and len(ag[0].attrs['determinants']['coulomb']) == 2
        conj = [ok]
        if ok:
            for k in range(2):
                d = ag[0].attrs['determinants']['coulomb'][k]
                conj.append(d.attrs['group'] is partners[k])
                conj.append(d.attrs['value'] * 2 == sum(allg[c].attrs['determinants']['coulomb'][k].attrs['value'] for c in names))
        ctx.oblige('AVP: two equally labelled hetero partners (different residue numbers) keep one determinant row each in the average, '
                   'each the mean of its own values', And(*conj))
    pr.explore(ex, thunk, 'average_of_conformations partner twins')


def task_topup(pr, repo):
    ex = Executor(repo)
    fi = repo.func(CC + '.top_up_from_atoms')
    pr.under_contract(fi)
    pr.under_contract(repo.func(CC + '.copy_atom'), how='inlined')
    pr.under_contract(repo.func('propka.atom.Atom.make_copy'), how='inlined')
    A = repo.cls('propka.atom.Atom')
    CCls = repo.cls(CC)

    def atom(name, res, num, chain='A'):
        return dict(name=name, res_name=res, res_num=num, chain_id=chain, residue_label='%-3s%4d%2s' % (name, num, chain))
    # 'HG': a hydrogen supplied with the input (keep-protons) is an atom like any other for the completion
    universe = [atom('N', 'GLY', 1), atom('OG', 'SER', 2), atom('CB', 'SER', 2), atom('SG', 'CYS', 2), atom('CB', 'CYS', 2),
                atom('CA', 'GLY', 3), atom('OG', 'SER', 2, 'B'), atom('HG', 'SER', 2)]
    selfs = [[0], [0, 1], [0, 3], [0, 5], []]
    n_cases = 0
    for s in selfs:
        for r in (1, 2, 3):
            for others in itertools.permutations(range(len(universe)), r):
                if pr.tier == 'quick' and r == 3 and (sum(others) + len(s)) % 4:
                    continue
                n_cases += 1

                def thunk(ex, ctx, s=s, others=others):
                    def mk(i, tag):
                        u = universe[i]
                        return record('%s%d' % (tag, i), A, type='atom', numb=i, element=u['name'][0], x=0.0, y=0.0, z=0.0, occ='1', beta='0',
                                      terminal=None, icode=' ', **u)
                    mine = [mk(i, 's') for i in s]
                    conf = record('conf', CCls, atoms=list(mine))
                    oth = [mk(i, 'o') for i in others]
                    ex.call_function(fi, [oth], self_obj=conf)
                    now = conf.attrs['atoms']
                    # specification, computed independently: walk the reference atoms in order
                    have = {universe[i]['residue_label'] for i in s}
                    types = {(universe[i]['chain_id'], universe[i]['res_num']): universe[i]['res_name'] for i in s}
                    expect = []
                    for i in others:
                        u = universe[i]
                        if u['residue_label'] in have:
                            continue
                        pos = (u['chain_id'], u['res_num'])
                        if types.setdefault(pos, u['res_name']) != u['res_name']:
                            continue
                        expect.append(i)
                    added = now[len(mine):]
                    import os
                    if os.environ.get('C08_DEBUG'):
                        print(s, others, [a.attrs.get('numb') for a in now], expect, [a.attrs.get('conformation_container') for a in now[len(mine):]])
                    ok = (now[:len(mine)] == mine and [a.attrs['numb'] for a in added] == expect
                          and all(a.attrs['conformation_container'] is conf for a in added)
                          and all(a.attrs['icode'] == ' ' and a.attrs['residue_label'] == universe[a.attrs['numb']]['residue_label']
                                  and a.attrs['chain_id'] == universe[a.attrs['numb']]['chain_id'] for a in added)
                          and not any(any(a is o for o in oth) for a in added))
                    mixed = {}
                    for a in now:
                        mixed.setdefault((a.attrs['chain_id'], a.attrs['res_num']), set()).add(a.attrs['res_name'])
                    ctx.oblige('TU[self %s, others %s]: copies exactly the missing atoms whose residue position is free or of the same '
                               'residue type (as fresh copies owned by this conformation, with chain, label and insertion code kept); no position mixes residue types' % (s, list(others)),
                               ok and all(len(v) == 1 for v in mixed.values()))
                pr.explore(ex, thunk, 'top_up_from_atoms')
    pr.notes.append('TU: %d (own atoms, reference sequence) cases over a universe of %d atoms' % (n_cases, len(universe)))


def task_topup_conformations(pr, repo):
    ex = Executor(repo)
    fi = repo.func(MC + '.top_up_conformations')
    pr.under_contract(fi)
    A = repo.cls('propka.atom.Atom')

    layouts = {'unequal sizes': (('1A', ['N    1 A', 'CB   2 A']), ('1B', ['N    1 A', 'CG   2 A']), ('2A', ['O    9 A'])),
               'equal sizes, different atoms': (('1A', ['N    1 A', 'CB   2 A']), ('1B', ['N    1 A', 'CG   2 A']), ('2A', ['N    1 A', 'O    9 A'])),
               'identical': (('1A', ['N    1 A', 'CB   2 A']), ('1B', ['N    1 A', 'CB   2 A']), ('2A', ['N    1 A', 'CB   2 A']))}

    def thunk(ex, ctx, layout):
        calls = []

        def tu(ex, ctx_, fi_, a, k, so):
            calls.append((so, list(a[0])))
        ex.contracts[CC + '.top_up_from_atoms'] = tu
        # serial numbers (numb) run AGAINST the conformation order: they may not decide which atom is the reference
        atoms = {c: [record('%s_%d' % (c, i), A, residue_label=lab, numb=100 - 10 * ci - i) for i, lab in enumerate(labs)]
                 for ci, (c, labs) in enumerate(layouts[layout])}
        confs = {c: record('conf' + c, repo.cls(CC), atoms=atoms[c]) for c in atoms}
        mol = record('mol', repo.cls(MC), conformation_names=['1A', '1B', '2A'], conformations=confs)
        ex.call_function(fi, [], self_obj=mol)
        labels_all = {a.attrs['residue_label'] for c in atoms for a in atoms[c]}
        # a conformation that already holds every label needs no top-up (a call would be a no-op: TU)
        incomplete = [c for c in atoms if {a.attrs['residue_label'] for a in atoms[c]} != labels_all]
        ok = all(any(so is confs[c] for so, _ in calls) for c in incomplete) and len({id(c[0]) for c in calls}) == len(calls)
        for so, ref in calls:
            ok = ok and {a.attrs['residue_label'] for a in ref} == labels_all
            # for a label present in several conformations the FIRST conformation's atom is the reference
            first = [a for a in ref if a.attrs['residue_label'] == 'N    1 A']
            ok = ok and len(first) == 1 and first[0] is atoms['1A'][0]
        ctx.oblige('TC[%s]: every conformation that lacks an atom is topped up (once) from one reference atom per atom label over ALL conformations '
                   '(the first conformation that has it)' % layout, ok)
    for layout in layouts:
        pr.explore(ex, lambda ex, ctx, layout=layout: thunk(ex, ctx, layout), 'top_up_conformations ' + layout)


def task_sorter(pr, repo):
    ex = Executor(repo)
    fi = repo.func('propka.input.conformation_sorter')
    pr.under_contract(fi)
    # conf = str(model) + alt ; model >= 0 with d digits, alt printable
    for d1 in (1, 2):
        for d2 in (1, 2):
            def thunk(ex, ctx, d1=d1, d2=d2):
                def name(tag, d):
                    digs = [I('%s_d%d' % (tag, i)) for i in range(d)]
                    for x in digs:
                        ctx.assume(And(x >= 48, x <= 57))
                    if d > 1:
                        ctx.assume(digs[0] >= 49)
                    alt = I(tag + '_alt')
                    ctx.assume(And(alt >= 33, alt <= 126))
                    model = sum((digs[i] - 48) * 10 ** (d - 1 - i) for i in range(d))
                    return mk_str(digs + [alt]), model, alt
                s1, m1, a1 = name('p', d1)
                s2, m2, a2 = name('q', d2)
                k1 = ex.call_function(fi, [s1])
                k2 = ex.call_function(fi, [s2])
                ctx.oblige('SO[%d,%d digits]: sort key orders conformations by (model number, alt-loc tag) and is injective' % (d1, d2),
                           And(Implies(Or(m1 < m2, And(m1 == m2, a1 < a2)), k1 < k2),
                               Implies(k1 == k2, And(m1 == m2, a1 == a2))))
            pr.explore(ex, thunk, 'conformation_sorter')


def task_proton_registration(pr, repo):
    # a conformation made of copies registers its chains when the protonation adds atoms through add_atom (C17-AP); the report is
    # written chain by chain
    from . import C17
    C17.task_add_proton(pr, repo)


def task_pipeline(pr, repo):
    """CP: MolecularContainer.calculate_pka computes every conformation once, then averages once, and reports the averaged groups as
    average_of_conformations built them (AV): nothing recomputes or rewrites them between the averaging and the report."""
    ex = Executor(repo)
    fi = repo.func(MC + '.calculate_pka')
    pr.under_contract(fi)
    FIELDS = ('pka_value', 'model_pka', 'energy_volume', 'energy_local', 'buried', 'num_volume', 'num_local')

    def snapshot(groups):
        snap = []
        for g in groups:
            snap.append(([g.attrs.get(f) for f in FIELDS],
                         {t: [(d, d.attrs.get('value')) for d in g.attrs['determinants'][t]] for t in ('sidechain', 'backbone', 'coulomb')}))
        return snap

    def same(ctx, a, b):
        conj = []
        for (fa, da), (fb, db) in zip(a, b):
            for x, y in zip(fa, fb):
                if x is None or y is None:
                    conj.append(x is y)
                else:
                    conj.append(x == y)
            for t in da:
                if len(da[t]) != len(db[t]) or any(p[0] is not q[0] for p, q in zip(da[t], db[t])):
                    return False
                conj += [p[1] == q[1] for p, q in zip(da[t], db[t])]
        return And(*conj)

    def thunk(ex, ctx):
        log = []
        state = {}
        ex.contracts[CC + '.calculate_pka'] = lambda ex, ctx_, fi_, a, k, so: log.append(('conf', so.name)) or None
        ex.contracts[MC + '.find_non_covalently_coupled_groups'] = lambda ex, ctx_, fi_, a, k, so: log.append(('coupling',)) or None

        def avg(ex, ctx_, fi_, a, k, so):
            log.append(('average',))
            partner = C02.mkgroup(repo, 'partner', (0, 0, 0), label='LYS  99 A')
            gs = [mk_conf_group(repo, 'AVR', gi, partner) for gi in range(2)]
            # the averaged clone sits on the atom of the first conformation that has the group: bridged there or not
            gs[0].attrs['atom'].attrs['cysteine_bridge'] = B('bridged_in_first')
            gs[0].attrs['residue_type'] = 'CYS'
            avr = record('avr', repo.cls(CC), groups=gs, name='average')
            so.attrs['conformations']['AVR'] = avr
            state['avr'], state['groups'], state['built'] = avr, gs, snapshot(gs)
            return None
        ex.contracts[MC + '.average_of_conformations'] = avg

        def show(ex, ctx_, fi_, a, k, so=None):
            log.append(('print', a[1] if len(a) > 1 else k.get('conformation')))
            if 'groups' in state:
                state['printed'] = snapshot(state['groups'])
            return None
        ex.contracts['propka.output.print_result'] = show
        ex.contracts['propka.molecular_container.print_result'] = show
        CCls = repo.cls(CC)
        confs = {n: record('conf' + n, CCls) for n in ('1A', '1B')}
        mol = record('mol', repo.cls(MC), conformations=dict(confs), conformation_names=['1A', '1B'],
                     version=record('version', None, parameters=record('P', None)), options=record('options', None))
        ex.call_function(fi, [], self_obj=mol)
        kinds = [e[0] for e in log]
        ctx.oblige('CP: calculate_pka computes each conformation once, then (after the coupling search) averages once, then reports AVR',
                   sorted(e[1] for e in log if e[0] == 'conf') == ['conf1A', 'conf1B'] and kinds.count('average') == 1
                   and kinds.index('average') > max(i for i, e in enumerate(kinds) if e == 'conf')
                   and ('coupling' not in kinds or kinds.index('coupling') < kinds.index('average'))
                   and kinds.count('print') == 1 and kinds.index('print') > kinds.index('average')
                   and [e for e in log if e[0] == 'print'][0][1] == 'AVR')
        if 'avr' not in state:
            return
        ctx.oblige('CP: the reported conformation AVR is the container built by average_of_conformations, with the same groups',
                   mol.attrs['conformations'].get('AVR') is state['avr'] and state['avr'].attrs['groups'] == state['groups']
                   and all(x is y for x, y in zip(state['avr'].attrs['groups'], state['groups'])))
        now = snapshot(state['groups'])
        ctx.oblige('CP: pKa, desolvation terms and determinants of the averaged groups are, when reported and on return, exactly what '
                   'average_of_conformations built (the mean, AV) - nothing recomputes them afterwards (a group whose first '
                   'conformation is disulfide-bridged included)',
                   And(same(ctx, state['built'], state.get('printed', state['built'])), same(ctx, state['built'], now)))
    pr.explore(ex, thunk, MC + '.calculate_pka')


def task_model_records(pr, repo, tag):
    # conformation naming: the model serial of a MODEL record is the number after the tag - in the standard layout (columns 11-14)
    # and in the compact / left-justified / five-digit layouts tools write ("identical models change nothing" needs every model read)
    reader.explore_steps(pr, repo, reader.check_transition, tags=[tag], chains_cases=(None,), keep_protons_cases=(False,),
                         what='C08 MODEL record step')


def run(pr, repo):
    pr.level = 'other'
    pr.explanation = ('deductive core (VC on average_of_conformations, top-up, pipeline, reader steps) plus bounded monitor; level "other" '
                      'because one clause does NOT hold on this tree under the option -d (recorded known finding D17: after the display of '
                      'alternative states the averaged table of a single-conformation input names the group itself where the '
                      'conformation\'s table names the partner) - reported as KNOWN-FINDING by the monitor on every run')
    pr.parallel([(task_average, (3,)), (task_average, (2,)), (task_average_twins, ()), (task_average_partner_twins, ()), (task_topup, ()), (task_topup_conformations, ()), (task_sorter, ()),
                 (C14.task_make_copy, ()), (reader.task_nterm, ()), (task_proton_registration, ()), (task_pipeline, ())] + [(task_model_records, (t,)) for t in ['MODEL '] + sorted(reader.MODEL_SHORT)])   # every alternate location of a chain start is tagged N+
    pr.assumptions += ['AV: two group identities over 2 and 3 conformations, one determinant per type and conformation '
                       '(values symbolic); more groups behave independently (find_group matches by atom label and type)',
                       'residue identity = atom label (name, number, chain) as in the code: insertion codes are not part of it '
                       '(known finding D9)', 'A-REAL']
    bounded(pr)


def bounded(pr):
    """Bounded: AVR vs an independent mean over per-conformation records on generated multi-conformation inputs."""
    from . import native
    ev, viol, classes = 0, [], set()
    base = native.pdb_lines('conf-alt-AB-mutant')

    def variants():
        yield 'conf-alt-AB-mutant', base
        for n in ('conf-alt-AB', 'conf-alt-BC', 'conf-model-mutant', 'conf-model-missing-atoms'):
            yield n, native.pdb_lines(n)
        # ASP alt-loc only in A / only in B
        asp = []
        for l in base:
            if l[17:20] == 'SER':
                l = l[:17] + 'ASP' + l[20:]
                if l[12:16] == ' OG ':
                    asp.append(l[:12] + ' CG ' + l[16:])
                    asp.append("ATOM     90  OD1AASP     2       7.500  -4.700   1.500  1.00  0.00           O  \n")
                    asp.append("ATOM     91  OD2AASP     2       5.600  -5.400   0.900  1.00  0.00           O  \n")
                    continue
            asp.append(l)
        yield 'ASP only in A', asp
        sw = {'A': 'B', 'B': 'A'}
        yield 'ASP only in B', [(l[:16] + sw[l[16]] + l[17:]) if l[:4] == 'ATOM' and l[16] in 'AB' else l for l in asp]
        # identical models
        body = [l for l in native.pdb_lines('3SGB-subset') if l[:6] in ('ATOM  ', 'HETATM', 'TER   ')]
        yield '3 identical models', ['MODEL        1\n'] + body + ['ENDMDL\n', 'MODEL        2\n'] + body + ['ENDMDL\n', 'MODEL        3\n'] + body + ['ENDMDL\n']
        if pr.tier == 'thorough':
            yield '4DFR', native.pdb_lines('4DFR')
    for name, lines in variants():
        ev += 1
        classes.add(name)
        try:
            mol = native.run_text(lines)
        except Exception as e:   # noqa
            viol.append({'what': '%s: %s %s' % (name, type(e).__name__, e), 'replay': None})
            continue
        rec = native.record(mol)
        keyed = {}
        for c in mol.conformation_names:
            for g in rec[c]:
                if g['titratable'] or g['residue_type'] == 'CYS':
                    keyed.setdefault((g['atom'][:2] + g['atom'][3:], g['type']), []).append(g)
        avr = {}
        bad = []
        for g in rec['AVR']:
            k = (g['atom'][:2] + g['atom'][3:], g['type'])
            if k in avr:
                bad.append('group %r reported twice in the average' % (k,))
            avr[k] = g
        for k, members in keyed.items():
            if k not in avr:
                bad.append('group %r exists in %d conformation(s) but is not reported' % (k, len(members)))
                continue
            n = len(members)
            for f in ('pka', 'evol', 'eloc', 'buried', 'nvol'):
                mean = sum(m[f] for m in members) / n
                if abs(mean - avr[k][f]) > 1e-9:
                    bad.append('%r %s: average %r, mean over %d conformations %r' % (k, f, avr[k][f], n, mean))
        for k in avr:
            if k not in keyed:
                bad.append('average reports %r which exists in no conformation' % (k,))
        if len(mol.conformation_names) == 1:
            bad += native.diff_records({'x': rec[mol.conformation_names[0]]}, {'x': rec['AVR']}, tol=1e-12, keys=('pka', 'evol', 'eloc', 'buried'))
        if bad and len(viol) < 3:
            viol.append({'what': '%s: %s' % (name, bad[:3]), 'replay': None})
    # 'a single-conformation input reports exactly its only conformation': the rows of the averaged table (partner label, value) are
    # those of the conformation's own table - with and without the display of alternative states (-d; known finding D17)
    for name in (['1HPX', '3SGB-subset'] if pr.tier == 'quick' else ['1HPX', '3SGB-subset', '3SGB', '1FTJ-Chain-A']):
        for opts in ([], ['-d']):
            ev += 1
            classes.add(('single conformation', tuple(opts)))
            try:
                mol = native.run_text(native.pdb_lines(name), opts)
                gs0 = mol.conformations[mol.conformation_names[0]].groups
                keys0 = [(g.label, g.type) for g in gs0]
                only = {(g.label, g.type): g for g in gs0}
                diff = []
                for g in mol.conformations['AVR'].groups:
                    if keys0.count((g.label, g.type)) > 1:
                        continue            # equally labelled groups (insertion-code twins: known finding D9) cannot be paired up here
                    h = only.get((g.label, g.type))
                    if h is None:
                        diff.append('%s only in the average' % g.label)
                        continue
                    for t in ('sidechain', 'backbone', 'coulomb'):
                        ra = sorted((d.label, round(d.value, 9)) for d in h.determinants[t])
                        rb = sorted((d.label, round(d.value, 9)) for d in g.determinants[t])
                        if ra != rb:
                            diff.append('%s %s rows: conformation %r, average %r' % (g.label, t, ra[:3], rb[:3]))
            except Exception as e:    # noqa
                diff = ['%s: %s' % (type(e).__name__, e)]
            if diff:
                what = '%s %s (single conformation): the averaged table differs from the conformation\'s table%s: %s' % (
                    name, opts, ' under display of alternative states (-d)' if opts else '', diff[:2])
                if opts or len(viol) < 3:
                    viol.append({'what': what, 'replay': None})
    pr.bounded.append({'name': 'C08-monitor: reported average vs independent mean over the containing conformations', 'evaluations': ev,
                       'distinct_nontrivial': len(classes), 'bound': '%d multi-conformation inputs' % ev,
                       'rule': 'repo conf-* files, alt-loc point mutants with an ionizable residue in one conformation only, repeated models',
                       'violations': viol})
