"""C03 - results are a pure function of input content and options.

Decided as FRAME obligations on the real AST plus small VCs; the quantifier over process histories itself is not
something a per-call contract ranges over (bounded history monitor stands in).
  GW  census of global state: no `global` statement, no mutable default argument, no mutable class-level attribute; the
      module-level singleton objects are exactly PROTONATOR (group.py) and NCCG (coupled_groups.py); the methods of their
      classes that store on self are the declared ones                                                          (aux, frame)
  VE  Protonate.valence_electrons: both mutators only add key -> 4 for an unknown element, and both readers return the
      same value whether or not the key was added earlier (history independence of the only mutable table)      (TOP)
  NC  NCCG.parameters is assigned at the entry of identify_non_covalently_coupled_groups before any use          (TOP)
  AM  no read of ambient state (os.environ, cwd, time, random, id(), hash()) outside the header/date line and the
      identity hashes                                                                                            (aux, frame)
  FP  run.single builds a fresh parser / Options / Parameters / MolecularContainer per call (no object of an earlier
      call is reachable); argparse list defaults are created per parser                                          (TOP)
  OF  open_file_for_reading: a stream is rewound before it is read                                               (TOP)
  SI  census of iterations over identity-hashed sets (order = address order); consumers read them only through
      membership / commutative updates - except the coupled-residue display (print_system), which is left UNDECIDED (aux)
"""
import ast as _ast

from .common import *   # noqa: F401,F403
from pyvc.core import Builtin
from . import frames, C18


def census_globals(pr, repo):
    globals_stmt, mutable_defaults, mutable_class_attrs, singletons = [], [], [], []
    for m in repo.all_modules():
        for n in _ast.walk(m.tree):
            if isinstance(n, (_ast.Global, _ast.Nonlocal)):
                globals_stmt.append('%s:%d' % (m.name, n.lineno))
            if isinstance(n, (_ast.FunctionDef, _ast.Lambda)):
                for d in list(n.args.defaults) + [d for d in n.args.kw_defaults if d is not None]:
                    if isinstance(d, (_ast.List, _ast.Dict, _ast.Set)) or (isinstance(d, _ast.Call) and _ast.unparse(d.func) in ('list', 'dict', 'set')):
                        mutable_defaults.append('%s:%d' % (m.name, d.lineno))
        for c in m.classes.values():
            if 'dataclass' in ' '.join(_ast.unparse(d) for d in c.node.decorator_list):
                continue
            for k, v in c.class_attrs.items():
                if isinstance(v, (_ast.List, _ast.Dict, _ast.Set)):
                    mutable_class_attrs.append('%s.%s.%s' % (m.name, c.name, k))
        for k, v in m.assigns.items():
            if isinstance(v, _ast.Call):
                f = _ast.unparse(v.func).split('.')[-1]
                if any(f in mm.classes for mm in repo.all_modules()) and f not in ('TypeVar',):
                    singletons.append('%s.%s = %s(...)' % (m.name, k, f))
    memo = []
    for m in repo.all_modules():
        for n in _ast.walk(m.tree):
            if isinstance(n, (_ast.FunctionDef, _ast.ClassDef)):
                for d in n.decorator_list:
                    if _ast.unparse(d).split('(')[0].split('.')[-1] in ('lru_cache', 'cache', 'cached_property', 'memoize'):
                        memo.append('%s.%s' % (m.name, n.name))
    pr.add(Ground('GW: no memoising decorator (lru_cache / cache / cached_property) in propka/ - a cache is state that outlives a call',
                  not memo, detail=str(memo), kind='aux', backend='frame-checker'))
    modmut = []
    for m in repo.all_modules():
        names = {k for k, v in m.assigns.items() if isinstance(v, (_ast.Dict, _ast.List, _ast.Set)) or
                 (isinstance(v, _ast.Call) and _ast.unparse(v.func).split('.')[-1] in ('dict', 'list', 'set', 'defaultdict', 'OrderedDict'))}
        for n in _ast.walk(m.tree):
            if isinstance(n, (_ast.FunctionDef, _ast.AsyncFunctionDef)):
                for x in _ast.walk(n):
                    if isinstance(x, _ast.Subscript) and isinstance(x.ctx, (_ast.Store, _ast.Del)) and isinstance(x.value, _ast.Name) \
                            and x.value.id in names:
                        modmut.append('%s.%s: %s[...] = ' % (m.name, n.name, x.value.id))
                    if isinstance(x, _ast.Call) and isinstance(x.func, _ast.Attribute) and isinstance(x.func.value, _ast.Name) \
                            and x.func.value.id in names and x.func.attr in frames.MUTATORS:
                        modmut.append('%s.%s: %s.%s()' % (m.name, n.name, x.func.value.id, x.func.attr))
    pr.add(Ground('GW: no function writes into a module-level dict / list / set (a table that outlives the call)', not modmut,
                  detail=str(sorted(set(modmut)))[:400], kind='aux', backend='frame-checker'))
    pr.add(Ground('GW: no global/nonlocal statement in propka/', not globals_stmt, detail=str(globals_stmt), kind='aux', backend='frame-checker'))
    pr.add(Ground('GW: no mutable default argument in propka/', not mutable_defaults, detail=str(mutable_defaults), kind='aux', backend='frame-checker'))
    pr.add(Ground('GW: no mutable class-level attribute (shared between instances) in propka/', not mutable_class_attrs,
                  detail=str(mutable_class_attrs), kind='aux', backend='frame-checker'))
    want = ['propka.coupled_groups.NCCG = NonCovalentlyCoupledGroups(...)', 'propka.group.PROTONATOR = Protonate(...)']
    pr.add(Ground('GW: the module-level singleton objects are exactly PROTONATOR and NCCG', sorted(singletons) == want,
                  detail=str(sorted(singletons)), kind='aux', backend='frame-checker'))
    # stores on self inside the singleton classes
    def self_stores(clsname, modname):
        out = {}
        c = repo.cls('%s.%s' % (modname, clsname))
        for mn, fi in c.methods.items():
            for n in _ast.walk(fi.node):
                tgt = None
                if isinstance(n, (_ast.Assign, _ast.AugAssign)):
                    for t in (n.targets if isinstance(n, _ast.Assign) else [n.target]):
                        s = _ast.unparse(t)
                        if s.startswith('self.'):
                            out.setdefault(mn, set()).add(s.split('[')[0])
        return out
    ps = self_stores('Protonate', 'propka.protonate')
    ok_p = {k: v for k, v in ps.items() if k != '__init__'} == {'set_number_of_protons_to_add': {'self.valence_electrons'},
                                                                'set_steric_number_and_lone_pairs': {'self.valence_electrons'}}
    pr.add(Ground('GW: outside __init__ the Protonate singleton is written only at valence_electrons[...] in the two electron-count '
                  'methods', ok_p, detail=str(ps), kind='aux', backend='frame-checker'))
    ns = self_stores('NonCovalentlyCoupledGroups', 'propka.coupled_groups')
    ok_n = {k: v for k, v in ns.items() if k != '__init__'} == {'identify_non_covalently_coupled_groups': {'self.parameters'}}
    pr.add(Ground('GW: outside __init__ the NCCG singleton is written only at .parameters in identify_non_covalently_coupled_groups',
                  ok_n, detail=str(ns), kind='aux', backend='frame-checker'))


def census_ambient(pr, repo):
    bad = []
    allowed = {'propka.output.get_propka_header', 'propka.group.Group.__hash__', 'propka.iterative.Iterative.__hash__'}
    for m in repo.all_modules():
        def scan(fn, scope):
            for n in _ast.walk(fn):
                s = None
                if isinstance(n, _ast.Attribute):
                    u = _ast.unparse(n)
                    if u.startswith(('os.environ', 'os.getcwd', 'time.', 'random.', 'datetime.', 'date.today', 'os.getpid', 'uuid.')):
                        s = u
                if isinstance(n, _ast.Call) and isinstance(n.func, _ast.Name) and n.func.id in ('id', 'hash', 'getpid'):
                    s = n.func.id + '()'
                if s and scope not in allowed:
                    bad.append('%s: %s' % (scope, s))
        for fn in m.functions.values():
            scan(fn.node, '%s.%s' % (m.name, fn.qualname))
        for c in m.classes.values():
            for fn in c.methods.values():
                scan(fn.node, '%s.%s' % (m.name, fn.qualname))
    pr.add(Ground('AM: ambient state (environment, cwd, clock, random, id(), hash()) is read only by the header/date line and the identity '
                  'hashes', not bad, detail=str(bad), kind='aux', backend='frame-checker'))


def task_valence(pr, repo):
    ex = Executor(repo)
    P = 'propka.protonate.Protonate'
    for n in ('set_number_of_protons_to_add', 'set_steric_number_and_lone_pairs'):
        pr.under_contract(repo.func(P + '.' + n))
    A = repo.cls('propka.atom.Atom')
    for el in ('Xx', 'N'):
        for first in ('set_number_of_protons_to_add', 'set_steric_number_and_lone_pairs'):
            def thunk(ex, ctx, el=el, first=first):
                def run(pre_added):
                    pro = ex.instantiate(repo.cls(P), [], {})
                    table0 = dict(pro.attrs['valence_electrons'])
                    if pre_added:
                        pro.attrs['valence_electrons']['Xx'] = 4          # an earlier structure contained the unknown element
                    at = record('at', A, element=el, bonded_atoms=[], num_pi_elec_2_3_bonds=0, num_pi_elec_conj_2_3_bonds=0,
                                charge=0.0, steric_num_lone_pairs_set=False, number_of_protons_to_add=0)
                    order = [first] + [m for m in ('set_number_of_protons_to_add', 'set_steric_number_and_lone_pairs') if m != first]
                    for mth in order:
                        ex.call_function(repo.func(P + '.' + mth), [at], self_obj=pro)
                    t = pro.attrs['valence_electrons']
                    extra = {k: v for k, v in t.items() if k not in table0}
                    changed = [k for k in table0 if t.get(k) != table0[k]]
                    return (at.attrs['number_of_protons_to_add'], at.attrs['steric_number'], at.attrs['number_of_lone_pairs']), extra, changed
                r1, e1, c1 = run(False)
                r2, e2, c2 = run(True)
                ctx.oblige('VE[element %s, %s first]: electron counts are the same whether or not an earlier run added the element to the '
                           'shared table; the table only ever gains "unknown element -> 4"' % (el, first),
                           r1 == r2 and not c1 and not c2 and all(v == 4 for v in list(e1.values()) + list(e2.values())))
            pr.explore(ex, thunk, 'valence_electrons %s' % el)


def ground_nccg(pr, repo):
    fi = repo.func('propka.coupled_groups.NonCovalentlyCoupledGroups.identify_non_covalently_coupled_groups')
    body = [s for s in fi.node.body if not (isinstance(s, _ast.Expr) and isinstance(s.value, _ast.Constant))]
    ok = bool(body) and _ast.unparse(body[0]) == 'self.parameters = conformation.parameters'
    pr.add(Ground('NC: the first statement of identify_non_covalently_coupled_groups assigns self.parameters from the conformation '
                  '(no value of an earlier call can be read)', ok, detail=_ast.unparse(body[0]) if body else ''))
    # readers of self.parameters in the class are reached only through identify_... (call graph within the class)
    c = repo.cls('propka.coupled_groups.NonCovalentlyCoupledGroups')
    callers = {}
    for mn, f in c.methods.items():
        for n in _ast.walk(f.node):
            if isinstance(n, _ast.Call) and isinstance(n.func, _ast.Attribute) and _ast.unparse(n.func.value) in ('self',):
                callers.setdefault(n.func.attr, set()).add(mn)
    readers = [mn for mn, f in c.methods.items() if any(isinstance(n, _ast.Attribute) and _ast.unparse(n) == 'self.parameters' and
                                                         isinstance(n.ctx, _ast.Load) for n in _ast.walk(f.node))]
    def reachable_only_from_identify(mn, seen=()):
        if mn == 'identify_non_covalently_coupled_groups':
            return True
        cs = callers.get(mn, set())
        if not cs or mn in seen:
            return False
        return all(reachable_only_from_identify(x, seen + (mn,)) for x in cs)
    ext = frames.census(repo).loads.get('is_coupled_protonation_state_probability', set()) | frames.census(repo).loads.get('get_interaction', set())
    ext = {e for e in ext if not e.startswith('propka.coupled_groups.')}
    pr.add(Ground('NC: every NCCG method that reads self.parameters is reached only through identify_non_covalently_coupled_groups, and '
                  'no other module calls them', all(reachable_only_from_identify(r) for r in readers) and not ext,
                  detail='readers %s, outside callers %s' % (readers, sorted(ext)), kind='aux', backend='frame-checker'))


def task_fresh(pr, repo):
    ex = Executor(repo)
    fi = repo.func('propka.run.single')
    pr.under_contract(fi)

    def thunk(ex, ctx):
        made = {'options': [], 'params': [], 'mol': []}

        def load(ex, ctx_, fi_, a, k, so):
            o = record('options%d' % len(made['options']), None, parameters='propka.cfg', filenames=[str(a[0][-1])] if a and a[0] else [])
            made['options'].append(o)
            return o
        ex.contracts['propka.run.loadOptions'] = load
        ex.contracts['propka.lib.loadOptions'] = load

        def pcls(ex, ctx_, ci, a, k, so):
            o = record('params%d' % len(made['params']), None)
            made['params'].append(o)
            return o
        ex.contracts['propka.parameters.Parameters'] = pcls
        ex.contracts['propka.input.read_parameter_file'] = lambda ex, ctx_, fi_, a, k, so: a[1]
        ex.contracts['propka.run.read_parameter_file'] = lambda ex, ctx_, fi_, a, k, so: a[1]

        def mcls(ex, ctx_, ci, a, k, so):
            o = record('mol%d' % len(made['mol']), None, parameters=a[0], options=a[1])
            o.attrs['calculate_pka'] = Builtin('c', lambda ex: None)
            o.attrs['write_pka'] = Builtin('w', lambda ex: None)
            made['mol'].append(o)
            return o
        ex.contracts['propka.molecular_container.MolecularContainer'] = mcls
        ex.contracts['propka.input.read_molecule_file'] = lambda ex, ctx_, fi_, a, k, so: a[1]
        ex.contracts['propka.run.read_molecule_file'] = lambda ex, ctx_, fi_, a, k, so: a[1]
        m1 = ex.call_function(fi, ['a.pdb'], {'optargs': ['-q'], 'write_pka': False})
        m2 = ex.call_function(fi, ['a.pdb'], {'optargs': ['-q'], 'write_pka': False})
        ctx.oblige('FP: two calls of run.single share no Options, Parameters or MolecularContainer object; each container gets the '
                   'Parameters and Options created in its own call',
                   len(made['options']) == 2 and len(made['params']) == 2 and len(made['mol']) == 2 and m1 is not m2
                   and m1.attrs['parameters'] is made['params'][0] and m2.attrs['parameters'] is made['params'][1]
                   and m1.attrs['options'] is made['options'][0] and m2.attrs['options'] is made['options'][1])
    pr.explore(ex, thunk, 'run.single twice')
    lo = repo.func('propka.lib.loadOptions')
    src = _ast.unparse(lo.node)
    pr.add(Ground('FP: loadOptions builds a new parser (build_parser()) and a new Options() namespace on every call',
                  'parser = build_parser()' in src and 'namespace=Options()' in src))


def task_param_lookup(pr, repo):
    ex = Executor(repo)
    fi = repo.func('propka.input.read_parameter_file')
    pr.under_contract(fi)

    def thunk(ex, ctx):
        tried = []

        def opener(ex, ctx_, fi_, a, k, so):
            tried.append(a[0])
            h = record('handle', None)
            h.attrs['__iter_items__'] = []
            return h
        ex.contracts['propka.input.open_file_for_reading'] = opener
        params = record('P', None)
        ex.call_function(fi, ['propka.cfg', params])
        from pyvc.core import PyPath
        import os
        first = tried[0] if tried else None
        ctx.oblige('PF: a parameter file name is looked up in the package directory first (a file of the same name in the working '
                   'directory cannot shadow the shipped one)', isinstance(first, PyPath) and len(tried) == 1
                   and os.path.dirname(first.p) == os.path.dirname(fi.module.path) and os.path.basename(first.p) == 'propka.cfg')
    pr.explore(ex, thunk, 'read_parameter_file lookup order')

    def thunk_abs(ex, ctx):
        # a custom file given with its directory is THAT file - also when it is called like a file shipped with the package
        opened = []

        def opener(ex, ctx_, fi_, a, k, so):
            opened.append(a[0])
            h = record('handle', None)
            h.attrs['__iter_items__'] = []
            return h
        ex.contracts['propka.input.open_file_for_reading'] = opener
        ex.call_function(fi, ['/somewhere/else/propka.cfg', record('P', None)])
        from pyvc.core import PyPath
        path = opened[0].p if opened and isinstance(opened[0], PyPath) else (opened[0] if opened else None)
        ctx.oblige('PF: a parameter file given with an absolute path is opened at that path (a copy of the shipped file in another '
                   'directory is not replaced by the shipped one)', len(opened) == 1 and str(path) == '/somewhere/else/propka.cfg')
    pr.explore(ex, thunk_abs, 'read_parameter_file absolute path')


def task_open(pr, repo):
    ex = Executor(repo)
    fi = repo.func('propka.input.open_file_for_reading')
    pr.under_contract(fi)

    def thunk(ex, ctx):
        calls = []
        stream = record('stream', None)
        stream.attrs['seek'] = Builtin('seek', lambda ex, pos: calls.append(pos))
        # typing alias _PathLikeTypes: a stream is not path-like
        r = ex.call_function(fi, [stream])
        ctx.oblige('OF: a file-like input is rewound to position 0 and handed back as it is (same content as a path read from the start)',
                   calls == [0] and r is stream)
    pr.explore(ex, thunk, 'open_file_for_reading(stream)')


def census_set_iteration(pr, repo):
    sites = []
    for m in repo.all_modules():
        for scope, fi in [(f.qualname, f) for f in m.functions.values()] + [(f.qualname, f) for c in m.classes.values() for f in c.methods.values()]:
            src = _ast.unparse(fi.node)
            if 'set(' in src or 'Set[' in src or '.pop()' in src:
                for n in _ast.walk(fi.node):
                    if isinstance(n, _ast.Call) and _ast.unparse(n.func) == 'set':
                        sites.append('%s.%s' % (m.name, scope))
    sites = sorted(set(sites))
    want = ['propka.conformation_container.ConformationContainer.find_bonded_titratable_groups',
            'propka.conformation_container.ConformationContainer.get_coupled_systems']
    pr.add(Ground('SI: sets of identity-hashed groups are built only in find_bonded_titratable_groups and get_coupled_systems',
                  [s for s in sites if 'conformation_container' in s or 'coupled' in s or 'group' in s] == want, detail=str(sites), kind='aux',
                  backend='frame-checker'))
    pr.undecided.append({'obligation': 'SI: commutation of the swaps performed by NCCG.print_system over list(set) order (coupled-residue '
                                       'display, -d)', 'reason': 'not proved: the display mode applies cumulative swaps in the iteration order '
                                       'of an identity-hashed set; two orders of a 3-group system give different texts when object '
                                       'addresses are emulated, 34 native attempts were identical (no native failing history found)'})


def run(pr, repo):
    pr.level = 'other'
    pr.explanation = ('frame censuses and VCs on the mechanisms the property names (global state, the one mutable shared table, singleton '
                      'parameters, ambient reads, fresh objects per call, stream rewind) + bounded history monitor; the history '
                      'quantifier itself is outside per-call contracts, and the order independence of the coupled-residue display '
                      'is left undecided - hence level "other"')
    census_globals(pr, repo)
    census_ambient(pr, repo)
    ground_nccg(pr, repo)
    census_set_iteration(pr, repo)
    frames.decorator_census(pr, repo)
    frames.query_is_pure(pr, repo, ['propka.molecular_container.MolecularContainer.get_pi',
                                    'propka.molecular_container.MolecularContainer.get_charge_profile',
                                    'propka.molecular_container.MolecularContainer.get_folding_profile',
                                    'propka.molecular_container.MolecularContainer.write_pka'],
                         'queries behind the written file')
    # the squared cut-offs are class-level descriptors: they must keep no state shared between Parameters instances
    pr.parallel([(task_valence, ()), (task_fresh, ()), (task_open, ()), (task_param_lookup, ()), (C18.task_squared, ())])
    pr.assumptions += ['CPython dict insertion order; A-REFL', 'composition step; the history quantifier is covered by the bounded monitor only']
    bounded(pr)


def bounded(pr):
    """Bounded: the same input after randomised in-process histories, path vs stream, other cwd / hash seed."""
    from . import native
    import io
    import os
    import random
    import subprocess
    import tempfile
    import propka.run as run
    import propka.output as out
    rng = random.Random(pr.seed)
    names = ['3SGB-subset', '1HPX', 'conf-alt-AB-mutant', 'sample-issue-140']
    optsets = [[], ['-d'], ['-i', 'A:25,E:57'], ['-c', 'A'], ['--protonate-all'], ['-k']]

    def text_of(mol):
        p = mol.version.parameters
        t = out.get_determinant_section(mol, 'AVR', p) + out.get_summary_section(mol, 'AVR', p)
        t += out.get_folding_profile_section(mol, conformation='AVR', reference='neutral', window=(0., 14., 1.0))
        t += out.get_charge_profile_section(mol, conformation='AVR')
        return t

    def fresh(name, opts, seed=None, cwd_cfg=None):
        code = ("import sys, io, logging\nlogging.disable(logging.CRITICAL)\nsys.path.insert(0, %r); sys.path.insert(0, %r)\n"
                "from props import native, C03\nimport hashlib\n"
                "try:\n    m = native.run_text(native.pdb_lines(%r), %r)\n    sys.stdout.write(hashlib.sha256(C03_text(m).encode()).hexdigest())\n"
                "except (ValueError, KeyError) as e:\n    sys.stdout.write('EXC:' + type(e).__name__)\n"
                % (native.REPO, os.path.dirname(os.path.dirname(__file__)), name, opts))
        code = code.replace('C03_text(m)', 'C03.bounded_text(m)')
        env = dict(os.environ, PYTHONHASHSEED=str(seed if seed is not None else rng.randrange(1, 10 ** 6)))
        d = tempfile.mkdtemp()
        try:
            if cwd_cfg is not None:
                open(os.path.join(d, 'propka.cfg'), 'w').write(cwd_cfg)
            p = subprocess.run([sys.executable, '-c', code], capture_output=True, text=True, env=env, cwd=d)
        finally:
            import shutil
            shutil.rmtree(d, ignore_errors=True)
        if not p.stdout.strip():
            raise RuntimeError('fresh-process run produced nothing: ' + p.stderr[-400:])
        return p.stdout.strip()
    import hashlib
    import re
    fd, alt_cfg = tempfile.mkstemp(suffix='.cfg')
    import atexit
    atexit.register(lambda p_=alt_cfg: os.path.exists(p_) and os.unlink(p_))     # also when a monitor step raises
    os.write(fd, re.sub(r'(?m)^desolv_cutoff\s+\S+', 'desolv_cutoff 16.0', re.sub(r'(?m)^coulomb_cutoff2\s+\S+', 'coulomb_cutoff2 8.0',
             open(os.path.join(native.REPO, 'propka', 'propka.cfg')).read())).encode())
    os.close(fd)
    ev, viol, classes = 0, [], set()
    n_hist = 6 if pr.tier == 'quick' else 60
    targets = [('3SGB-subset', []), ('1HPX', ['-d'])] if pr.tier == 'quick' else [(n, o) for n in names[:2] for o in optsets[:4]]
    for name, opts in targets:
        ref = fresh(name, opts)
        # other hash seeds, and a working directory that holds a different file named like the shipped parameter file
        for sd in (1, 5, 6):
            ev += 1
            classes.add(('hashseed', sd))
            if fresh(name, opts, seed=sd) != ref and len(viol) < 3:
                viol.append({'what': '%s %s: output text under PYTHONHASHSEED=%d differs from another hash seed' % (name, opts, sd), 'replay': None})
        ev += 1
        classes.add('cwd')
        edited = re.sub(r'(?m)^model_pkas ASP\s+\S+', 'model_pkas ASP 5.80', open(os.path.join(native.REPO, 'propka', 'propka.cfg')).read())
        a_ = fresh(name, opts + ['-p', 'propka.cfg'], seed=1, cwd_cfg=edited)
        b_ = fresh(name, opts + ['-p', 'propka.cfg'], seed=1)
        if a_ != b_ and len(viol) < 3:
            viol.append({'what': '%s %s -p propka.cfg: result depends on the working directory (a same-named file there is picked up)' % (name, opts), 'replay': None})
        for h in range(n_hist):
            ev += 1
            if h == 0:
                # earlier invocations in this process that asked for other grids, windows, references, pH: nothing of that may stay
                # behind in the defaults the next invocation starts from
                for o in (['--window', '0', '16', '1'], ['-g', '2', '10', '0.5'], ['-w', '3', '9', '2', '-g', '1', '12', '0.25'],
                          ['-o', '2.5', '-r', 'low-pH'], ['--window', '-2', '15', '0.5']):
                    try:
                        native.run_text(native.pdb_lines('3SGB-subset'), o)
                    except (Exception, SystemExit):    # noqa
                        pass
            # a random history of other inputs/options in THIS process, then the target
            for _ in range(rng.randint(0, 3)):
                try:
                    o = list(rng.choice(optsets))
                    if rng.random() < 0.4:
                        o += ['-p', alt_cfg]
                    native.run_text(native.pdb_lines(rng.choice(names)), o)
                except Exception:    # noqa
                    pass
            if rng.random() < 0.5:
                # the alternative parameter file is rewritten in place (same path, other content) and used again
                txt = open(alt_cfg).read()
                open(alt_cfg, 'w').write(re.sub(r'(?m)^desolv_cutoff\s+\S+', 'desolv_cutoff %s' % rng.choice((15.0, 17.0, 19.0)), txt))
                try:
                    native.run_text(native.pdb_lines(rng.choice(names)), ['-p', alt_cfg])
                except Exception:    # noqa
                    pass
            junk = [object() for _ in range(rng.randint(0, 5000))]     # allocation padding
            kind = rng.choice(['stream', 'path'])
            classes.add((kind, tuple(opts)))
            try:
                if kind == 'stream':
                    mol = native.run_text(native.pdb_lines(name), opts)
                else:
                    mol = run.single(os.path.join(native.PDB_DIR, name + '.pdb'), optargs=['-q'] + opts, write_pka=False)
                got = hashlib.sha256(bounded_text(mol).encode()).hexdigest()
            except (ValueError, KeyError) as e:     # e.g. a chain selection that leaves nothing: the same error is the same outcome
                got = 'EXC:' + type(e).__name__
            del junk
            if got != ref and len(viol) < 3:
                viol.append({'what': '%s %s after history %d (%s input): output text differs from a fresh process' % (name, opts, h, kind), 'replay': None})
    # several structures in ONE invocation (the loop of propka.run.main: one options object and one Parameters object for all files)
    import propka.lib as plib
    import propka.input as pinp
    from propka.parameters import Parameters
    from propka.molecular_container import MolecularContainer
    try:
        order = ['1FTJ-Chain-A', '3SGB-subset', '1HPX']
        files = [os.path.join(native.PDB_DIR, n + '.pdb') for n in order]
        options = plib.loadOptions(['-q', '-f', files[0], '-f', files[1], files[2]])
        parameters = pinp.read_parameter_file(options.parameters, Parameters())
        for f in options.filenames:
            ev += 1
            classes.add('one invocation, several files')
            m = MolecularContainer(parameters, options)
            m = pinp.read_molecule_file(f, m)
            m.calculate_pka()
            got = hashlib.sha256(bounded_text(m).encode()).hexdigest()
            want = hashlib.sha256(bounded_text(native.run_text(open(f).read(), [])).encode()).hexdigest()
            if got != want and len(viol) < 3:
                viol.append({'what': '%s processed as one of several files of one invocation (shared options and parameters): results '
                                     'differ from processing it alone' % os.path.basename(f), 'replay': None})
    except (Exception, SystemExit) as e:    # noqa
        viol.append({'what': 'several files in one invocation: %s: %s' % (type(e).__name__, e), 'replay': None})
    # object addresses are process history too: a residue selection whose list object lives where an earlier calculation's list lived
    try:
        s1 = [('E', 29, ' '), ('E', 57, ' ')]
        s2 = [('I', 19, ' '), ('I', 56, ' ')]
        want2 = native.titrated_with_list('3SGB-subset', list(s2))
        want1 = native.titrated_with_list('3SGB-subset', list(s1))
        for a_, b_, wa, wb in ((s1, s2, want1, want2), (s2, s1, want2, want1)):
            ev += 1
            g1, g2, rec = native.recycled_address_selections('3SGB-subset', a_, b_)
            classes.add('recycled option list: %s' % rec)
            if (g1 != wa or g2 != wb) and len(viol) < 3:
                viol.append({'what': '3SGB-subset with options.titrate_only = %r after a calculation with %r whose list object was freed '
                                     '(new list at the %s address): titrated %r, alone %r' % (b_, a_, 'same' if rec else 'another', g2, wb),
                             'replay': None})
    except (Exception, SystemExit) as e:    # noqa
        viol.append({'what': 'recycled option list: %s: %s' % (type(e).__name__, e), 'replay': None})
    # the real command-line entry point (propka.run.main) given several files at once, in two orders: every written .pka file equals the
    # file written when that structure is the only input
    import contextlib
    import logging as _logging
    d5 = tempfile.mkdtemp()
    cwd0 = os.getcwd()
    try:
        def body5(path):
            txt = open(path).read()
            i = txt.find('---------  -----')
            return txt[i:] if i >= 0 else txt

        def run_main(args, sub):
            wd = os.path.join(d5, sub)
            os.mkdir(wd)
            os.chdir(wd)
            root = _logging.getLogger('')
            before = list(root.handlers)
            try:
                with contextlib.redirect_stdout(io.StringIO()):
                    run.main([args])
            finally:
                os.chdir(cwd0)
                for h in list(root.handlers):
                    if h not in before:
                        root.removeHandler(h)
            return {f[:-4]: body5(os.path.join(wd, f)) for f in os.listdir(wd) if f.endswith('.pka')}
        trio = ['1FTJ-Chain-A', '1HPX', '3SGB-subset']
        paths = {n: os.path.join(native.PDB_DIR, n + '.pdb') for n in trio}
        alone = {}
        for n in trio:
            alone.update(run_main(['-q', paths[n]], 'alone-' + n))
        for k_, order in enumerate((trio, trio[::-1])):
            ev += 1
            classes.add('run.main, several files')
            together = run_main(['-q'] + [a for n in order[:-1] for a in ('-f', paths[n])] + [paths[order[-1]]], 'together%d' % k_)
            for n in order:
                if together.get(n) != alone.get(n) and len(viol) < 3:
                    viol.append({'what': 'propka.run.main with the files %r in one invocation: %s.pka differs from the file written when %s '
                                         'is the only input' % (order, n, n), 'replay': None})
    except (Exception, SystemExit) as e:    # noqa
        viol.append({'what': 'run.main with several files: %s: %s' % (type(e).__name__, e), 'replay': None})
    finally:
        os.chdir(cwd0)
        import shutil
        shutil.rmtree(d5, ignore_errors=True)
    # the coupled-residue display on a system of three coupled groups (1FTJ-Chain-A) under different hash seeds
    refd = fresh('1FTJ-Chain-A', ['-d'], seed=0)
    for sd in (2, 3) if pr.tier == 'quick' else (1, 2, 3, 4, 5, 6, 7):
        ev += 1
        classes.add(('hashseed -d', sd))
        if fresh('1FTJ-Chain-A', ['-d'], seed=sd) != refd and len(viol) < 3:
            viol.append({'what': "1FTJ-Chain-A -d: output text under PYTHONHASHSEED=%d differs from PYTHONHASHSEED=0" % sd, 'replay': None})
    # path vs text stream for content with Windows line ends, bare TER records and no terminal oxygens (the path is opened with
    # newline translation, a StringIO is not)
    d4 = tempfile.mkdtemp()
    try:
        for nm in ('1HPX', '3SGB-subset'):
            ev += 1
            classes.add('crlf path vs stream')
            ls = []
            for l in native.pdb_lines(nm):
                if l[:6] in ('ATOM  ', 'HETATM') and l[12:16] == ' OXT':
                    continue
                ls.append('TER' if l.startswith('TER') else l.rstrip('\n'))
            text = '\r\n'.join(ls) + '\r\n'
            pth = os.path.join(d4, nm + '.pdb')
            open(pth, 'w', newline='').write(text)
            a_ = hashlib.sha256(bounded_text(run.single(pth, optargs=['-q'], write_pka=False)).encode()).hexdigest()
            b_ = hashlib.sha256(bounded_text(native.run_text(text, [])).encode()).hexdigest()
            if a_ != b_ and len(viol) < 3:
                viol.append({'what': '%s with CR LF line ends, bare TER records and no OXT: path input and text-stream input give '
                                     'different results' % nm, 'replay': None})
    finally:
        import shutil
        shutil.rmtree(d4, ignore_errors=True)
    # several molecules alive at once, files written later: each file carries ITS molecule's results
    d3 = tempfile.mkdtemp()
    try:
        def body(path):
            txt = open(path).read()
            i = txt.find('---------  -----')
            return txt[i:] if i >= 0 else txt
        pair = ('1HPX', '3SGB-subset')
        now = {}
        for nm in pair:
            m = native.run_text(native.pdb_lines(nm))
            m.write_pka(filename=os.path.join(d3, nm + '.now.pka'))
            now[nm] = body(os.path.join(d3, nm + '.now.pka'))
        alive = [(nm, native.run_text(native.pdb_lines(nm))) for nm in pair]
        for nm, m in alive:
            ev += 1
            classes.add('deferred write')
            m.write_pka(filename=os.path.join(d3, nm + '.later.pka'))
            if body(os.path.join(d3, nm + '.later.pka')) != now[nm] and len(viol) < 3:
                viol.append({'what': '%s: the .pka file written after another structure was calculated in the same process differs from '
                                     'the file written right after its own calculation' % nm, 'replay': None})
    finally:
        import shutil
        shutil.rmtree(d3, ignore_errors=True)
    # the same PATH NAME holding other content than the last time it was read in this process (a file rewritten in place)
    d2 = tempfile.mkdtemp()
    try:
        same = os.path.join(d2, 'model.pdb')
        for first, second in (('3SGB-subset', '1HPX'), ('1HPX', '3SGB-subset')):
            ev += 1
            classes.add('rewritten path')
            open(same, 'w').write(''.join(native.pdb_lines(first)))
            run.single(same, optargs=['-q'], write_pka=False)
            open(same, 'w').write(''.join(native.pdb_lines(second)))
            got = hashlib.sha256(bounded_text(run.single(same, optargs=['-q'], write_pka=False)).encode()).hexdigest()
            want = hashlib.sha256(bounded_text(native.run_text(native.pdb_lines(second), [])).encode()).hexdigest()
            if got != want and len(viol) < 3:
                viol.append({'what': 'path %s read after it was rewritten in place (%s -> %s): result is not that of its present '
                                     'content (stream input of the same text)' % (os.path.basename(same), first, second), 'replay': None})
    finally:
        import shutil
        shutil.rmtree(d2, ignore_errors=True)
    os.unlink(alt_cfg)
    pr.bounded.append({'name': 'C03-monitor: same input after random in-process histories vs a fresh process (other cwd and hash seed)',
                       'evaluations': ev, 'distinct_nontrivial': len(classes), 'bound': '%d targets x %d histories' % (len(targets), n_hist),
                       'rule': 'determinant + summary + profile text (no date line) hashed; path and stream input; allocation padding',
                       'violations': viol})


def bounded_text(mol):
    import propka.output as out
    p = mol.version.parameters
    t = out.get_determinant_section(mol, 'AVR', p) + out.get_summary_section(mol, 'AVR', p)
    t += out.get_folding_profile_section(mol, conformation='AVR', reference='neutral', window=(0., 14., 1.0))
    t += out.get_charge_profile_section(mol, conformation='AVR')
    return t
