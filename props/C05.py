"""C05 - parts of a structure beyond interaction range do not influence each other.

  DS  radial_volume_desolvation: an atom at or beyond max(desolv, buried) cut-off leaves the loop state unchanged (TOP)
  SD  set_determinants (real double loop, 3 groups incl. equal labels): every unordered pair of DISTINCT groups is
      examined exactly once - also when two groups carry the same label - and a pair at or beyond coulomb_cutoff2
      adds nothing to either group                                                                              (TOP)
  IO  set_ion_determinants / set_backbone_determinants / backbone_reorganization: beyond the cut-off => nothing  (TOP)
  SM  get_smallest_distance: for non-empty inputs the result is the true closest pair and its distance for ANY
      coordinates (no sentinel can win); None atoms iff an input is empty                                        (TOP)
  IT  iterative.add_determinants: one Iterative per distinct group (equal labels are not confused), find_iterative
      returns the two objects of the pair by identity                                                           (TOP)
  CP  coupling probe: zero interaction energy between the two groups => early return, nothing swapped          (TOP)
  GR  every cut-off of the shipped file is <= 20 A                                                                (TOP, ground)
"""
import z3

from .common import *   # noqa: F401,F403
from pyvc.loops import LoopSpec
from pyvc.core import Builtin
from pyvc.values import real_val
from . import reader, cfg, C02, C16, C08

E = 'propka.energy.'
D = 'propka.determinants.'


def task_desolvation(pr, repo):
    ex = Executor(repo)
    FN = E + 'radial_volume_desolvation'
    fi = repo.func(FN)
    pr.under_contract(fi)
    A = repo.cls('propka.atom.Atom')

    def thunk(ex, ctx):
        p = C16.sym_params(ctx)
        p.attrs['VanDerWaalsVolume'] = {k: R('vdw_' + k) for k in ['C', 'C4', 'N', 'O', 'S']}
        dsq, bsq = p.attrs['desolv_cutoff_squared'], p.attrs['buried_cutoff_squared']
        sq = R('sq_dist')
        ctx.assume(sq >= 0)
        ex.contracts['propka.calculations.squared_distance'] = lambda ex, ctx_, fi_, a, k, so: sq

        def havoc(ex, ctx_, env, phase):
            v, n = ctx_.fresh('volume'), ctx_.fresh('num_volume', 'int')
            env.local['volume'] = v
            env.local['group'].attrs['num_volume'] = n
            return (v, n)

        def elem(ex, ctx_, env):
            return record('atom', A, res_num=I('a_res_num'), chain_id=mk_str([I('a_chain')]), element='C', name='CB')

        def step(ex, ctx_, env, tok, x, how):
            ctx_.oblige('DS: an atom at or beyond both the desolvation and the buried cut-off leaves volume and count unchanged',
                        Implies(And(sq >= dsq, sq >= bsq),
                                And(env.local['volume'] == tok[0], env.local['group'].attrs['num_volume'] == tok[1])))
        ex.loop_hooks[(FN, 0)] = LoopSpec('desolv', elem, havoc, step=step, explore_exit=False)
        conf = record('conf', None)
        conf.attrs['get_non_hydrogen_atoms'] = C16.Builtin_list([])
        gatom = record('gatom', A, res_num=I('g_res_num'), chain_id=mk_str([I('g_chain')]), conformation_container=conf)
        g = C16.sym_group(repo, 'g', atom=gatom, energy_volume='real')
        ex.call_function(fi, [p, g])
    pr.explore(ex, thunk, FN)
    ex.loop_hooks.clear()


def task_set_determinants(pr, repo):
    ex = Executor(repo)
    fi = repo.func(D + 'set_determinants')
    pr.under_contract(fi)
    for labels in (['L0', 'L1', 'L2'], ['L0', 'L0', 'L2'], ['L0', 'L0', 'L0']):
        def thunk(ex, ctx, labels=labels):
            # titratable flags are arbitrary: under a titrate-only list unlisted groups are not titratable but every pair still interacts
            gs = [C02.mkgroup(repo, 'g%d' % i, (0, 0, 0), label=labels[i], type='COO', covalently_coupled_groups=[],
                              x='real', y='real', z='real', titratable=B('titratable_%d' % i)) for i in range(3)]
            dist = {}
            seen = []

            def distance(ex, ctx_, fi_, a, k, so):
                key = tuple(sorted((a[0].name, a[1].name)))
                seen.append(key)
                return dist.setdefault(key, ctx_.fresh('dist_%s_%s' % key))
            ex.contracts['propka.calculations.distance'] = distance
            cut = R('coulomb_cutoff2')
            acted = []
            ex.contracts[D + 'add_determinants'] = lambda ex, ctx_, fi_, a, k, so: acted.append(tuple(sorted((a[0].name, a[1].name))))
            ex.contracts['propka.iterative.add_to_determinant_list'] = lambda ex, ctx_, fi_, a, k, so: acted.append(tuple(sorted((a[0].name, a[1].name))))
            ex.contracts['propka.iterative.add_determinants'] = lambda ex, ctx_, fi_, a, k, so: None
            im = record('im', None)
            im.attrs['get_value'] = Builtin('gv', lambda ex, a, b: 'N')
            version = record('version', None, parameters=record('P', None, coulomb_cutoff2=cut, interaction_matrix=im))
            ex.call_function(fi, [gs, version], {'options': None})
            allpairs = [('g0', 'g1'), ('g0', 'g2'), ('g1', 'g2')]
            ctx.oblige('SD[labels %s]: each unordered pair of distinct groups is examined exactly once (groups are told apart by '
                       'identity, not by label)' % labels, sorted(seen) == allpairs)
            conj = []
            for pkey in allpairs:
                d = dist.get(pkey)
                if d is None:
                    continue
                did = pkey in acted
                conj.append(Implies(d >= cut, not did))
                conj.append(Implies(d < cut, did))
            ctx.oblige('SD[labels %s]: a pair interacts iff its distance is below coulomb_cutoff2' % labels, And(*conj))
        pr.explore(ex, thunk, 'set_determinants %s' % labels)


def task_ion_backbone_reorg(pr, repo):
    ex = Executor(repo)
    A = repo.cls('propka.atom.Atom')
    for n in ('set_ion_determinants', 'set_backbone_determinants'):
        pr.under_contract(repo.func(D + n))
    pr.under_contract(repo.func(E + 'backbone_reorganization'))

    def t_ion(ex, ctx):
        tg, ion = C16.sym_group(repo, 'tg', x='real', y='real', z='real'), C16.sym_group(repo, 'ion', x='real', y='real', z='real')
        conf = record('conf', None)
        conf.attrs['get_titratable_groups'] = C16.Builtin_list([tg])
        conf.attrs['get_ions'] = C16.Builtin_list([ion])
        p = record('P', None, coulomb_cutoff2_squared=R('cut2sq'))
        version = record('version', None, parameters=p)
        version.attrs['calculate_pair_weight'] = Builtin('pw', lambda ex, *a, **k: R('w'))
        version.attrs['calculate_coulomb_energy'] = Builtin('ce', lambda ex, *a, **k: R('e'))
        ex.call_function(repo.func(D + 'set_ion_determinants'), [conf, version])
        sq = sum((ion.attrs[c] - tg.attrs[c]) * (ion.attrs[c] - tg.attrs[c]) for c in 'xyz')
        n = len(tg.attrs['determinants']['coulomb'])
        ctx.oblige('IO: an ion at or beyond coulomb_cutoff2 adds no determinant', Implies(sq >= R('cut2sq'), n == 0))
    pr.explore(ex, t_ion, 'set_ion_determinants')

    def t_bb(ex, ctx):
        heavy = xyz('heavy', A, element='N')
        tatom = xyz('tatom', A, element='O', bonded_atoms=[heavy])
        batom = xyz('batom', A, element='O', bonded_atoms=[heavy])
        tg = C16.sym_group(repo, 'tg', type='COO', interaction_atoms_for_acids=[tatom])
        bb = C16.sym_group(repo, 'bb', type='BBN')
        bb.attrs['get_interaction_atoms'] = C16.Builtin_list([batom])
        c1, c2, dist = R('cutoff1'), R('cutoff2'), R('dist')
        ctx.assume(And(c1 < c2, dist >= 0))
        version = record('version', None, parameters=record('P', None, angular_dependent_sidechain_interactions=['HIS']))
        version.attrs['get_backbone_hydrogen_bond_parameters'] = Builtin('bbp', lambda ex, *a, **k: [R('dpka'), [c1, c2]])
        ex.contracts['propka.calculations.get_smallest_distance'] = lambda ex, ctx_, fi_, a, k, so: [batom, dist, tatom]
        ex.call_function(repo.func(D + 'set_backbone_determinants'), [[tg], [bb], version])
        ctx.oblige('IO: a backbone group whose closest atom is at or beyond the outer cut-off adds no determinant',
                   Implies(dist >= c2, len(tg.attrs['determinants']['backbone']) == 0))
    pr.explore(ex, t_bb, 'set_backbone_determinants')

    reached = []

    def t_bb_indep(ex, ctx):
        # what a titratable group gets does not depend on which other titratable groups are in the list (before or after it) -
        # in particular not on an incomplete group without interaction atoms, or one that has no parameters with this backbone group
        c1, c2, dist, dpka, en = R('cutoff1'), R('cutoff2'), R('dist'), R('dpka'), R('hb_energy')
        ctx.assume(And(c1 < c2, dist >= 0))
        results = []
        for layout in ('alone', 'empty first', 'no-parameter group first', 'empty last'):
            heavy = xyz('heavy', A, element='N')
            tatom = xyz('tatom', A, element='O', bonded_atoms=[heavy])
            batom = xyz('batom', A, element='H', bonded_atoms=[heavy])       # amide hydrogen of the backbone N-H
            oatom = xyz('oatom', A, element='C', bonded_atoms=[heavy])
            tg = C16.sym_group(repo, 'tg', type='COO', interaction_atoms_for_acids=[tatom])
            tg.attrs['charge'] = R('q')
            empty = C16.sym_group(repo, 'empty', type='COO', interaction_atoms_for_acids=[])
            nopar = C16.sym_group(repo, 'nopar', type='LYS', interaction_atoms_for_acids=[oatom])
            bb = C16.sym_group(repo, 'bb', type='BBN')
            bb.attrs['get_interaction_atoms'] = C16.Builtin_list([batom])
            version = record('version', None, parameters=record('P', None, angular_dependent_sidechain_interactions=['HIS']))
            version.attrs['get_backbone_hydrogen_bond_parameters'] = Builtin(
                'bbp', lambda ex_, b, t_, oatom=oatom: None if t_ is oatom else [dpka, [c1, c2]])
            ex.contracts['propka.calculations.get_smallest_distance'] = \
                lambda ex_, ctx_, fi_, a, k, so, batom=batom: [batom, dist, a[1][0]]
            ex.contracts[E + 'hydrogen_bond_energy'] = lambda ex_, ctx_, fi_, a, k, so: en
            ex.contracts[E + 'angle_distance_factors'] = lambda ex_, ctx_, fi_, a, k, so: (R('d12'), R('f_angle'), R('d23'))
            groups = {'alone': [tg], 'empty first': [empty, tg], 'no-parameter group first': [nopar, tg], 'empty last': [tg, empty]}[layout]
            ex.call_function(repo.func(D + 'set_backbone_determinants'), [groups, [bb], version])
            results.append((layout, [d.attrs['value'] for d in tg.attrs['determinants']['backbone']],
                            len(empty.attrs['determinants']['backbone']) + len(nopar.attrs['determinants']['backbone'])))
        ref = results[0][1]
        reached.append(len(ref))
        for layout, vals, others in results[1:]:
            ctx.oblige('IO[%s]: the backbone determinants of a group do not depend on the other titratable groups in the list; groups '
                       'without interaction atoms or parameters get none' % layout,
                       And(len(vals) == len(ref), others == 0, *[a == b for a, b in zip(vals, ref)]))
    pr.explore(ex, t_bb_indep, 'set_backbone_determinants independence')
    ex.contracts.pop(E + 'hydrogen_bond_energy', None)
    ex.contracts.pop(E + 'angle_distance_factors', None)
    pr.add(Ground('IO: vacuity guard - the independence harness reaches the determinant-adding branch',
                  any(n > 0 for n in reached), kind='aux'))

    def t_reorg(ex, ctx):
        FN = E + 'backbone_reorganization'
        d = R('adf_dist')
        ex.contracts[E + 'angle_distance_factors'] = lambda ex, ctx_, fi_, a, k, so: (d, R('adf_f'), R('adf_d23'))

        def havoc(ex, ctx_, env, phase):
            v = ctx_.fresh('dpka')
            env.local['dpka'] = v
            return v

        def elem(ex, ctx_, env):
            b = record('bbc', None, atom=xyz('bbc_atom', A))
            b.attrs['get_interaction_atoms'] = C16.Builtin_list([xyz('bbc_o', A)])
            return b

        def step(ex, ctx_, env, tok, x, how):
            ctx_.oblige('IO: a backbone C=O at or beyond 6 A leaves the reorganisation sum unchanged',
                        Implies(d >= 6, env.local['dpka'] == tok))
        ex.loop_hooks[(FN, 1)] = LoopSpec('reorg', elem, havoc, step=step, explore_exit=False)
        g = C16.sym_group(repo, 'tg', energy_local='real', x='real', y='real', z='real')
        conf = record('conf', None)
        conf.attrs['get_backbone_reorganisation_groups'] = C16.Builtin_list([g])
        conf.attrs['get_backbone_co_groups'] = C16.Builtin_list([])
        ex.call_function(repo.func(FN), [None, conf])
    pr.explore(ex, t_reorg, 'backbone_reorganization')
    ex.loop_hooks.clear()


REPLAY_SM = r'''
import sys
from propka.calculations import get_smallest_distance
class P:
    def __init__(s, x, y, z): s.x, s.y, s.z = x, y, z
l1 = [P(*p) for p in %(l1)r]; l2 = [P(*p) for p in %(l2)r]
a, d, b = get_smallest_distance(l1, l2)
best = min(((p.x-q.x)**2+(p.y-q.y)**2+(p.z-q.z)**2, i, j) for i, p in enumerate(l1) for j, q in enumerate(l2))
print('result', a and l1.index(a), d, b and l2.index(b), 'true minimum', best[0]**0.5, best[1], best[2])
sys.exit(0 if a is not None and b is not None and abs(d - best[0]**0.5) < 1e-9 else 1)
'''


def task_smallest(pr, repo):
    ex = Executor(repo)
    fi = repo.func('propka.calculations.get_smallest_distance')
    pr.under_contract(fi)
    pr.under_contract(repo.func('propka.calculations.squared_distance'))
    A = repo.cls('propka.atom.Atom')

    def builder(n1, n2):
        def b(model):
            # the model fixes the squared distances; realise them on the x axis
            l1 = [[0.0, 40.0 * i, 0.0] for i in range(n1)]
            l2 = [[mval(model, 'sq_p0_q%d' % j, 4.0) ** 0.5, 0.0, 0.0] for j in range(n2)]
            return REPLAY_SM % {'l1': l1, 'l2': l2}
        return b
    # exact contract of the callee, proved on its real body (ring normalisation)
    def t_sq(ex, ctx):
        a, b = xyz('p0', A), xyz('q0', A)
        r = ex.call_function(repo.func('propka.calculations.squared_distance'), [a, b])
        ctx.oblige('squared_distance(a, b) == (bx-ax)^2 + (by-ay)^2 + (bz-az)^2', r == sum((b.attrs[c] - a.attrs[c]) * (b.attrs[c] - a.attrs[c]) for c in 'xyz'),
                   kind='aux', meta={'ring': True})
    pr.explore(ex, t_sq, 'squared_distance')
    for n1, n2 in ((1, 1), (2, 1), (2, 3), (3, 2), (0, 2), (1, 0)):
        def thunk(ex, ctx, n1=n1, n2=n2):
            l1 = [xyz('p%d' % i, A) for i in range(n1)]
            l2 = [xyz('q%d' % i, A) for i in range(n2)]
            sqv = {}

            def sqd(ex, ctx_, fi_, a, k, so):
                key = (a[0].name, a[1].name)
                if key not in sqv:
                    v = R('sq_%s_%s' % key)
                    # callee contract: a sum of three squares of coordinate differences inside the PDB field
                    ctx_.assume(And(v >= 0, v <= Sym(real_val(3 * 10999.998 ** 2))), kind='def')
                    sqv[key] = v
                return sqv[key]
            ex.contracts['propka.calculations.squared_distance'] = sqd
            r = ex.call_function(fi, [l1, l2])
            a1, d, a2 = r
            if n1 == 0 or n2 == 0:
                ctx.oblige('SM[%dx%d]: an empty input gives (None, ., None)' % (n1, n2), a1 is None and a2 is None)
                return
            ok = a1 is not None and a2 is not None and (a1.name, a2.name) in sqv
            allpairs = [(p.name, q.name) for p in l1 for q in l2]
            ctx.oblige('SM[%dx%d]: for non-empty inputs a closest pair is always returned (no sentinel value can win inside the '
                       'coordinate field), with its distance; every pair was examined and none is closer' % (n1, n2),
                       And(sorted(sqv) == sorted(allpairs), d >= 0, d * d == sqv[(a1.name, a2.name)],
                           *[sqv[(a1.name, a2.name)] <= sqv[k] for k in allpairs]) if ok else False,
                       meta={'replay': builder(n1, n2)})
        pr.explore(ex, thunk, 'get_smallest_distance %dx%d' % (n1, n2))


def task_iterative(pr, repo):
    ex = Executor(repo)
    IT = 'propka.iterative.'
    pr.under_contract(repo.func(IT + 'add_determinants'))
    pr.under_contract(repo.func(IT + 'find_iterative'))
    for labels in (['A', 'B', 'C', 'D'], ['A', 'B', 'A', 'B']):
        def thunk(ex, ctx, labels=labels):
            gs = [C02.mkgroup(repo, 'g%d' % i, (0, 0, 0), label=labels[i], residue_type='ASP', charge=-1.0) for i in range(4)]
            for g in gs:
                g.attrs['atom'].attrs['type'] = 'atom'
            inter = [[[gs[0], gs[1]], [R('hb01'), R('co01')], [0.0, 0.0]], [[gs[2], gs[3]], [R('hb23'), R('co23')], [0.0, 0.0]]]
            made = []
            ItCls = repo.cls(IT + 'Iterative')

            def it_contract(ex, ctx_, ci, a, k, so):
                o = record('it_%s' % a[0].name, ItCls, group=a[0], label=a[0].attrs['label'], atom=a[0].attrs['atom'], q=-1.0,
                           pka_old=0.0, pka_new=0.0, pka_iter=[], pka_noniterative=0.0, converged=True,
                           determinants={'sidechain': [], 'backbone': [], 'coulomb': []})
                made.append(o)
                return o
            ex.contracts[IT + 'Iterative'] = it_contract
            pairs = []

            def acid(ex, ctx_, fi_, a, k, so):
                pairs.append((a[0].attrs['group'], a[1].attrs['group']))
            ex.contracts[IT + 'add_iterative_acid_pair'] = acid
            ex.call_function(repo.func(IT + 'add_determinants'), [inter, record('version', None)])
            ok_objs = len(made) == 4 and all(any(m.attrs['group'] is g for m in made) for g in gs)
            per_iter = pairs[:2]
            ok_pairs = len(pairs) >= 2 and per_iter[0][0] is gs[0] and per_iter[0][1] is gs[1] and per_iter[1][0] is gs[2] and per_iter[1][1] is gs[3]
            ctx.oblige('IT[labels %s]: one Iterative object per distinct group, and every interaction is applied to the Iterative '
                       'objects of exactly its own two groups (equal labels are not confused)' % labels, ok_objs and ok_pairs)
        pr.explore(ex, thunk, 'iterative.add_determinants %s' % labels)


def task_iterative_sweeps(pr, repo):
    """IS (relational): how often a cluster that does not converge is swept - and hence the values it ends with - does not depend on
    how many OTHER iterative groups (of a far-away part) are in the same conformation."""
    ex = Executor(repo)
    IT = 'propka.iterative.'
    fi = repo.func(IT + 'add_determinants')
    ItCls = repo.cls(IT + 'Iterative')

    def thunk(ex, ctx):
        outcomes = []
        for extra in (0, 30):
            gs = [C02.mkgroup(repo, 'g%d' % i, (0, 0, 0), label='G%03d' % i, residue_type='ASP', charge=-1.0) for i in range(2 + 2 * extra)]
            for g in gs:
                g.attrs['atom'].attrs['type'] = 'atom'
            inter = [[[gs[2 * k], gs[2 * k + 1]], [0.0, 0.0], [0.0, 0.0]] for k in range(1 + extra)]

            def it_contract(ex_, ctx_, ci, a, k, so):
                return record('it_%s' % a[0].name, ItCls, group=a[0], label=a[0].attrs['label'], atom=a[0].attrs['atom'], q=-1.0,
                              pka_old=0.0, pka_new=0.0, pka_iter=[], pka_noniterative=0.0, converged=True,
                              determinants={'sidechain': [], 'backbone': [], 'coulomb': []})
            ex.contracts[IT + 'Iterative'] = it_contract
            sweeps = [0]

            def acid(ex_, ctx_, fi_, a, k, so):
                # the pair (g0, g1) flips between two states from sweep to sweep (never converges); every other pair is inert
                if a[0].attrs['group'] is gs[0]:
                    sweeps[0] += 1
                    a[0].attrs['determinants']['coulomb'].append([a[1], float(sweeps[0] % 2)])
            ex.contracts[IT + 'add_iterative_acid_pair'] = acid
            ex.contracts[IT + 'add_to_determinant_list'] = lambda ex_, ctx_, fi_, a, k, so: None
            ex.call_function(fi, [inter, record('version', None)])
            outcomes.append(sweeps[0])
        ctx.oblige('IS: a non-converging pair is swept equally often (here %s times) with 0 and with 60 other iterative groups in the '
                   'conformation' % outcomes[0], outcomes[0] == outcomes[1] and outcomes[0] >= 2)
    pr.explore(ex, thunk, 'iterative sweeps vs number of groups')


def task_probe_far(pr, repo):
    ex = Executor(repo)
    N = 'propka.coupled_groups.NonCovalentlyCoupledGroups'
    fi = repo.func(N + '.is_coupled_protonation_state_probability')
    pr.under_contract(fi)

    def thunk(ex, ctx):
        x = C02.mkgroup(repo, 'gx', (0, 0, 0), label='X')
        g1 = C02.mkgroup(repo, 'g1', (0, 0, 0), label='L1', intrinsic_pka=None)
        g2 = C02.mkgroup(repo, 'g2', (0, 0, 0), label='L2', intrinsic_pka=None)
        for g in (g1, g2):
            g.attrs['determinants']['coulomb'].append(C02.mkdet(repo, g.name + '_c', group=x, label='X'))
            g.attrs['determinants']['sidechain'].append(C02.mkdet(repo, g.name + '_s', group=x, label='X'))
        snap = {g.name: {t: list(g.attrs['determinants'][t]) for t in g.attrs['determinants']} for g in (g1, g2)}
        params = record('P', None, min_interaction_energy=R('min_int'), pH='variable', reference='neutral')
        ctx.assume(params.attrs['min_interaction_energy'] >= 0)
        called = []
        nccg = record('nccg', repo.cls(N), parameters=params, do_prot_stat=True)
        r = ex.call_function(fi, [g1, g2, Builtin('energy', lambda ex, **k: called.append(1) or 0.0)], self_obj=nccg)
        same = all(g.attrs['determinants'][t] == snap[g.name][t] for g in (g1, g2) for t in snap[g.name])
        ctx.oblige('CP: two groups without mutual determinants (out of range) are dismissed at once: coupling factor -1, no energy '
                   'evaluation, nothing touched', isinstance(r, dict) and r.get('coupling_factor') == -1.0 and not called and same
                   and g1.attrs['pka_value'] is not None)
    pr.explore(ex, thunk, 'coupling probe, no interaction')


def task_coupled_systems(pr, repo):
    """CS: get_coupled_systems partitions the given groups - as OBJECTS - into the connected components of the coupling relation; two
    groups that merely print the same label (a structure and its own copy) stay in different systems."""
    ex = Executor(repo)
    CCn = 'propka.conformation_container.ConformationContainer'
    fi = repo.func(CCn + '.get_coupled_systems')
    pr.under_contract(fi)
    pr.under_contract(repo.func(CCn + '.get_a_coupled_system_of_groups'))
    pr.under_contract(repo.func('propka.group.Group.__hash__'))
    Gc = repo.cls('propka.group.Group')
    for layout in ('copy: equal labels', 'distinct labels', 'chain of three + single'):
        def thunk(ex, ctx, layout=layout):
            labs = {'copy: equal labels': ['N+    7 I', 'ASP   7 I', 'N+    7 I', 'ASP   7 I'],
                    'distinct labels': ['N+    7 I', 'ASP   7 I', 'N+    7 J', 'ASP   7 J'],
                    'chain of three + single': ['A', 'B', 'C', 'B']}[layout]
            gs = [record('g%d' % i, Gc, label=l, covalently_coupled_groups=[]) for i, l in enumerate(labs)]
            pairs = [(0, 1), (2, 3)] if not layout.startswith('chain') else [(0, 1), (1, 2)]
            for a, b in pairs:
                gs[a].attrs['covalently_coupled_groups'].append(gs[b])
                gs[b].attrs['covalently_coupled_groups'].append(gs[a])
            conf = record('conf', repo.cls(CCn))
            getter = Builtin('getter', lambda ex_, g: list(g.attrs['covalently_coupled_groups']))
            systems = ex.call_function(fi, [list(gs), getter], self_obj=conf)
            got = sorted(sorted(int(g.name[1:]) for g in sy) for sy in ex.iterate(systems))
            want = sorted(sorted(c) for c in ([[0, 1], [2, 3]] if not layout.startswith('chain') else [[0, 1, 2], [3]]))
            ctx.oblige('CS[%s]: the systems are exactly the connected components over group objects' % layout, got == want)
        pr.explore(ex, thunk, 'get_coupled_systems ' + layout)


def task_centres(pr, repo):
    from . import C04
    C04.task_group_centres(pr, repo)


def task_squared_cutoffs(pr, repo):
    # every cut-off test compares with <name>_squared: it is the square of the plain value of THIS parameter object (C18-SQ)
    from . import C18
    C18.task_squared(pr, repo)


def task_boundary_records(pr, repo, tag):
    from . import reader
    reader.explore_steps(pr, repo, reader.check_transition, tags=[tag], names=reader.NAMES, chains_cases=(None,),
                         keep_protons_cases=(False,), what='C05 part boundary')


def task_common_centres(pr, repo):
    """CX: with common_charge_centre switched on, the shared centre of a covalently coupled system is the mean of the centres of THAT
    system's groups - coupled groups elsewhere in the structure do not enter, and groups of other systems keep their own."""
    ex = Executor(repo)
    CC_ = 'propka.conformation_container.ConformationContainer'
    fi = repo.func(CC_ + '.set_common_charge_centres')
    pr.under_contract(fi)
    Gc = repo.cls('propka.group.Group')

    def thunk(ex, ctx):
        gs = [record('g%d' % i, Gc, x=R('x%d' % i), y=R('y%d' % i), z=R('z%d' % i), common_charge_centre=False) for i in range(5)]
        before = [[g.attrs[c] for c in 'xyz'] for g in gs]
        systems = [[gs[0], gs[1]], [gs[2], gs[3], gs[4]]]
        ex.contracts[CC_ + '.get_coupled_systems'] = lambda ex, ctx_, fi_, a, k, so: [list(s_) for s_ in systems]
        ex.contracts[CC_ + '.get_covalently_coupled_groups'] = lambda ex, ctx_, fi_, a, k, so: list(gs)
        conf = record('conf', repo.cls(CC_), groups=list(gs))
        ex.call_function(fi, [], self_obj=conf)
        conj = []
        for sysm in systems:
            idx = [gs.index(g) for g in sysm]
            for c in range(3):
                mean_n = sum((before[i][c] for i in idx[1:]), before[idx[0]][c])
                for i in idx:
                    conj.append(gs[i].attrs['xyz'[c]] * len(idx) == mean_n)
        ctx.oblige('CX: every group of a coupled system gets the mean centre of its OWN system (two systems of 2 and 3 groups, arbitrary '
                   'centres) and is flagged', And(*conj) if all(g.attrs['common_charge_centre'] is True for g in gs) else False)
    pr.explore(ex, thunk, 'set_common_charge_centres')


def run(pr, repo):
    p = cfg.parameters()
    cuts = [p.desolv_cutoff, p.buried_cutoff, p.coulomb_cutoff1, p.coulomb_cutoff2, p.sidechain_cutoffs.default[1]]
    cuts += [c[1] for d in p.sidechain_cutoffs.dictionary.values() for c in d.values()]
    cuts += [v[2] for v in list(p.backbone_CO_hydrogen_bond.values()) + list(p.backbone_NH_hydrogen_bond.values())]
    pr.add(Ground('GR: every cut-off of the shipped parameter file is <= 20 A (largest: %s)' % max(cuts), max(cuts) <= 20.0))
    pr.parallel([(task_desolvation, ()), (task_set_determinants, ()), (task_ion_backbone_reorg, ()), (task_smallest, ()),
                 (task_iterative, ()), (task_iterative_sweeps, ()), (task_probe_far, ()), (C08.task_average_twins, ()), (task_coupled_systems, ()),
                 # a group's centre lies on its own atoms (never at a fixed point such as the origin, where another part may sit)
                 (task_centres, ()), (task_common_centres, ())] +
                # order of the parts in the file: the only state carried from one record to the next is the terminus search, and a
                # TER record (in whatever layout) re-arms it - the record automaton of C01 for the non-ATOM records
                [(task_boundary_records, (t,)) for t in ['TER   ', 'MODEL ', 'OTHER'] + sorted(reader.TER_SHORT)] + [(reader.task_nterm, ()), (task_squared_cutoffs, ())])
    pr.assumptions += ['residue identity = label as in the code (chain + number, no insertion code): inputs with insertion-code twins of one residue type are outside what is shown here (known finding D9, DESIGN 10.5)',
                       'iterative solver: "stopping later does not change a converged component" is NOT proved (fixed point of the '
                       'sweep in degenerate ties) - bounded monitor only', 'composition step; A-REAL',
                       'covalent coupling search is bond-based (C11: bonds need distance <= 2.5 A)']
    bounded(pr)


def shift(lines, dx, axis=0):
    out = []
    lo = 30 + 8 * axis
    for l in lines:
        if l[:6] in ('ATOM  ', 'HETATM'):
            v = float(l[lo:lo + 8]) + dx
            l = l[:lo] + '%8.3f' % v + l[lo + 8:]
        out.append(l)
    return out


def bounded(pr):
    from . import native
    ev, viol, classes = 0, [], set()

    def atoms_of(name, chain=None):
        return [l for l in native.pdb_lines(name) if l[:6] in ('ATOM  ', 'HETATM', 'TER   ') and (chain is None or l[21] == chain or l[:3] == 'TER')]
    A = atoms_of('3SGB-subset')
    # a small set (a fragment of under 150 atoms, first residues of 1HPX chain B incl. the ASP 29 / ARG 87 region is not needed: any
    # fragment with side chains) together with a big one and with its own renamed copy: sizes on both sides of any size switch
    # 1HPX has a non-covalently coupled pair (ASP 25 A / ASP 25 B): coupling marks are compared too
    pairs = [('own copy', A, A), ('1HPX + 3SGB-subset', atoms_of('1HPX'), A)]
    # small sets (under 200 atoms): the residues around each arginine of 1HPX chain B (its guanidinium hydrogens are the ones whose
    # placement depends on the order of the bond lists), each with a big far structure and with its own renamed copy
    chain_b = [l for l in atoms_of('1HPX', 'B') if l[:6] == 'ATOM  ']
    args = sorted({int(l[22:26]) for l in chain_b if l[17:20] == 'ARG'})
    for rn in (args if pr.tier == 'thorough' else args[-2:]):
        cz = [(float(l[30:38]), float(l[38:46]), float(l[46:54])) for l in chain_b if int(l[22:26]) == rn and l[12:16] == ' CZ ']
        if not cz:
            continue
        near = {int(l[22:26]) for l in chain_b
                if (float(l[30:38]) - cz[0][0]) ** 2 + (float(l[38:46]) - cz[0][1]) ** 2 + (float(l[46:54]) - cz[0][2]) ** 2 < 8.0 ** 2}
        frag = [l for l in chain_b if int(l[22:26]) in near][:190]
        frag_c = [(l[:21] + 'D' + l[22:]) for l in frag]
        pairs += [('residues around ARG %d + structure' % rn, frag, A), ('residues around ARG %d + their renamed copy' % rn, frag, frag_c)]
    if pr.tier == 'thorough':
        pairs.append(('1HPX chain A + 3SGB chain I', atoms_of('1HPX', 'A'), atoms_of('3SGB', 'I')))
    seps = [(90.0, 0), (1200.0, 1), (1200.0, 2)] if pr.tier == 'quick' else [(85.1, 0), (100.0, 1), (999.0, 2), (1001.0, 0), (5000.0, 1), (9000.0, 2)]
    for pname, s1, s2 in pairs:
        alone1 = native.record(native.run_text(s1), confs=['1A'])['1A']
        for sep, axis in seps:
            s2s = shift(s2, sep, axis)
            try:
                alone2 = native.record(native.run_text(s2s), confs=['1A'])['1A']
            except Exception as e:    # noqa
                viol.append({'what': '%s alone at +%s: %s %s' % (pname, sep, type(e).__name__, e), 'replay': None})
                continue
            for order in ('AB', 'BA'):
                ev += 1
                classes.add((pname, sep > 1000, order))
                both = (s1 + ['TER\n'] + s2s) if order == 'AB' else (s2s + ['TER\n'] + s1)
                try:
                    molb = native.run_text(both)
                    rec = native.record(molb, confs=['1A'])['1A']
                    n_avr = len(molb.conformations['AVR'].groups)
                    n_rep = len([g for g in molb.conformations['1A'].groups if g.use_in_calculations()])
                    if n_avr != n_rep and len(viol) < 3:
                        viol.append({'what': '%s separated by %s A (%s): %d groups of the conformation are reportable but the average lists %d'
                                     % (pname, sep, order, n_rep, n_avr), 'replay': None})
                except Exception as e:    # noqa
                    if len(viol) < 3:
                        viol.append({'what': '%s separated by %s A along axis %d (%s): %s: %s' % (pname, sep, axis, order, type(e).__name__, e), 'replay': None})
                    continue
                nav = len(native.run_text(both).conformations['AVR'].groups) if False else None
                n1 = len(alone1)
                part1, part2 = (rec[:n1], rec[n1:]) if order == 'AB' else (rec[len(alone2):], rec[:len(alone2)])
                keys_ = ('pka', 'evol', 'eloc', 'buried', 'nvol', 'type', 'reported', 'discarded', 'coupled')
                d = native.diff_records({'x': alone1}, {'x': part1}, tol=1e-9, keys=keys_) + \
                    native.diff_records({'x': alone2}, {'x': part2}, tol=1e-9, keys=keys_)
                if d and len(viol) < 3:
                    viol.append({'what': '%s separated by %s A along axis %d (%s): %s' % (pname, sep, axis, order, d[:2]), 'replay': None})
    pr.bounded.append({'name': 'C05-monitor: two far-apart sets vs each alone (per-conformation records)', 'evaluations': ev,
                       'distinct_nontrivial': len(classes), 'bound': '%d set pairs x %d separations x 2 file orders' % (len(pairs), len(seps)),
                       'rule': 'combined file vs each set alone at the same coordinates, group by group to 1e-9 (incl. a structure and its own copy)',
                       'violations': viol})
