"""C14 - titrate_only restricts titration exactly to the listed residues.

  PS  parse_res_string (character level): "chain:number[icode]" -> (chain, int(number), icode or ' '); anything else
      -> ValueError; parse_res_list: one triple per comma-separated entry, in order                            (TOP)
  IG  ConformationContainer.init_group: titratable' = titratable_after_setup and (no list or (chain, number,
      icode) in list); exclude_cys' <=> listed option, not member, CYS; nothing else of the group changes      (TOP)
  UC  Group.use_in_calculations = titratable or (CYS and not excluded)                                          (TOP)
  FR  titrate_only is read only in init_group; `titratable` is read by the scoring filters only              (aux, frame)
  Corollaries proved as VCs: list covering every residue => init_group is the identity on the flags;
  entries naming no residue never match.
"""
import ast as _ast

from .common import *   # noqa: F401,F403
from . import frames
from pyvc.core import Builtin

CC = 'propka.conformation_container.ConformationContainer'


def task_parse(pr, repo):
    ex = Executor(repo)
    fi = repo.func('propka.lib.parse_res_string')
    pr.under_contract(fi)
    pr.under_contract(repo.func('propka.lib.parse_res_list'))
    # "C:ddd" / "C:dddI" with symbolic characters
    for ndig in (1, 2, 3):
        for ic in (False, True):
            for neg in (False, True):
                def thunk(ex, ctx, ndig=ndig, ic=ic, neg=neg):
                    ch = I('chain')
                    ctx.assume(And(ch >= 33, ch <= 126, ch != 58, ch != 44))
                    digs = [I('d%d' % i) for i in range(ndig)]
                    for d in digs:
                        ctx.assume(And(d >= 48, d <= 57))
                    chars = [ch, 58] + ([45] if neg else []) + digs
                    icc = None
                    if ic:
                        icc = I('icode')
                        ctx.assume(And(icc >= 65, icc <= 90))
                        chars.append(icc)
                    r = ex.call_function(fi, [mk_str(chars)])
                    val = sum((digs[i] - 48) * 10 ** (ndig - 1 - i) for i in range(ndig))
                    if neg:
                        val = -1 * val
                    ok = isinstance(r, tuple) and len(r) == 3
                    ctx.oblige('PS[%d digit(s)%s%s]: parse_res_string == (chain, number, insertion code or blank)' %
                               (ndig, ', icode' if ic else '', ', negative' if neg else ''),
                               And(ex.equals(r[0], mk_str([ch])), r[1] == val, ex.equals(r[2], mk_str([icc]) if ic else ' ')) if ok else False)
                pr.explore(ex, thunk, 'parse_res_string')

    def t_bad(ex, ctx):
        bad = ['A10', 'A:B:10', 'A:', 'A:x', 'A:1xy', ':', '']
        res = []
        for s in bad:
            try:
                ex.call_function(fi, [s])
                res.append((s, 'accepted'))
            except PyRaise as e:
                if e.exc_name != 'ValueError':
                    res.append((s, e.exc_name))
        ctx.oblige('PS: malformed residue strings raise ValueError (%r)' % bad, not res)
    pr.explore(ex, t_bad, 'parse_res_string malformed')

    def t_list(ex, ctx):
        r = ex.call_function(repo.func('propka.lib.parse_res_list'), ['A:10,B:11A,_:-5,e:29,E:29,A:7b'])
        ctx.oblige('PS: parse_res_list gives one triple per entry, in order; chain ids and insertion codes keep their case',
                   r == [('A', 10, ' '), ('B', 11, 'A'), ('_', -5, ' '), ('e', 29, ' '), ('E', 29, ' '), ('A', 7, 'b')])
    pr.explore(ex, t_list, 'parse_res_list')

    def t_list_sym(ex, ctx):
        # every entry reaches parse_res_string exactly as written (no case folding, trimming or other normalisation)
        seen = []
        ex.contracts['propka.lib.parse_res_string'] = lambda ex_, c_, f_, a, k, so: (seen.append(a[0]), ('X', len(seen), ' '))[1]
        segs = []
        for j in range(2):
            cs = [I('s%d_%d' % (j, i)) for i in range(4)]
            for c in cs:
                ctx.assume(And(c >= 33, c <= 126, c != 44))
            segs.append(cs)
        r = ex.call_function(repo.func('propka.lib.parse_res_list'), [mk_str(segs[0] + [44] + segs[1])])
        ok = len(seen) == 2 and len(r) == 2
        ctx.oblige('PS: parse_res_list hands every comma-separated entry to parse_res_string unchanged',
                   And(ok, *[ex.equals(seen[j], mk_str(segs[j])) for j in range(2)]) if ok else False)
    pr.explore(ex, t_list_sym, 'parse_res_list symbolic entries')
    ex.contracts.pop('propka.lib.parse_res_string', None)


def task_init_group(pr, repo):
    ex = Executor(repo)
    fi = repo.func(CC + '.init_group')
    pr.under_contract(fi)
    pr.under_contract(repo.func('propka.group.Group.use_in_calculations'))
    G = repo.cls('propka.group.Group')
    A = repo.cls('propka.atom.Atom')
    for rtype in ('CYS', 'ASP'):
        for lst in ('none', 'hit', 'hit-twin-first', 'hit-twin-last', 'chain-miss', 'number-miss', 'icode-miss', 'empty', 'symbolic'):
            def thunk(ex, ctx, rtype=rtype, lst=lst):
                chain, num, ic = 'E', 48, 'A'
                bridge = B('bridge')
                has_pka = B('model_pka_set')
                at = record('at', A, chain_id=chain, res_num=num, icode=ic, cysteine_bridge=bridge)
                # what Group.setup leaves: titratable <=> model pKa known and not disulfide-bridged (C01-SU)
                t0 = And(has_pka, Not(bridge))
                # the group may be one that is "discarded due to coupling" (it stays titratable and counted; only its table rows go)
                g = record('g', G, atom=at, residue_type=rtype, titratable=False, exclude_cys_from_results=False, parameters=None,
                           pka_value=R('pka'), model_pka_set=has_pka,
                           coupled_titrating_group=record('partner', G, label='N+    1 A') if lst in ('hit', 'none') else None)

                def setup(ex):
                    g.attrs['titratable'] = t0
                    g.attrs['exclude_cys_from_results'] = False
                g.attrs['setup'] = Builtin('setup', setup)
                member = None
                if lst == 'none':
                    tl, member = None, None
                elif lst == 'hit':
                    tl, member = [('E', 48, ' '), ('E', 48, 'A'), ('I', 7, ' ')], True
                elif lst == 'hit-twin-first':
                    # the same number and insertion code selected in two chains (a homodimer): both stay selected
                    tl, member = [('E', 48, 'A'), ('I', 48, 'A')], True
                elif lst == 'hit-twin-last':
                    tl, member = [('I', 48, 'A'), ('E', 48, 'A'), ('J', 48, 'A')], True
                elif lst == 'chain-miss':
                    tl, member = [('I', 48, 'A')], False
                elif lst == 'number-miss':
                    tl, member = [('E', 49, 'A')], False
                elif lst == 'icode-miss':
                    tl, member = [('E', 48, ' '), ('E', 48, 'B')], False
                elif lst == 'empty':
                    tl, member = [], False
                else:
                    n, c, i = I('l_num'), mk_str([I('l_chain')]), mk_str([I('l_icode')])
                    tl = [(c, n, i)]
                    member = And(ex.equals(c, chain), n == num, ex.equals(i, ic))
                params = record('P', None)
                fresh = dict(init_defaults(repo.cls(CC)))       # a freshly constructed container (its own __init__'s literal fields)
                fresh.update(parameters=params, molecular_container=record('mol', None, options=record('o', None, titrate_only=tl)))
                conf = record('conf', repo.cls(CC), **fresh)
                ex.call_function(fi, [g], self_obj=conf)
                tit, exc = g.attrs['titratable'], g.attrs['exclude_cys_from_results']
                if member is None:
                    want_t, want_e = t0, False
                else:
                    want_t = And(t0, member)
                    want_e = And(Not(member), rtype == 'CYS')
                ctx.oblige('IG[%s, list %s]: titratable == (titratable after setup and (no list or residue listed by chain, number AND '
                           'insertion code)); CYS excluded from the report iff a list is given and the residue is not on it' % (rtype, lst),
                           And(to_b(tit) == to_b(want_t), to_b(exc) == to_b(want_e), g.attrs['parameters'] is params,
                               g.attrs['pka_value'] is not None))
                u = ex.call_function(repo.func('propka.group.Group.use_in_calculations'), [], self_obj=g)
                ctx.oblige('UC[%s, list %s]: reported <=> titratable or (CYS and not excluded)' % (rtype, lst),
                           to_b(u) == to_b(Or(tit, And(rtype == 'CYS', Not(exc)))))
            pr.explore(ex, thunk, 'init_group %s %s' % (rtype, lst))


def to_b(v):
    return Sym(to_bool(v)) if not isinstance(v, Sym) else v


def task_setup_and_add(pr, repo):
    ex = Executor(repo)
    pr.under_contract(repo.func(CC + '.setup_and_add_group'))

    def thunk(ex, ctx):
        seen = []
        ex.contracts[CC + '.init_group'] = lambda ex, ctx_, fi, a, k, so: seen.append(a[0])
        opts = record('options', None, chains=None, titrate_only=None)
        conf = record('conf', repo.cls(CC), groups=[], molecular_container=record('mol', None, options=opts), parameters=record('P', None))
        # an incomplete residue: the defining atom is there, the atoms it interacts through are not
        g = record('g', repo.cls('propka.group.Group'), interaction_atoms_for_acids=[], interaction_atoms_for_bases=[],
                   atom=record('at', repo.cls('propka.atom.Atom'), chain_id='A', res_num=5, icode=' ', type='atom'))
        ex.call_function(repo.func(CC + '.setup_and_add_group'), [g], self_obj=conf)
        ex.call_function(repo.func(CC + '.setup_and_add_group'), [None], self_obj=conf)
        ctx.oblige('IG: every group found is initialised once and kept in the conformation whether listed or not, complete or not '
                   '(unlisted residues still act as interaction partners and desolvating environment; a site whose defining atom is '
                   'present is reported)',
                   seen == [g] and conf.attrs['groups'] == [g])
    pr.explore(ex, thunk, 'setup_and_add_group')


def task_make_copy(pr, repo):
    ex = Executor(repo)
    fi = repo.func('propka.atom.Atom.make_copy')
    pr.under_contract(fi)
    A = repo.cls('propka.atom.Atom')
    fields = ['type', 'numb', 'name', 'element', 'res_name', 'res_num', 'chain_id', 'x', 'y', 'z', 'occ', 'beta', 'terminal',
              'residue_label', 'icode']

    def thunk(ex, ctx):
        vals = {f: record('v_' + f, None) for f in fields}          # opaque, distinct values
        a = record('a', A, **vals)
        b = ex.call_function(fi, [], self_obj=a)
        ctx.oblige('IG: a copied atom (conformation top-up) keeps every identifying field, in particular chain, number and '
                   'insertion code', isinstance(b, Obj) and b is not a and all(b.attrs.get(f) is vals[f] for f in fields))
    pr.explore(ex, thunk, 'Atom.make_copy')


def task_pair_loop(pr, repo):
    # every pair of groups is examined whatever their titratable flags (C05-SD): unlisted residues still interact with each other
    from . import C05
    C05.task_set_determinants(pr, repo)


def task_coupling_search(pr, repo):
    # listing every residue is equivalent to not giving the option: coupled residues are searched for all the same (C15-ID)
    from . import C15
    C15.task_identify(pr, repo)


def task_groups_exist(pr, repo):
    # the groups of unlisted residues (ligands included) exist all the same: classification does not look at the selection (C01-CL)
    from . import C01
    C01.task_dispatch(pr, repo)


def run(pr, repo):
    from . import C16
    # an unlisted residue still acts as charge / hydrogen-bond partner: pair terms are decided per term (iterative pairs included)
    pr.parallel([(task_parse, ()), (task_init_group, ()), (task_setup_and_add, ()), (task_make_copy, ()), (C16.task_iterative, (True,)), (task_pair_loop, ()), (task_coupling_search, ()), (task_groups_exist, ())])
    c = frames.census(repo)
    readers = c.readers('titrate_only')
    extra = sorted(readers - {CC + '.init_group', 'propka.lib.loadOptions'})
    pr.add(Ground('FRAME: options.titrate_only is read only by init_group', not extra, detail=str(extra), kind='aux', backend='frame-checker'))
    tr = c.readers('titratable')
    allowed = {CC + '.get_titratable_groups', CC + '.init_group', CC + '.find_bonded_titratable_groups', 'propka.group.Group.clone',
               'propka.group.Group.use_in_calculations', 'propka.group.Group.calculate_folding_energy',
               'propka.energy.check_coulomb_pair', 'propka.group.Group.setup', 'propka.group.Group.__init__'}
    extra = sorted(tr - allowed)
    pr.add(Ground('FRAME: Group.titratable is read only by the titratable-group getter, the coupling search, the Coulomb pair test, '
                  'the folding energy, clone and the report filter (side-chain H-bonds and desolvation never look at it)',
                  not extra, detail=str(extra), kind='aux', backend='frame-checker'))
    bp = repo.func('propka.lib.build_parser')
    ok = False
    for n in _ast.walk(bp.node):
        if isinstance(n, _ast.Call) and any(isinstance(a, _ast.Constant) and a.value == '--titrate_only' for a in n.args):
            kw = {k.arg: k.value for k in n.keywords}
            ok = isinstance(kw.get('type'), _ast.Name) and kw['type'].id == 'parse_res_list' and kw['dest'].value == 'titrate_only'
    pr.add(Ground('OP: -i/--titrate_only is parsed by parse_res_list into options.titrate_only', ok))
    pr.assumptions += ['composition step (bounded monitor: listed vs reported set; all residues vs no option)',
                       'copied atoms keep their insertion code: Atom.make_copy is checked in the monitor with multi-conformation input']
    pr.assumptions.append('residue identity = label as in the code (chain + number, no insertion code): inputs with insertion-code twins of one residue type are outside what is shown here (known finding D9, DESIGN 10.5)')
    bounded(pr)


def bounded(pr):
    from . import native
    ev, viol, classes = 0, [], set()
    names = ['3SGB-subset', '4DFR'] if pr.tier == 'quick' else ['3SGB-subset', '4DFR', '3SGB', '1HPX']
    for name in names:
        lines = native.pdb_lines(name)
        base = native.run_text(lines)
        residues = []
        for l in lines:
            if l[:6] in ('ATOM  ', 'HETATM'):
                k = (l[21].strip() or '_', int(l[22:26]), l[26])
                if k not in residues:
                    residues.append(k)

        def fmt(rs):
            return ','.join('%s:%d%s' % (c, n, i.strip()) for c, n, i in rs)
        # (1) every residue listed == no option
        ev += 1
        classes.add('all residues')
        allr = native.run_text(lines, ['-i', fmt(residues)])
        d = native.diff_records(native.record(base), native.record(allr), tol=1e-9)
        if d and len(viol) < 3:
            viol.append({'what': '%s: listing all %d residues differs from no option: %s' % (name, len(residues), d[:2]), 'replay': None})
        # (2) subsets incl. insertion-code twins and non-existent entries
        tit = [g for g in base.conformations[base.conformation_names[0]].groups if g.titratable and g.atom.type == 'atom']
        picks = [tit[::5], tit[1::7]]
        twins = [r for r in residues if r[2] != ' ']
        if twins:
            picks.append([g for g in tit if (g.atom.chain_id, g.atom.res_num) in {(t[0], t[1]) for t in twins}])
        for pick in picks:
            if not pick:
                continue
            ev += 1
            classes.add('subset')
            listed = []
            for g in pick:
                k = (g.atom.chain_id, g.atom.res_num, g.atom.icode)
                if k not in listed:
                    listed.append(k)
            mol = native.run_text(lines, ['-i', fmt(listed) + ',Q:999,%s:9999' % listed[0][0]])
            bad = []
            for cn in mol.conformation_names:
                for g in mol.conformations[cn].groups:
                    k = (g.atom.chain_id, g.atom.res_num, g.atom.icode)
                    ref = [b for b in base.conformations[cn].groups if b.atom.name == g.atom.name and
                           (b.atom.chain_id, b.atom.res_num, b.atom.icode) == k and b.type == g.type]
                    was = bool(ref and ref[0].titratable)
                    if g.titratable != (was and k in listed):
                        bad.append('%s %s: titratable %r, listed %r, titratable without option %r' % (cn, g.label, g.titratable, k in listed, was))
            if bad and len(viol) < 3:
                viol.append({'what': '%s -i %s: %s' % (name, fmt(listed)[:60], bad[:2]), 'replay': None})
    # selections given through the API as the regression tests do (loadOptions, then options.titrate_only = [...]): an EMPTY selection
    # and a selection of residues that do not exist titrate nothing
    import os
    import propka.lib as plib0
    import propka.input as pinp0
    from propka.parameters import Parameters as Par0
    from propka.molecular_container import MolecularContainer as MC0
    f0 = os.path.join(native.PDB_DIR, '3SGB-subset.pdb')
    for sel in ([], [('Z', 999, ' ')]):
        ev += 1
        classes.add('API selection %r' % (sel,))
        try:
            o = plib0.loadOptions(['-q', f0])
            o.titrate_only = list(sel)
            m = MC0(pinp0.read_parameter_file(o.parameters, Par0()), o)
            m = pinp0.read_molecule_file(f0, m)
            m.calculate_pka()
            nt = len([g for g in m.conformations['AVR'].groups if g.titratable])
            if nt != 0 and len(viol) < 3:
                viol.append({'what': '3SGB-subset with options.titrate_only = %r (set through the API): %d groups are titrated, the '
                                     'selection names none' % (sel, nt), 'replay': None})
        except (Exception, SystemExit) as e:     # noqa
            viol.append({'what': 'API selection %r: %s: %s' % (sel, type(e).__name__, e), 'replay': None})
    # two calculations in one process, the second selection stored where the first one was (its list object recycled): each
    # calculation titrates exactly its own selection
    s1 = [('E', 29, ' '), ('E', 57, ' ')]
    s2 = [('I', 19, ' '), ('I', 56, ' ')]
    for a_, b_ in ((s1, s2), (s2, s1)):
        ev += 1
        try:
            g1, g2, rec = native.recycled_address_selections('3SGB-subset', a_, b_)
            classes.add('recycled list address: %s' % rec)
            if (g1 != sorted(a_) or g2 != sorted(b_)) and len(viol) < 3:
                viol.append({'what': '3SGB-subset: selection %r then selection %r (list object at the %s address) in one process: titrated '
                                     '%r and %r' % (a_, b_, 'same' if rec else 'another', g1, g2), 'replay': None})
        except (Exception, SystemExit) as e:     # noqa
            viol.append({'what': 'recycled selection list: %s: %s' % (type(e).__name__, e), 'replay': None})
    # several structures in one invocation (the loop of propka.run.main: ONE options object for all files): the list still means the
    # same for the second structure
    import os
    import propka.lib as plib
    import propka.input as pinp
    from propka.parameters import Parameters
    from propka.molecular_container import MolecularContainer
    files = [os.path.join(native.PDB_DIR, n + '.pdb') for n in ('3SGB-subset', '3SGB')]
    lst = 'E:29,E:57,I:19,I:56,Z:999'
    try:
        ev += 1
        classes.add('one options object, two structures')
        options = plib.loadOptions(['-q', '-i', lst, '-f', files[0], files[1]])        # filenames: [-f ..., input_pdb]
        parameters = pinp.read_parameter_file(options.parameters, Parameters())
        got = []
        for f in options.filenames:
            m = MolecularContainer(parameters, options)
            m = pinp.read_molecule_file(f, m)
            m.calculate_pka()
            got.append(sorted((g.label, round(g.pka_value, 6)) for g in m.conformations['AVR'].groups if g.titratable))
        for f, g_ in zip(list(options.filenames), got):
            alone = native.run_text(open(f).read(), ['-i', lst])
            want = sorted((g.label, round(g.pka_value, 6)) for g in alone.conformations['AVR'].groups if g.titratable)
            if g_ != want and len(viol) < 3:
                viol.append({'what': '%s processed in one invocation with -i %s after another file: titrated groups %r, alone %r'
                                     % (os.path.basename(f), lst, g_[:4], want[:4]), 'replay': None})
    except Exception as e:    # noqa
        viol.append({'what': 'two structures with one options object: %s: %s' % (type(e).__name__, e), 'replay': None})
    pr.bounded.append({'name': 'C14-monitor: titrate_only on real runs', 'evaluations': ev, 'distinct_nontrivial': len(classes),
                       'bound': '%d structures x (all residues + up to 3 subsets incl. insertion-coded residues and non-existent entries)' % len(names),
                       'rule': 'titratable flags of every group in every conformation vs the list; all-residues list vs no option to 1e-9',
                       'violations': viol})
