"""One arbitrary iteration of the record loop of propka.input.get_atom_lines_from_pdb, executed on the REAL loop body
from an arbitrary loop state (the loop invariant 'terminal is None at the loop head' is checked as well).

State of the loop:   nterm_residue ('next_residue' | a 6-character residue id = chain+number+icode columns 22-27),
                     old_residue (None | residue id), terminal (None at the head), model (integer).
Line classes:        tag in {ATOM, HETATM, MODEL, TER, other}; atom-name field from a list of classes; every other
                     column is a symbolic printable character.
The stutter/simulation rule (DESIGN 1.1 iii) turns the per-iteration obligations into statements about whole files.
"""
from .common import *   # noqa: F401,F403
from pyvc.loops import LoopSpec
from pyvc.core import Builtin
from pyvc.values import FmtStr
from . import cfg

FN = 'propka.input.get_atom_lines_from_pdb'
NAMES = [' N  ', ' OXT', " O''", ' CA ', ' H  ', 'N   ', ' OG ', '1HB ']
# 'TER:...' : TER records that are not padded to six columns (bare 'TER', with LF / CR LF / nothing after it, or two blanks)
TER_SHORT = {'TER:lf': 'TER\n', 'TER:crlf': 'TER\r\n', 'TER:end': 'TER', 'TER:blanks': 'TER  \n'}
# MODEL records as tools write them: (blanks before the serial, digits of the serial); 'MODEL ' itself is the standard layout
# (serial right-justified in columns 11-14).  The serial is "the number after the tag", wherever it stands.
MODEL_SHORT = {'MODEL:compact': (0, 1), 'MODEL:wide': (4, 5), 'MODEL:left': (1, 2)}
TAGS = ['ATOM  ', 'HETATM', 'MODEL ', 'TER   ', 'OTHER'] + sorted(TER_SHORT) + sorted(MODEL_SHORT)
SHAPES = [('next', None), ('next', 'res'), ('res', None), ('res', 'res')]


def sym_chars(prefix, n):
    return [I('%s%d' % (prefix, i)) for i in range(n)]


def make_line(ctx, tag, name):
    """80-column record: tag and atom name concrete, the rest symbolic printable ASCII."""
    if tag in TER_SHORT:
        return TER_SHORT[tag], {}
    if tag == 'OTHER':
        t = sym_chars('tag', 6)
    elif tag in MODEL_SHORT:
        t = None
    else:
        t = [ord(c) for c in tag]
    if tag == 'MODEL ' or tag in MODEL_SHORT:
        blanks, nd = MODEL_SHORT.get(tag, (4, 4))
        digs = sym_chars('md', nd)
        for d in digs:
            ctx.assume(And(d >= 48, d <= 57))
        chars = [ord(c) for c in 'MODEL '] + [32] * blanks + digs + [10]
        return mk_str(chars), {'model_digits': digs}
    body = sym_chars('c', 80)
    chars = list(t) + body[6:]
    if tag in ('ATOM  ', 'HETATM') and name != 'SYMB':
        chars[12:16] = [ord(c) for c in name]
    for c in chars:
        if isinstance(c, Sym):
            ctx.assume(And(c >= 32, c <= 126))
    if tag == 'OTHER':
        # not one of the four tags the loop reacts to
        s = mk_str(t)
        for known in ('ATOM  ', 'HETATM', 'MODEL ', 'TER   '):
            ctx.assume(Not(And(*[t[i] == ord(known[i]) for i in range(6)])))
    return mk_str(chars), {}


def sym_res(ctx, prefix):
    cs = sym_chars(prefix, 6)
    for c in cs:
        ctx.assume(And(c >= 32, c <= 126))
    return mk_str(cs)


class Step:
    """What one explored path of one iteration looks like (handed to the property's check callback)."""

    def __init__(self, **kw):
        self.__dict__.update(kw)


def explore_steps(pr, repo, check, tags=TAGS, names=NAMES, shapes=SHAPES, chains_cases=(None,), keep_protons_cases=(False,),
                  what='reader step'):
    """check(step) creates the obligations for one path."""
    ex = Executor(repo)
    fi = repo.func(FN)
    pr.under_contract(fi)
    ignore = list(cfg.parameters().ignore_residues)
    A = repo.cls('propka.atom.Atom')
    n_paths = 0
    for tag in tags:
        for name in (names if tag in ('ATOM  ', 'HETATM') else [None]):
            for shape in shapes:
                for chains in chains_cases:
                    for keep in keep_protons_cases:
                        def thunk(ex, ctx, tag=tag, name=name, shape=shape, chains=chains, keep=keep):
                            info = {}

                            def atom_contract(ex, ctx_, ci, args, kwargs, so):
                                # contract of Atom(line=...): element 'H' or not (decided by Atom.set_properties, C07-FR/EL)
                                is_h = ctx_.branch(B('is_H'))
                                a = record('atom', A, element='H' if is_h else 'X', terminal=None, line=kwargs.get('line'))
                                info['atom'] = a
                                info['is_h'] = is_h
                                return a
                            ex.contracts['propka.atom.Atom'] = atom_contract
                            handle = record('handle', None)
                            all_lines = []
                            handle.attrs['readlines'] = Builtin('readlines', lambda ex: all_lines)
                            handle.attrs['__iter_items__'] = ['TER   \n', 'REMARK\n']
                            ex.contracts['propka.input.open_file_for_reading'] = lambda ex, ctx_, fi_, a, k, so: handle

                            def havoc(ex, ctx_, env, phase):
                                st = {'nterm_residue': 'next_residue' if shape[0] == 'next' else sym_res(ctx_, 'nt'),
                                      'old_residue': None if shape[1] is None else sym_res(ctx_, 'od'),
                                      'terminal': None, 'model': I('model')}
                                ctx_.assume(st['model'] >= 0)
                                env.local.update(st)
                                info['pre'] = dict(st)
                                return st

                            def init(ex, ctx_, env):
                                # shape guard: the loop state must consist of the variables this harness havocs; a renamed or
                                # additional state variable makes the harness inapplicable (undecided), never an alarm
                                import ast as _a
                                assigned = {t.id for n in _a.walk(spec.node) if isinstance(n, (_a.Assign, _a.AugAssign))
                                            for t in (n.targets if isinstance(n, _a.Assign) else [n.target]) if isinstance(t, _a.Name)}
                                # locals mutated in place inside the loop (x.add(..), x.append(..) ...) are loop state too
                                mutated = {n.func.value.id for n in _a.walk(spec.node) if isinstance(n, _a.Call)
                                           and isinstance(n.func, _a.Attribute) and isinstance(n.func.value, _a.Name)
                                           and n.func.attr in ('add', 'discard', 'remove', 'append', 'extend', 'pop', 'clear', 'update',
                                                               'insert', 'setdefault', 'popitem')}
                                state = {v for v in (assigned | mutated) if v in env.local}
                                if state != {'nterm_residue', 'old_residue', 'terminal', 'model'}:
                                    raise KeyError('loop state variables of get_atom_lines_from_pdb are %s' % sorted(state))
                                ctx_.oblige('reader loop: invariant "terminal is None" holds at loop entry',
                                            env.local.get('terminal', 0) is None, kind='aux')
                                try:
                                    it = ex.eval(spec.node.iter, env)
                                except Exception:    # noqa
                                    it = None
                                ctx_.oblige('reader loop: the loop ranges over ALL records returned by readlines() (no pre-filtering), '
                                            'starting with nterm_residue = "next_residue", old_residue = None, model = 1',
                                            it is all_lines and env.local.get('nterm_residue') == 'next_residue'
                                            and env.local.get('old_residue', 0) is None and env.local.get('model') == 1, kind='aux')

                            def elem(ex, ctx_, env):
                                line, extra = make_line(ctx_, tag, name)
                                info['line'] = line
                                info.update(extra)
                                return line

                            def step(ex, ctx_, env, tok, x, how):
                                post = {k: env.local[k] for k in ('nterm_residue', 'old_residue', 'terminal', 'model')}
                                ctx_.oblige('reader loop: invariant "terminal is None at the loop head" is preserved [%s]' % tag,
                                            post['terminal'] is None, kind='aux')
                                check(Step(ex=ex, ctx=ctx_, tag=tag, name=name, shape=shape, chains=chains, keep=keep, pre=info['pre'],
                                           post=post, yields=list(env.local['__yields__']), line=info['line'], how=how,
                                           is_h=info.get('is_h'), atom=info.get('atom'), model_digits=info.get('model_digits'),
                                           ignore=ignore))
                            spec = LoopSpec('reader', elem, havoc, init=init, step=step, explore_exit=False)
                            ex.loop_hooks[(FN, 0)] = spec
                            ex.call_function(fi, ['file.pdb'], {'ignore_residues': ignore, 'keep_protons': keep, 'chains': chains})
                        paths = pr.explore(ex, thunk, '%s %s/%s/%s' % (what, tag.strip(), name, shape), max_paths=3000)
                        n_paths += len(paths)
    pr.notes.append('%s: %d paths of one loop iteration explored' % (what, n_paths))
    return n_paths


def same_state(ex, a, b):
    conj = []
    for k in ('nterm_residue', 'old_residue', 'model'):
        x, y = a[k], b[k]
        if x is None or y is None:
            conj.append(x is None and y is None)
        else:
            conj.append(ex.equals(x, y))
    return And(*conj)


def resid(line):
    return mk_str(str_chars_of(line)[21:27])


def str_chars_of(s):
    from pyvc.values import str_chars
    return str_chars(s)


# --------------------------------------------------------------------------------------------- specification
def line_fields(step):
    cs = str_chars_of(step.line)
    f = {}
    if step.tag in ('ATOM  ', 'HETATM'):
        f['resname'] = mk_str(cs[17:20])
        f['chain'] = mk_str(cs[21:22])
        f['res'] = mk_str(cs[21:27])
        f['alt'] = cs[16]
    return f


def spec_cases(step):
    """The record automaton written from the property statements (C01 terminus rule, C07 ignorable content,
    C13 chain selection, C08 conformation naming): list of (condition, expected post-state, expected output)
    where output is None or (model, alt-loc letter code, terminal)."""
    ex, pre = step.ex, step.pre
    NEXT = 'next_residue'
    same = dict(pre)
    if step.tag == 'OTHER':
        return [(True, same, None)]
    if step.tag == 'MODEL ' or step.tag in MODEL_SHORT:
        d = step.model_digits
        val = sum((d[i] - 48) * 10 ** (len(d) - 1 - i) for i in range(len(d)))
        # 'the first residue of a model' is a chain start whatever its chain and number: nothing is remembered of the last C-terminal residue
        return [(True, dict(pre, model=val, nterm_residue=NEXT, old_residue=None), None)]
    if step.tag.startswith('TER'):
        # ... and so is the residue 'after a TER record'
        return [(True, dict(pre, nterm_residue=NEXT, old_residue=None), None)]
    f = line_fields(step)
    ignored = ex.contains(step.ignore, f['resname'])
    selected = True if not step.chains else ex.contains(step.chains, f['chain'])
    skip = Or(ignored, Not(selected))
    eff = Not(skip)
    alt = f['alt']
    # digits 1-9 are mapped to letters A-I, blank to A
    alt_code = Ite(And(alt >= 49, alt <= 57), alt + 16, Ite(alt == 32, 65, alt))
    printed = Not(And(step.is_h, not step.keep)) if isinstance(step.is_h, bool) else True
    printed = (not (step.is_h and not step.keep))
    cases = [(skip, same, None)]
    r = f['res']
    if step.name == 'SYMB':
        # fully symbolic atom-name field: the three name classes become conditions (strip forks on blanks)
        from pyvc.builtins_model import strip_forks
        stripped = mk_str(strip_forks(ex, str_chars_of(step.line)[12:16]))
        is_n = ex.equals(stripped, 'N')
        is_oxt = Or(ex.equals(stripped, 'OXT'), ex.equals(stripped, "O''"))
        name_classes = [('N', is_n), ('OXT', is_oxt), ('CA', And(Not(is_n), Not(is_oxt)))]
    else:
        name_classes = [(step.name.strip(), True)]
    if step.tag == 'HETATM':
        cases.append((eff, same, (pre['model'], alt_code, None) if printed else None))
        return cases
    # ATOM
    waiting = pre['nterm_residue'] == NEXT
    if waiting:
        new_res = True if pre['old_residue'] is None else Not(ex.equals(pre['old_residue'], r))
        branches = [(new_res, dict(pre, nterm_residue=r, old_residue=None)), (Not(new_res), dict(pre))]
    else:
        branches = [(True, dict(pre))]
    for (nm, ncond), (bc, st) in [(a, b) for a in name_classes for b in branches]:
        bc = And(bc, ncond)
        if nm == 'N':
            is_start = False if st['nterm_residue'] == NEXT else ex.equals(st['nterm_residue'], r)
            for c2, term in ((is_start, 'N+'), (Not(is_start) if not isinstance(is_start, bool) else (not is_start), None)):
                cases.append((And(eff, bc, c2), st, (pre['model'], alt_code, term) if printed else None))
        elif nm in ('OXT', "O''"):
            st2 = dict(st, nterm_residue=NEXT, old_residue=r)
            cases.append((And(eff, bc), st2, (pre['model'], alt_code, 'C-') if printed else None))
        else:
            cases.append((And(eff, bc), st, (pre['model'], alt_code, None) if printed else None))
    return cases


def check_transition(step, label='TR'):
    """post-state and output of the real loop body == specification, case by case."""
    ex, ctx = step.ex, step.ctx
    tagname = '%s %s %s chains=%s keep=%s' % (step.tag.strip(), (step.name or '').strip(), step.shape, step.chains, step.keep)
    for cond, st, out in spec_cases(step):
        if cond is False:
            continue
        conj = [same_state(ex, step.post, st)]
        if out is None:
            conj.append(len(step.yields) == 0)
        else:
            ok = len(step.yields) == 1
            conj.append(ok)
            if ok:
                conf, atom = step.yields[0]
                good = isinstance(conf, FmtStr) and len(conf.parts) == 1 and conf.parts[0][1] == '{0:d}{1:s}'
                conj.append(good)
                if good:
                    m, a = conf.parts[0][2]
                    ach = str_chars_of(a)
                    conj.append(And(m == out[0], len(ach) == 1 and (ach[0] == out[1])))
                t = atom.attrs.get('terminal')
                conj.append((t == out[2]) if (t is None or out[2] is None) else (t == out[2]))
                conj.append(atom is step.atom)
        conj.append(step.how != 'break')          # no record ends the loop early (records after it would be lost)
        ctx.oblige('%s[%s]: state and output of one record == record automaton of the specification; the loop goes on to the next '
                   'record' % (label, tagname), Implies(cond, And(*conj)))


def task_nterm(pr, repo):
    """The N-terminus tagging steps of the record automaton only (ATOM records named N, every loop-state shape)."""
    explore_steps(pr, repo, check_transition, tags=['ATOM  '], names=[' N  ', ' OXT'], chains_cases=(None,),
                  keep_protons_cases=(False,), what='N-/C-terminus tagging step')
