"""C09 - charge curves and isoelectric points follow Henderson-Hasselbalch.

Deductive core on the real code:
  Group.calculate_charge           closed form, bounds, half charge at pH = pK, monotone in pH (TOP)
  ConformationContainer.calculate_charge   fold rule: returns (SUM unfolded, SUM folded) over exactly
                                   the titratable groups, unfolded first                         (TOP)
  MolecularContainer.get_charge_profile    rows [ph, q_unfolded, q_folded], one per grid value  (TOP)
  MolecularContainer.get_pi        inner bisection 'pi': inductive contract (bracket invariant),
                                   result brackets a sign change to the given precision; tuple is
                                   (folded, unfolded)                                            (TOP)
  output.get_charge_profile_section  columns / pI sentence print the right things in the right order (TOP)
"""
from .common import *   # noqa: F401,F403
from pyvc.loops import LoopSpec
from pyvc.values import FmtStr

GC = 'propka.group.Group.calculate_charge'
CC = 'propka.conformation_container.ConformationContainer.calculate_charge'
GP = 'propka.molecular_container.MolecularContainer.get_charge_profile'
PI = 'propka.molecular_container.MolecularContainer.get_pi'
SEC = 'propka.output.get_charge_profile_section'


def mkgroup(repo, name, **kw):
    G = repo.cls('propka.group.Group')
    g = record(name, G, charge='real', model_pka='real', pka_value='real', **kw)
    return g


REPLAY_GC = r'''
import sys, math
from propka.group import Group
class A:  # minimal atom for Group.__init__
    pass
import propka.atom
a = propka.atom.Atom()
g = Group(a)
q, pkm, pk = %(q)r, %(pkm)r, %(pk)r
g.charge, g.model_pka, g.pka_value = q, pkm, pk
bad = 0
for state, p in (('folded', pk), ('unfolded', pkm)):
    for ph in %(phs)r:
        c = g.calculate_charge(None, ph=ph, state=state)
        exp = q*(10**(q*(p-ph)))/(1+10**(q*(p-ph)))
        if abs(c-exp) > 1e-9 or not (min(0, q)-1e-12 <= c <= max(0, q)+1e-12):
            print('state', state, 'ph', ph, 'charge', c, 'expected', exp); bad += 1
    h = g.calculate_charge(None, ph=p, state=state)
    if abs(h - q/2) > 1e-9:
        print('half-charge at pH=pK violated', state, h); bad += 1
    cs = [g.calculate_charge(None, ph=x/4.0, state=state) for x in range(0, 57)]
    if any(b > a + 1e-12 for a, b in zip(cs, cs[1:])):
        print('charge increases with pH', state); bad += 1
sys.exit(1 if bad else 0)
'''


def replay_gc(model):
    q = mval(model, 'g_charge', -1.0) or -1.0
    return REPLAY_GC % {'q': q, 'pkm': mval(model, 'g_model_pka', 4.0), 'pk': mval(model, 'g_pka_value', 5.0),
                        'phs': [mval(model, 'ph', 7.0), mval(model, 'ph2', 3.0), 0.0, 7.0, 14.0]}


def task_group_charge(pr, repo):
    ex = Executor(repo)
    fi = repo.func(GC)
    pr.under_contract(fi)
    for state in ('folded', 'unfolded'):
        def thunk(ex, ctx, state=state):
            g = mkgroup(repo, 'g')
            q, pkm, pk = g.attrs['charge'], g.attrs['model_pka'], g.attrs['pka_value']
            ph, ph2 = R('ph'), R('ph2')
            ctx.assume(q != 0)
            p = pkm if state == 'unfolded' else pk
            # the parameter set every caller hands over: its generic per-residue model pKa is NOT the group's own model pKa
            # (custom per-atom values, e.g. nucleic-acid atoms and user files, override it in Group.setup)
            g.attrs.setdefault('residue_type', 'ASP')
            P_ = record('P', None, model_pkas={'ASP': R('generic_model_pka'), 'GLU': R('generic_glu')},
                        charge={'ASP': R('generic_charge')})
            c1 = ex.call_function(fi, [P_], {'ph': ph, 'state': state}, self_obj=g)
            c2 = ex.call_function(fi, [P_], {'ph': ph2, 'state': state}, self_obj=g)
            e1 = ctx.exp10(q * (p - ph))
            meta = {'replay': replay_gc}
            ctx.oblige('calculate_charge[%s] == q*E/(1+E), E = 10^(q*(pK-pH)) with pK = %s' %
                       (state, 'model_pka' if state == 'unfolded' else 'pka_value'),
                       c1 * (1 + e1) == q * e1, meta=meta)
            ctx.oblige('calculate_charge[%s] lies strictly between 0 and the formal charge' % state,
                       And(Implies(q > 0, And(c1 > 0, c1 < q)), Implies(q < 0, And(c1 < 0, c1 > q))), meta=meta)
            ctx.oblige('calculate_charge[%s] == q/2 at pH == pK' % state, Implies(ph == p, c1 * 2 == q), meta=meta)
            ctx.oblige('calculate_charge[%s] never increases with pH (strictly decreases)' % state,
                       Implies(ph < ph2, c1 > c2), meta=meta)
            ctx.oblige('vacuity guard: false post is refuted (calculate_charge %s)' % state, c1 == c1 + 1,
                       kind='aux', meta={'expect': 'refuted'})
            return c1
        pr.explore(ex, thunk, GC + ' ' + state)


def task_container_charge(pr, repo):
    ex = Executor(repo)
    fi = repo.func(CC)
    pr.under_contract(fi)
    pr.under_contract(repo.func('propka.conformation_container.ConformationContainer.get_titratable_groups'))
    CCls = repo.cls('propka.conformation_container.ConformationContainer')
    QU = z3.Function('QU_', z3.IntSort(), z3.RealSort())   # charge of group #i unfolded (contract of Group.calculate_charge)
    QF = z3.Function('QF_', z3.IntSort(), z3.RealSort())

    def charge_contract(ex, ctx, fi_, args, kwargs, self_obj):
        # callee contract: a function of (group, ph, state); ph is fixed within one call of the container
        idx = self_obj.attrs['__idx__']
        st = kwargs.get('state', args[2] if len(args) > 2 else 'folded')
        assert st in ('folded', 'unfolded')
        ctx.events.append((st, idx))
        return Sym((QU if st == 'unfolded' else QF)(z3.IntVal(idx) if isinstance(idx, int) else idx.e))
    ex.contracts[GC] = charge_contract

    # (a) exact on a concrete-length list with symbolic titratable flags (selection + order of the sums)
    def thunk(ex, ctx):
        gs = []
        for i in range(3):
            # residue_type/exclude flag: so that a selection through use_in_calculations() can be executed too
            g = mkgroup(repo, 'g%d' % i, titratable=B('t%d' % i), residue_type='CYS', exclude_cys_from_results=False)
            g.attrs['__idx__'] = i
            # groups 0 and 2 print the same label (same residue number and chain, different insertion code): still two groups
            g.attrs['label'] = 'LYS 116 A' if i != 1 else 'ASP  25 A'
            g.attrs['atom'] = record('atom%d' % i, repo.cls('propka.atom.Atom'), type='atom', res_num=116 if i != 1 else 25, chain_id='A',
                                     icode=' A'[i // 2])
            gs.append(g)
        conf = record('conf', CCls, groups=gs)
        r = ex.call_function(fi, [None, R('ph')], self_obj=conf)
        su = sum(Ite(gs[i].attrs['titratable'], Sym(QU(i)), 0) for i in range(3))
        sf = sum(Ite(gs[i].attrs['titratable'], Sym(QF(i)), 0) for i in range(3))
        ctx.oblige('container charge (3 groups): result == (SUM unfolded, SUM folded) over titratable groups only',
                   And(r[0] == su, r[1] == sf))
        return r
    pr.explore(ex, thunk, CC + ' (3 groups)')

    # (b) fold rule for any number of groups: one arbitrary iteration from arbitrary accumulators
    def havoc(ex, ctx, env, phase):
        u, f = ctx.fresh('acc_unfolded'), ctx.fresh('acc_folded')
        env.local['unfolded'], env.local['folded'] = u, f
        return (u, f)

    def elem(ex, ctx, env):
        g = mkgroup(repo, 'gk', titratable=True)
        g.attrs['__idx__'] = I('k')
        return g

    def step(ex, ctx, env, tok, g, how):
        k = g.attrs['__idx__']
        ctx.oblige('container charge fold step: unfolded += charge(g, unfolded), folded += charge(g, folded)',
                   And(env.local['unfolded'] == tok[0] + Sym(QU(k.e)), env.local['folded'] == tok[1] + Sym(QF(k.e)),
                       how == 'normal'))

    def at_exit(ex, ctx, env, tok):
        ctx.loop_exit = tok
    ex.loop_hooks[(CC, 0)] = LoopSpec('container-charge', elem, havoc, step=step, at_exit=at_exit)

    def thunk2(ex, ctx):
        conf = record('conf', CCls, groups=[])
        r = ex.call_function(fi, [None, R('ph')], self_obj=conf)
        tok = ctx.loop_exit
        ctx.oblige('container charge: returns (unfolded accumulator, folded accumulator) in this order',
                   And(r[0] == tok[0], r[1] == tok[1]))
        return r
    pr.explore(ex, thunk2, CC + ' (fold rule)')
    ex.loop_hooks.clear()


def task_profile(pr, repo):
    ex = Executor(repo)
    fi = repo.func(GP)
    pr.under_contract(fi)
    MC = repo.cls('propka.molecular_container.MolecularContainer')
    QU = z3.Function('QTOT_U', z3.RealSort(), z3.RealSort())
    QF = z3.Function('QTOT_F', z3.RealSort(), z3.RealSort())

    QO = z3.Function('QTOT_OTHER', z3.RealSort(), z3.RealSort())

    def cc_contract(ex, ctx, fi_, args, kwargs, self_obj):
        ph = kwargs.get('ph', args[1] if len(args) > 1 else None)
        if self_obj.name != 'conf':
            # another conformation of the same molecule: its own, different curves
            return (Sym(QO(ph.e)), Sym(QO(ph.e) + 1))
        return (Sym(QU(ph.e)), Sym(QF(ph.e)))
    ex.contracts[CC] = cc_contract
    grid_vals = [R('p0'), R('p1'), R('p2')]
    ex.contracts['propka.lib.make_grid'] = lambda ex, ctx, fi_, args, kwargs, so: list(grid_vals)

    def thunk(ex, ctx):
        CCls = repo.cls('propka.conformation_container.ConformationContainer')
        conf = record('conf', CCls)
        mol = record('mol', MC, conformations={'1A': record('conf1A', CCls), '1B': record('conf1B', CCls), 'AVR': conf},
                     conformation_names=['1A', '1B'], version=record('version', None, parameters=None))
        r = ex.call_function(fi, [], {'conformation': 'AVR', 'grid': (R('g0'), R('g1'), R('g2'))}, self_obj=mol)
        ok = len(r) == 3
        conj = [ok]
        if ok:
            for i, p in enumerate(grid_vals):
                row = r[i]
                conj.append(And(len(row) == 3, row[0] == p, row[1] == Sym(QU(p.e)), row[2] == Sym(QF(p.e))))
        ctx.oblige('get_charge_profile: one row [ph, Q_unfolded(ph), Q_folded(ph)] per grid value, in grid order, computed from the '
                   'container of the conformation asked for (the average has its own container - the one the folding profile uses)', And(*conj))
        return r
    pr.explore(ex, thunk, GP)


def task_pi(pr, repo):
    ex = Executor(repo)
    fi = repo.func(PI)
    pr.under_contract(fi)
    MC = repo.cls('propka.molecular_container.MolecularContainer')
    Q = [z3.Function('QTOT_U', z3.RealSort(), z3.RealSort()), z3.Function('QTOT_F', z3.RealSort(), z3.RealSort())]

    def cc_contract(ex, ctx, fi_, args, kwargs, self_obj):
        ph = kwargs.get('ph', args[1] if len(args) > 1 else None)
        return (Sym(Q[0](to_real(ph))), Sym(Q[1](to_real(ph))))
    ex.contracts[CC] = cc_contract

    def to_real(v):
        from pyvc.values import to_z3_num
        return to_z3_num(v, True)

    prec = R('precision')

    def J(which, ph, lo, hi):
        """bracket invariant of the bisection"""
        q = Q[which]
        return And(lo <= ph, ph <= hi, Sym(q(to_real(lo))) > 0, Sym(q(to_real(hi))) <= 0)

    state = {}

    def pi_contract(ex, ctx, f, args, kwargs):
        which, ph, lo, hi = args
        if state.get('mode') == 'capture':
            state['closure'] = f
        ctx.oblige('pi(): precondition (bracket invariant) holds at call site [%s]' % state.get('site', 'get_pi'),
                   J(which, ph, lo, hi), kind='aux')
        n = ctx._fresh.get('pires', 0)
        res, rlo, rhi = ctx.fresh('pi_res'), ctx.fresh('pi_lo'), ctx.fresh('pi_hi')
        ctx.assume(And(J(which, res, rlo, rhi), rhi - rlo <= prec, rlo >= lo, rhi <= hi))
        state.setdefault('results', []).append((which, res, rlo, rhi))
        return res

    ex.closure_contracts['pi'] = pi_contract

    def mkmol():
        CCls = repo.cls('propka.conformation_container.ConformationContainer')
        conf = record('conf', CCls)
        return record('mol', MC, conformations={'AVR': conf}, version=record('version', None, parameters=None))

    # (a) get_pi: tuple order and call-site preconditions, under 'the curve changes sign inside the window'
    def thunk(ex, ctx):
        state.clear()
        state['mode'] = 'capture'
        g0, g1 = R('w0'), R('w1')
        ctx.assume(And(g0 < g1, prec > 0))
        for w in (0, 1):
            ctx.assume(And(Sym(Q[w](g0.e)) > 0, Sym(Q[w](g1.e)) <= 0))
        r = ex.call_function(fi, [], {'conformation': 'AVR', 'grid': (g0, g1), 'precision': prec}, self_obj=mkmol())
        res = state['results']
        ok = len(res) == 2 and res[0][0] == 1 and res[1][0] == 0
        ctx.oblige('get_pi returns (pI of the FOLDED curve, pI of the UNFOLDED curve)',
                   And(ok, r[0] == res[0][1], r[1] == res[1][1]) if ok else False)
        for k, nm in ((0, 'folded'), (1, 'unfolded')):
            w, x, lo, hi = res[k]
            ctx.oblige('get_pi: %s pI lies in a bracket [lo,hi] of width <= precision with Q(lo) > 0 >= Q(hi)' % nm,
                       And(lo <= x, x <= hi, hi - lo <= prec, Sym(Q[w](lo.e)) > 0, Sym(Q[w](hi.e)) <= 0,
                           lo >= g0, hi <= g1))
        return r
    pr.explore(ex, thunk, PI)

    # (b) the body of the nested function pi satisfies its contract (induction on the recursion)
    for which in (0, 1):
        def thunk_b(ex, ctx, which=which):
            state.clear()
            state['mode'] = 'capture'
            g0, g1 = R('w0'), R('w1')
            ctx.assume(And(g0 < g1, prec > 0))
            for w in (0, 1):
                ctx.assume(And(Sym(Q[w](g0.e)) > 0, Sym(Q[w](g1.e)) <= 0))
            ex.call_function(fi, [], {'conformation': 'AVR', 'grid': (g0, g1), 'precision': prec}, self_obj=mkmol())
            f = state['closure']
            # forget everything about the outer call; arbitrary arguments satisfying the precondition
            state['results'] = []
            state['site'] = 'recursive call'
            ph, lo, hi = R('b_ph'), R('b_lo'), R('b_hi')
            ctx.assume(J(which, ph, lo, hi))
            r = ex.call_closure_body(f, [which, ph, lo, hi])
            if state['results']:
                # returned through the recursive call: its contract gave the bracket
                w, x, rlo, rhi = state['results'][-1]
                ctx.oblige('pi() body [which=%d]: recursive result satisfies the contract' % which,
                           And(r == x, rlo >= lo, rhi <= hi))
            else:
                ctx.oblige('pi() body [which=%d]: base case returns a point of a bracket of width <= precision' % which,
                           And(J(which, r, lo, hi), hi - lo <= prec))
            return r
        pr.explore(ex, thunk_b, PI + '.<locals>.pi which=%d' % which)
    pr.assumptions.append('intermediate value theorem: a continuous curve with Q(lo) > 0 >= Q(hi) has a root in (lo, hi]; '
                          'termination of the bisection is not proved (partial correctness)')


def task_section(pr, repo):
    ex = Executor(repo)
    fi = repo.func(SEC)
    pr.under_contract(fi)
    rows = [[R('ph%d' % i), R('qu%d' % i), R('qf%d' % i)] for i in range(2)]
    asked = {}

    def conf_of(fi_, a, k):
        names = [x.arg for x in fi_.node.args.args][1:]          # parameters after self
        if 'conformation' in k:
            return k['conformation']
        i = names.index('conformation') if 'conformation' in names else None
        if i is not None and i < len(a):
            return a[i]
        d = fi_.node.args.defaults
        return 'AVR' if d else None                                  # the declared default
    ex.contracts[GP] = lambda ex, ctx, fi_, a, k, so: (asked.setdefault('profile', conf_of(fi_, a, k)), [list(r) for r in rows])[1]
    ex.contracts[PI] = lambda ex, ctx, fi_, a, k, so: (asked.setdefault('pi', conf_of(fi_, a, k)), (R('pi_folded'), R('pi_unfolded')))[1]
    MC = repo.cls('propka.molecular_container.MolecularContainer')

    def thunk(ex, ctx):
        mol = record('mol', MC, options=record('options', None, grid=(0.0, 14.0, 0.1)))
        asked.clear()
        s = ex.call_function(fi, [mol], {'conformation': '2A'})
        ok = isinstance(s, FmtStr)
        conj = [ok, asked.get('profile') == '2A' and asked.get('pi') == '2A']
        if ok:
            P = s.parts
            shape = [p[0] for p in P]
            conj.append(shape == ['lit', 'fmt', 'fmt', 'lit', 'fmt', 'lit', 'fmt', 'lit'])
            if shape == ['lit', 'fmt', 'fmt', 'lit', 'fmt', 'lit', 'fmt', 'lit']:
                conj.append(P[0][1].endswith('    pH  unfolded  folded\n'))
                for i in range(2):
                    vals = FmtStr.values_of(P[1 + i])
                    conj.append(len(vals) == 3 and vals[0] is rows[i][0] and vals[1] is rows[i][1] and vals[2] is rows[i][2])
                # "The pI is {folded} (folded) and {unfolded} (unfolded)"
                conj.append(P[3][1] == 'The pI is ' and P[5][1] == ' (folded) and ' and P[7][1] == ' (unfolded)\n')
                conj.append(And(FmtStr.values_of(P[4])[0] == R('pi_folded'), FmtStr.values_of(P[6])[0] == R('pi_unfolded')))
        ctx.oblige('charge section: charge profile AND pI are those of the conformation asked for; header "pH unfolded folded", each '
                   'profile row printed as (ph, unfolded, folded), pI sentence carries (folded, unfolded) in this order', And(*conj))
        return s
    pr.explore(ex, thunk, SEC)


QUERIES = ['propka.molecular_container.MolecularContainer.get_charge_profile', 'propka.molecular_container.MolecularContainer.get_pi',
           'propka.conformation_container.ConformationContainer.calculate_charge', 'propka.group.Group.calculate_charge']


def run(pr, repo):
    from . import C10
    # the profile is reported AT the grid values min + i*step that make_grid yields (its contract: C10-MG)
    from . import C14
    pr.parallel([(task_group_charge, ()), (task_container_charge, ()), (task_profile, ()), (task_pi, ()),
                 (task_section, ()), (C10.task_grid, ()),
                 # the reported (averaged) container holds every titratable group - also one discarded due to coupling (C14-UC)
                 (C14.task_init_group, ())])
    pr.assumptions.append('|q*(pK-pH)| small enough that 10**x does not overflow (x < 308)')
    # the curves are asked for repeatedly, for several conformations and windows, on one container: the queries keep no state
    from . import frames
    frames.query_is_pure(pr, repo, QUERIES, 'charge queries (profile, pI, container and group charge)')
    bounded(pr)


def bounded(pr):
    """Bounded: profile and pI recomputed independently from the group records of real runs."""
    from . import native
    names = ['1HPX', '3SGB-subset'] if pr.tier == 'quick' else ['1HPX', '3SGB', '4DFR', '1FTJ-Chain-A', 'sample-issue-140']
    grids = [(0.0, 14.0, 1.0), (2.0, 9.0, 0.125)] if pr.tier == 'quick' else \
        [(0.0, 14.0, 1.0), (2.0, 9.0, 0.125), (0.0, 14.0, 0.3), (7.3333, 8.0, 0.004)]
    ev, viol, distinct = 0, [], set()
    for name in names:
        for tonly in (None, 'few'):
            lines = native.pdb_lines(name)
            opts = []
            mol0 = native.run_text(lines)
            if tonly:
                gs = [g for g in mol0.conformations['AVR'].groups if g.titratable][:3]
                if not gs:
                    continue
                opts = ['-i', ','.join('%s:%d' % (g.atom.chain_id, g.atom.res_num) for g in gs)]
            mol = native.run_text(lines, opts) if opts else mol0
            conf = mol.conformations['AVR']
            tg = [g for g in conf.groups if g.titratable]

            def hh(ph, folded):
                s = 0.0
                for g in tg:
                    pk = g.pka_value if folded else g.model_pka
                    e = 10 ** (g.charge * (pk - ph))
                    s += g.charge * e / (1 + e)
                return s
            for grid in grids:
                ev += 1
                distinct.add((name, tonly, grid))
                prof = mol.get_charge_profile('AVR', grid=grid)
                bad = None
                n_exp = int((grid[1] - grid[0]) / grid[2] + 1e-9) + 1
                if len(prof) != n_exp:
                    bad = 'profile has %d rows, grid has %d points' % (len(prof), n_exp)
                for k, (ph, qu, qf) in enumerate(prof):
                    if abs(ph - (grid[0] + k * grid[2])) > 1e-9 or abs(qu - hh(ph, False)) > 1e-9 or abs(qf - hh(ph, True)) > 1e-9:
                        bad = 'row %r != Henderson-Hasselbalch sums (%r, %r) at grid pH %r' % (
                            (ph, qu, qf), hh(ph, False), hh(ph, True), grid[0] + k * grid[2])
                        break
                if bad and len(viol) < 3:
                    viol.append({'what': '%s %s grid %r: %s' % (name, opts, grid, bad), 'replay': None})
            # also windows whose mid-point lies between the two isoelectric points (first bracket decision differs between the curves)
            pf0, pu0 = mol.get_pi('AVR', grid=(0.0, 14.0), precision=1e-6)
            mid = (pf0 + pu0) / 2.0
            between = [((mid - 3.0, mid + 3.0), 1e-4), ((mid - 0.8, mid + 0.8), 1e-4)] if abs(pf0 - pu0) > 1e-3 else []
            # precisions that are not powers of ten too
            odd = [((0.0, 14.0), 0.003), ((0.0, 14.0), 0.025), ((1.0, 13.0), 0.05), ((0.0, 14.0), 0.0007)]
            for window, prec in [((0.0, 14.0), 1e-4), ((2.0, 12.0), 1e-2), ((0.0, 14.0), 1e-10), ((-10.0, 30.0), 1e-9)] + odd + between:
                ev += 1
                pif, piu = mol.get_pi('AVR', grid=window, precision=prec)
                for x, folded, nm in ((pif, True, 'folded'), (piu, False, 'unfolded')):
                    if hh(window[0], folded) > 0 > hh(window[1], folded):
                        if not (hh(x - prec, folded) >= 0 >= hh(x + prec, folded)):
                            if len(viol) < 3:
                                viol.append({'what': '%s %s: %s pI %r is not within %g of the sign change of its curve '
                                                     '(Q(pI-p)=%r, Q(pI+p)=%r)' % (name, opts, nm, x, prec, hh(x - prec, folded),
                                                                                   hh(x + prec, folded)), 'replay': None})
    # every conformation of one container queried in turn (AVR last and first): each answer is that conformation's own curve
    multi = ['conf-alt-AB', 'conf-model-mutant'] if pr.tier == 'quick' else ['conf-alt-AB', 'conf-alt-BC', 'conf-model-mutant',
                                                                           'conf-alt-AB-mutant', '4DFR']
    for name in multi:
        mol = native.run_text(native.pdb_lines(name))
        order = sorted(mol.conformations)
        for names_in_turn in (order, order[::-1]):
            for cname in names_in_turn:
                tg = [g for g in mol.conformations[cname].groups if g.titratable]

                def hh2(ph, folded, tg=tg):
                    s = 0.0
                    for g in tg:
                        e = 10 ** (g.charge * ((g.pka_value if folded else g.model_pka) - ph))
                        s += g.charge * e / (1 + e)
                    return s
                ev += 1
                distinct.add((name, cname))
                for ph, qu, qf in mol.get_charge_profile(cname, grid=(0.0, 14.0, 0.5)):
                    if abs(qu - hh2(ph, False)) > 1e-9 or abs(qf - hh2(ph, True)) > 1e-9:
                        if len(viol) < 3:
                            viol.append({'what': '%s: profile of conformation %s (asked after %r on the same container) at pH %r is (%r, %r), '
                                                 'the sums over its own groups are (%r, %r)' % (
                                                     name, cname, names_in_turn[:names_in_turn.index(cname)], ph, qu, qf,
                                                     hh2(ph, False), hh2(ph, True)), 'replay': None})
                        break
                pif, piu = mol.get_pi(cname, grid=(0.0, 14.0), precision=1e-6)
                for x, folded, nm in ((pif, True, 'folded'), (piu, False, 'unfolded')):
                    if hh2(0.0, folded) > 0 > hh2(14.0, folded) and not (hh2(x - 1e-6, folded) >= 0 >= hh2(x + 1e-6, folded)):
                        if len(viol) < 3:
                            viol.append({'what': '%s: %s pI %r of conformation %s (asked after %r) is not at the sign change of its own curve'
                                         % (name, nm, x, cname, names_in_turn[:names_in_turn.index(cname)]), 'replay': None})
    pr.bounded.append({'name': 'C09-monitor: charge profile and pI vs independent Henderson-Hasselbalch evaluation',
                       'evaluations': ev, 'distinct_nontrivial': len(distinct),
                       'bound': '%d structures x {all groups, 3 listed groups} x %d grids, 4 pI windows/precisions (down to 1e-10)' % (len(names), len(grids)),
                       'rule': 'whole-pipeline runs; profile rows and pI recomputed from group pKa values', 'violations': viol})
