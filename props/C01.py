"""C01 - every ionizable group is predicted exactly once with the right model pKa.

  TR  terminus automaton: one record of the real reader loop == specification automaton (N+ on the N of the first
      ATOM residue after start / MODEL / TER / a residue carrying OXT or O''; residue = chain+number+insertion code;
      C- on OXT / O'')                                                                                         (TOP)
  CL  classification is a function of the atom: is_protein_group decision table over the whole shipped mapping
      (exactly one defining atom per ionizable residue type), is_ion_group over every configured ion,
      is_ligand_group_by_groups decision table (17 leaf classes), is_group dispatch order                      (TOP)
  SU  Group.setup: model_pka = model_pkas[residue_type], charge = charge[type] (ions: ions[residue_type]),
      titratable <=> model pKa known and not bridged                                                           (TOP)
  EX  extract_groups / setup_and_add_group: every non-hydrogen atom is classified once, the group returned is
      initialised and appended exactly once                                                                    (TOP)
  GR  the nine tabulated model pKa values; every reportable type is in write_out_order                        (TOP, ground)
  SE / AV are shared with C02 (sections print each group once) and C08 (average census).
"""
from .common import *   # noqa: F401,F403
from . import reader, cfg, C02, C08, C11, C14
from pyvc.core import Builtin

GM = 'propka.group.'
TABLE = {'ASP': 3.80, 'GLU': 4.50, 'HIS': 6.50, 'CYS': 9.00, 'TYR': 10.00, 'LYS': 10.50, 'ARG': 12.50, 'N+': 8.00, 'C-': 3.20}
DEFINING = {'ASP': ('CG', 'COO'), 'GLU': ('CD', 'COO'), 'HIS': ('CG', 'HIS'), 'CYS': ('SG', 'CYS'), 'TYR': ('OH', 'TYR'),
            'LYS': ('NZ', 'LYS'), 'ARG': ('CZ', 'ARG')}


def task_reader(pr, repo, tag):
    names = reader.NAMES + (['SYMB'] if pr.tier == 'thorough' else [])      # thorough: fully symbolic atom-name field
    reader.explore_steps(pr, repo, reader.check_transition, tags=[tag], names=names, chains_cases=(None,),
                         keep_protons_cases=(False, True) if tag == 'ATOM  ' else (False,), what='C01 record step')


# the decision table below is written with the historical class names; what is compared is the group TYPE the classifier assigns
TYPE_TO_CLASSNAME = {'NAR': 'NARGroup', 'NAM': 'NAMGroup', 'N30': 'N30Group', 'N31': 'N31Group', 'N32': 'N32Group', 'N33': 'N33Group',
                     'N1': 'N1Group', 'F': 'FGroup', 'Cl': 'ClGroup', 'O2': 'O2Group', 'O3': 'O3Group', 'OH': 'OHGroup', 'SH': 'SHGroup',
                     'OP': 'OPGroup', 'C2N': 'C2NGroup', 'CG': 'CGGroup', 'OCO': 'OCOGroup', 'NP1': 'NP1Group'}


def mkatom(repo, **kw):
    A = repo.cls('propka.atom.Atom')
    d = dict(type='atom', terminal=None, name='CA', res_name='ALA', bonded_atoms=[], sybyl_type='', group=None,
             res_num=1, chain_id='A', element='C', cysteine_bridge=False)
    d.update(kw)
    return record('at', A, **d)


def task_classify(pr, repo):
    ex = Executor(repo)
    for n in ('is_group', 'is_protein_group', 'is_ion_group', 'is_ligand_group_by_groups'):
        pr.under_contract(repo.func(GM + n))
    p = cfg.parameters()
    mapping = dict(p.protein_group_mapping)
    params = record('P', None, protein_group_mapping=mapping, ions=dict(p.ions), ligand_typing=p.ligand_typing)
    ex.contracts['propka.protonate.Protonate.protonate_atom'] = lambda *a, **k: None
    residues = sorted({k.split('-')[0] for k in mapping} | {'ALA', 'PRO', 'SER', 'HOH'})
    names = sorted({k.split('-')[1] for k in mapping} | {'N', 'C', 'CA', 'O', 'CB', 'OXT'})

    def thunk(ex, ctx):
        results = {}
        for res in residues:
            for nm in names:
                for term in (None, 'N+', 'C-'):
                    if term and nm not in ('N', 'OXT', 'C', 'CA'):
                        continue
                    for n_o in ((0, 1, 2) if nm == 'C' else (0,)):
                        at = mkatom(repo, res_name=res, name=nm, terminal=term,
                                    bonded_atoms=[mkatom(repo, element='O', name='O') for _ in range(n_o)])
                        g = ex.call_function(repo.func(GM + 'is_protein_group'), [params, at])
                        results[(res, nm, term, n_o)] = g
        bad = []
        for (res, nm, term, n_o), g in results.items():
            cls = g.cls.name if isinstance(g, Obj) and g.cls else None
            typ = g.attrs.get('type') if isinstance(g, Obj) else None
            if term == 'N+':
                exp = 'NtermGroup'
            elif term == 'C-':
                exp = 'CtermGroup'
            elif nm == 'N':
                exp = None if res == 'PRO' else 'BBNGroup'
            elif nm == 'C':
                exp = 'BBCGroup' if n_o == 1 else None
            else:
                k = '%s-%s' % (res, nm)
                exp = (mapping[k] + 'Group') if k in mapping else None
            if cls != exp:
                bad.append(((res, nm, term, n_o), cls, exp))
            if isinstance(g, Obj):
                rt = g.attrs.get('residue_type')
                if (cls not in ('BBNGroup', 'BBCGroup') and rt != (term or res)) or g.attrs.get('atom') is None:
                    bad.append(((res, nm, term), 'residue_type', rt))
        ctx.oblige('CL: is_protein_group == decision table (terminus flag first, backbone N unless PRO, backbone C with exactly one '
                   'bonded O, then the residue-atom mapping), residue_type = terminus tag or residue name; %d atom classes' % len(results),
                   not bad, meta={'exact': True})

    pr.explore(ex, thunk, 'is_protein_group table')

    def t_hetatm(ex, ctx):
        at = mkatom(repo, type='hetatm', res_name='ASP', name='CG')
        g = ex.call_function(repo.func(GM + 'is_protein_group'), [params, at])
        ctx.oblige('CL: HETATM records never give protein groups', g is None)
        conj = []
        for ion, q in p.ions.items():
            for padded in (ion, ' ' + ion, ion + ' '):
                # the ion is recognised by its residue name; its atom name may differ (IOD/I, FE2/FE, 1P/P ...)
                for aname in (ion, ion[:1], ion.lower(), 'X1'):
                    a = mkatom(repo, type='hetatm', res_name=padded[:3].ljust(3) if len(padded) <= 3 else padded, name=aname)
                    gi = ex.call_function(repo.func(GM + 'is_ion_group'), [params, a])
                    conj.append(isinstance(gi, Obj) and gi.cls.name == 'IonGroup' and gi.attrs.get('type') == 'ION')
        a = mkatom(repo, type='hetatm', res_name='XYZ')
        conj.append(ex.call_function(repo.func(GM + 'is_ion_group'), [params, a]) is None)
        ctx.oblige('CL: is_ion_group <=> residue name (blanks stripped) is a configured ion, whatever the atom name, for all %d ions' % len(p.ions), all(conj))
    pr.explore(ex, t_hetatm, 'is_ion_group')

    # ligand decision table
    def lig(ex, sybyl, heavy=0, extra=None, element='N'):
        nb = [mkatom(repo, element='C', name='C%d' % i, sybyl_type='C.3') for i in range(heavy)]
        at = mkatom(repo, type='hetatm', res_name='LIG', name='X1', sybyl_type=sybyl, bonded_atoms=nb + list(extra or []), element=element)
        g = ex.call_function(repo.func(GM + 'is_ligand_group_by_groups'), [params, at])
        return TYPE_TO_CLASSNAME.get(g.attrs.get('type'), g.attrs.get('type')) if isinstance(g, Obj) else None

    def t_lig(ex, ctx):
        H = lambda: mkatom(repo, element='H', name='H')     # noqa
        exp = {
            ('N.ar', 2): 'NARGroup', ('N.ar', 3): None, ('N.am', 1): 'NAMGroup',
            ('N.3', 0): 'N30Group', ('N.3', 1): 'N31Group', ('N.4', 2): 'N32Group', ('N.3', 3): 'N33Group',
            ('N.1', 1): 'N1Group', ('F', 1): 'FGroup', ('Cl', 1): 'ClGroup', ('O.2', 1): 'O2Group',
            ('O.3', 2): 'O3Group', ('O.3', 1): 'OHGroup', ('S.3', 1): 'SHGroup', ('S.3', 2): None, ('C.3', 4): None,
        }
        bad = []
        for (sy, hv), want in exp.items():
            got = lig(ex, sy, hv, extra=[H()])       # an attached hydrogen never changes the class (heavy-atom counts)
            if got != want:
                bad.append((sy, hv, got, want))
        # phosphate oxygen
        pat = mkatom(repo, element='P', name='P')
        at = mkatom(repo, type='hetatm', sybyl_type='O.3', bonded_atoms=[pat], element='O')
        g = ex.call_function(repo.func(GM + 'is_ligand_group_by_groups'), [params, at])
        if not (isinstance(g, Obj) and g.attrs.get('type') == 'OP'):
            bad.append(('O.3-P', g))
        # carboxyl, amidinium, guanidinium carbon
        def npl(n_heavy_extra=0):
            n = mkatom(repo, element='N', name='N', sybyl_type='N.pl3')
            n.attrs['bonded_atoms'] = [None] + [mkatom(repo, element='C') for _ in range(n_heavy_extra)] + [H(), H()]
            return n
        for nn, extra_heavy, want in ((2, 0, 'C2NGroup'), (3, 0, 'CGGroup')):
            ns = [npl() for _ in range(nn)]
            c = mkatom(repo, type='hetatm', sybyl_type='C.2', element='C', bonded_atoms=list(ns))
            for n in ns:
                n.attrs['bonded_atoms'][0] = c
            if nn == 3:
                ns[2].attrs['bonded_atoms'].insert(1, mkatom(repo, element='C'))     # the substituted nitrogen
            g = ex.call_function(repo.func(GM + 'is_ligand_group_by_groups'), [params, c])
            if not (isinstance(g, Obj) and TYPE_TO_CLASSNAME.get(g.attrs.get('type')) == want):
                bad.append(('C.2 with %d N.pl3' % nn, g.attrs.get('type') if isinstance(g, Obj) else g, want))
        os_ = [mkatom(repo, element='O', sybyl_type='O.co2') for _ in range(2)]
        c = mkatom(repo, type='hetatm', sybyl_type='C.2', element='C', bonded_atoms=os_)
        g = ex.call_function(repo.func(GM + 'is_ligand_group_by_groups'), [params, c])
        if not (isinstance(g, Obj) and g.attrs.get('type') == 'OCO'):
            bad.append(('carboxyl', g))
        # N.pl3 with one carbon that has only this nitrogen
        cc = mkatom(repo, element='C')
        n = mkatom(repo, type='hetatm', sybyl_type='N.pl3', element='N', bonded_atoms=[cc])
        cc.attrs['bonded_atoms'] = [n]
        g = ex.call_function(repo.func(GM + 'is_ligand_group_by_groups'), [params, n])
        if not (isinstance(g, Obj) and g.attrs.get('type') == 'NP1'):
            bad.append(('NP1', g))
        at = mkatom(repo, type='atom', sybyl_type='N.3')
        if ex.call_function(repo.func(GM + 'is_ligand_group_by_groups'), [params, at]) is not None:
            bad.append('ATOM record classified as ligand group')
        ctx.oblige('CL: is_ligand_group_by_groups == decision table over atom type and heavy-atom bond count (hydrogens do not '
                   'change the class): NAR, NAM, N30-N33, N1, NP1, C2N, CG, OCO, F, Cl, OP, OH, O3, O2, SH', not bad)
        ctx.notes.append(str(bad[:5]))
    pr.explore(ex, t_lig, 'is_ligand_group_by_groups table')

    task_dispatch(pr, repo)

def task_dispatch(pr, repo):
    """CL: is_group tries the protein, ion and ligand classification in this order for every atom - whatever the record type and
    whatever residue selection (titrate-only list) the run carries: the selection decides what is titrated, not which groups exist."""
    ex = Executor(repo)
    pr.under_contract(repo.func(GM + 'is_group'))
    p = cfg.parameters()
    params = record('P', None, protein_group_mapping=dict(p.protein_group_mapping), ions=dict(p.ions), ligand_typing=p.ligand_typing)
    for typ in ('atom', 'hetatm'):
        for sel in ('no options', None, [], [('A', 1, ' ')], [('B', 7, ' ')]):
            def t_dispatch(ex, ctx, typ=typ, sel=sel):
                order = []
                for n in ('is_protein_group', 'is_ion_group', 'is_ligand_group_by_groups'):
                    ex.contracts[GM + n] = (lambda n: lambda ex, ctx_, fi, a, k, so: order.append(n))(n)
                mol = None if sel == 'no options' else record('mol', None, options=record('options', None, titrate_only=sel, chains=None,
                                                                                           keep_protons=False, protonate_all=False))
                at = mkatom(repo, groups_extracted=False, type=typ, molecular_container=mol, conformation_container=None, icode=' ',
                            res_name='LIG' if typ == 'hetatm' else 'ALA')
                r = ex.call_function(repo.func(GM + 'is_group'), [params, at])
                ctx.oblige('CL[%s record, residue selection %r]: is_group tries protein, ion, ligand classification in this order, marks '
                           'the atom as checked, None if none applies' % (typ, sel),
                           order == ['is_protein_group', 'is_ion_group', 'is_ligand_group_by_groups'] and r is None
                           and at.attrs['groups_extracted'] is True)
                for n in ('is_protein_group', 'is_ion_group', 'is_ligand_group_by_groups'):
                    del ex.contracts[GM + n]
            pr.explore(ex, t_dispatch, 'is_group %s %r' % (typ, sel))


def task_setup(pr, repo):
    ex = Executor(repo)
    fi = repo.func(GM + 'Group.setup')
    pr.under_contract(fi)
    Gc = repo.cls(GM + 'Group')
    for rt, typ, is_ion in (('ASP', 'COO', False), ('LIG', 'OCO', False), ('CA', 'ION', True), ('XXX', 'ROH', False)):
        def thunk(ex, ctx, rt=rt, typ=typ, is_ion=is_ion):
            bridge = B('bridge')
            at = mkatom(repo, cysteine_bridge=bridge, res_name=rt, name='CG')
            have_pka = rt in ('ASP',) or typ == 'OCO'
            mp = {'ASP': R('pk_ASP'), 'OCO': R('pk_OCO'), 'LIG': R('pk_LIG')} if have_pka else {'ASP': R('pk_ASP')}
            if typ == 'OCO':
                rt_key = 'OCO'
            params = record('P', None, charge={'COO': R('q_COO'), 'OCO': R('q_OCO'), 'ROH': R('q_ROH')},
                            ions={'CA': R('q_CA')}, model_pkas=mp, custom_model_pkas={})
            g = record('g', Gc, atom=at, type=typ, residue_type=('OCO' if typ == 'OCO' else rt), parameters=params,
                       model_pka_set=False, model_pka=0.0, charge=0, titratable=True)
            g.attrs['setup_atoms'] = Builtin('setup_atoms', lambda ex, *a, **k: None)
            ex.call_function(fi, [], self_obj=g)
            rtype = g.attrs['residue_type']
            conj = []
            if rtype in mp:
                conj.append(g.attrs['model_pka'] == mp[rtype])
                conj.append(g.attrs['titratable'] == Not(bridge))
            else:
                conj.append(g.attrs['titratable'] is False)
            if is_ion:
                conj.append(g.attrs['charge'] == R('q_CA'))
            elif typ in ('COO', 'OCO', 'ROH'):
                conj.append(g.attrs['charge'] == R('q_' + typ))
            conj.append(g.attrs['exclude_cys_from_results'] is False)
            ctx.oblige('SU[%s/%s]: model pKa = configured value of the residue type, charge = configured charge of the group type '
                       '(ions: ion table), titratable <=> model pKa known and not disulfide-bridged' % (rt, typ), And(*conj))
        pr.explore(ex, thunk, 'Group.setup %s' % rt)
    # configured per-residue-atom overrides (nucleotides): residue names are stored as 3-column fields ('DA '), atom names stripped
    from props import cfg as cfgmod
    keys = sorted(cfgmod.parameters().custom_model_pkas)
    pr.add(Ground('SU(custom): the shipped file configures per residue-atom model pKa overrides', len(keys) > 0, 'custom_model_pkas'))
    for key in keys:
        rn, an = key.split('-')

        def thunk2(ex, ctx, rn=rn, an=an, key=key):
            at = mkatom(repo, cysteine_bridge=False, res_name='%-3s' % rn, name=an)
            params = record('P', None, charge={'OP': R('q_OP'), 'N1': R('q_OP')}, ions={}, model_pkas={'OP': R('pk_T'), 'N1': R('pk_T')},
                            custom_model_pkas={key: R('pk_custom'), 'ZZ-ZZ': R('pk_other')})
            typ = 'OP' if an.startswith('OP') else 'N1'
            g = record('g', Gc, atom=at, type=typ, residue_type=typ, parameters=params, model_pka_set=False, model_pka=0.0, charge=0,
                       titratable=True)
            g.attrs['setup_atoms'] = Builtin('setup_atoms', lambda ex, *a, **k: None)
            ex.call_function(fi, [], self_obj=g)
            ctx.oblige('SU(custom %s): an atom of residue field %r, name %r gets the model pKa configured for %s, not the generic one of '
                       'its group type' % (key, '%-3s' % rn, an, key), g.attrs['model_pka'] == R('pk_custom'))
        pr.explore(ex, thunk2, 'Group.setup custom %s' % key)


def task_extract(pr, repo):
    ex = Executor(repo)
    CC = 'propka.conformation_container.ConformationContainer'
    for n in ('extract_groups', 'setup_and_add_group', 'get_non_hydrogen_atoms'):
        pr.under_contract(repo.func(CC + '.' + n))

    def thunk(ex, ctx):
        Gc = repo.cls(GM + 'Group')
        atoms = [mkatom(repo, element='H', groups_extracted=0), mkatom(repo, element='C', groups_extracted=0),
                 mkatom(repo, element='N', groups_extracted=0), mkatom(repo, element='O', groups_extracted=1, group=None)]
        prior = record('gprior', Gc)
        atoms.append(mkatom(repo, element='S', groups_extracted=1, group=prior))
        gnew = record('gnew', Gc)
        calls = []

        def isg(ex, ctx_, fi, a, k, so):
            calls.append(a[1])
            return gnew if a[1] is atoms[2] else None
        ex.contracts[GM + 'is_group'] = isg
        inits = []
        ex.contracts[CC + '.init_group'] = lambda ex, ctx_, fi, a, k, so: inits.append(a[0])
        conf = record('conf', repo.cls(CC), atoms=atoms, groups=[], parameters=record('P', None))
        ex.call_function(repo.func(CC + '.extract_groups'), [], self_obj=conf)
        gs = conf.attrs['groups']
        ctx.oblige('EX: hydrogens are skipped; every other unchecked atom is classified exactly once; an atom classified in another '
                   'conformation reuses its group; every group found is initialised and appended exactly once, nothing else',
                   len(calls) == 2 and calls[0] is atoms[1] and calls[1] is atoms[2]
                   and len(gs) == 2 and gs[0] is gnew and gs[1] is prior and len(inits) == 2)
    pr.explore(ex, thunk, 'extract_groups')


def task_summary_rows(pr, repo):
    """SR: the summary / determinant tables have a row for every group.  Code form (proved): a row unless the group was discarded due
    to covalent coupling AND the configuration removes penalised groups.  Property form ('once in the reported summary', no exception):
    refuted for exactly that case - recorded known finding D15."""
    from . import C02
    ex = Executor(repo)
    for n in ('get_summary_string', 'get_determinant_string'):
        pr.under_contract(repo.func(GM + 'Group.' + n))
    for meth in ('get_summary_string', 'get_determinant_string'):
        for discarded in (False, True):
            for flag in (False, True):
                def thunk(ex, ctx, meth=meth, discarded=discarded, flag=flag):
                    g = C02.mkgroup(repo, 'g', (1, 0, 1), label='ASP   7 I', buried='real', num_volume='real', num_local='real',
                                    coupled_titrating_group=None, non_covalently_coupled_groups=[], type='COO')
                    g.attrs['atom'].attrs.update(type='atom')
                    if discarded:
                        g.attrs['coupled_titrating_group'] = C02.mkgroup(repo, 'nplus', (0, 0, 0), label='N+    7 I')
                    r = ex.call_function(repo.func(GM + 'Group.' + meth), [flag], self_obj=g)
                    has_row = not (isinstance(r, str) and r == '')
                    ctx.oblige('SR(code form)[%s, discarded %s, remove_penalised_group %s]: a row is produced unless the group is '
                               'discarded due to coupling and penalised groups are removed' % (meth, discarded, flag),
                               has_row == (not (discarded and flag)))
                    if discarded and flag:
                        ctx.oblige('SR(property form)[%s]: a group discarded due to covalent coupling still has its row (every '
                                   'ionizable site appears once in the reported summary)' % meth, has_row)
                pr.explore(ex, thunk, '%s discarded=%s flag=%s' % (meth, discarded, flag))


def ground(pr, repo):
    p = cfg.parameters()
    for k, v in TABLE.items():
        pr.add(Ground('GR: model pKa of %s is %.2f in the shipped file' % (k, v), abs(p.model_pkas.get(k, -1) - v) < 1e-12,
                      detail=str(p.model_pkas.get(k))))
    for res, (atom_name, cls) in DEFINING.items():
        keys = [k for k, v in p.protein_group_mapping.items() if k.startswith(res + '-')]
        pr.add(Ground('GR: residue %s has exactly one defining atom (%s -> %s group)' % (res, atom_name, cls),
                      keys == ['%s-%s' % (res, atom_name)] and p.protein_group_mapping[keys[0]] == cls, detail=str(keys)))
    rep = [t for t in p.model_pkas if t not in p.write_out_order]
    pr.add(Ground('GR: every residue type that has a model pKa (and can therefore be reported) is in write_out_order', not rep,
                  detail=str(rep)))
    pr.add(Ground('GR: CYS is in write_out_order (bridged cysteines are listed with 99.99)', 'CYS' in p.write_out_order))


def run(pr, repo):
    pr.level = 'other'
    pr.explanation = ('deductive core (VC, ground, frame) plus bounded census monitor; level "other" because one clause of the property '
                      'does NOT hold on this tree (recorded known finding D15: a side chain covalently coupled to the N-terminus of its '
                      'own residue - an N-terminal Asp, His or Cys - is discarded from the summary and determinant tables): its '
                      'property-form obligations are refuted on every run and reported as KNOWN-FINDING, so discharged < obligations')
    ground(pr, repo)
    tasks = [(task_reader, (t,)) for t in reader.TAGS] + [(task_classify, ()), (task_setup, ()), (task_extract, ()),
                                                           (C02.task_sections, ()), (C08.task_average_twins, ()),
                                                           (C08.task_average, (2,)), (C14.task_init_group, ()), (C14.task_parse, ()),
                                                           # titrate-only matching reads chain/number/icode of COPIED atoms too
                                                           (C14.task_make_copy, ()), (C14.task_setup_and_add, ()),
                                                           # 'a cysteine in a disulfide bridge is reported as 99.99': every S-S
                                                           # pair within bonding distance is found, wherever it lies in the cell grid
                                                           (C11.task_cell_lemma, ()), (C11.task_boxes_pair, ('S', 'S', False, (0,))), (task_summary_rows, ()),
                                                           # 'in every conformation ... nothing that is not in the structure': completing a
                                                           # conformation never merges two residue types at one position (C08-TU)
                                                           (C08.task_topup, ()),
                                                           # rows are printed chain by chain: every atom's chain is registered (C02-CH)
                                                           (C02.task_add_atom, ())]
    pr.parallel(tasks)
    pr.assumptions += ['stutter/simulation rule lifts the per-record automaton to whole files; atom-name classes as listed in '
                       'props/reader.py', 'composition step "nothing else is reported" (bounded census monitor)',
                       'Atom.set_properties (column extraction) is under contract in C07', 'A-ASCII']
    bounded(pr)


# ------------------------------------------------------------------------------------------------ bounded census
def expected_sites(lines, ignore, ions):
    """Independent census from the input text (specification automaton of the property)."""
    sites = {}
    await_start, start, oxt_res, model = True, None, None, 1
    res_atoms = {}
    for l in lines:
        tag = l[:6]
        if tag == 'MODEL ':
            await_start = True
            continue
        if tag == 'TER   ' or l.startswith('TER'):
            await_start = True
            continue
        if tag not in ('ATOM  ', 'HETATM') or l[17:20] in ignore:
            continue
        name, res, r = l[12:16].strip(), l[17:20].strip(), l[21:27]
        alt = l[16]
        if tag == 'ATOM  ':
            if await_start and r != oxt_res:
                start, await_start, oxt_res = r, False, None
            key = (l[21].strip() or '_', int(l[22:26]), l[26])
            if name == 'N' and not await_start and r == start:
                sites[('N+',) + key + (alt,)] = 8.00
            if name in ('OXT', "O''"):
                sites[('C-',) + key + (alt,)] = 3.20
                await_start, oxt_res = True, r
            if res in DEFINING and DEFINING[res][0] == name:
                sites[(res,) + key + (alt,)] = TABLE[res]
    return sites


def bounded(pr):
    from . import native
    import re
    import propka.output as out
    p = cfg.parameters()
    ev, viol, classes = 0, [], set()

    def layouts():
        for n in (['1HPX', '3SGB-subset'] if pr.tier == 'quick' else ['1HPX', '3SGB', '1FTJ-Chain-A', '4DFR', 'sample-issue-140']):
            base = native.pdb_lines(n)
            yield n, base
            yield n + ' no TER', [l for l in base if not l.startswith('TER')]
            yield n + ' no TER, OXT not last', _oxt_first(base)
            yield n + ' no OXT/TER-kept', [l for l in base if l[12:16] != ' OXT']
            yield n + ' no OXT, bare TER records', [('TER\n' if l.startswith('TER') else l) for l in base if l[12:16] != ' OXT']
            yield n + ' chain B renumbered to start at the last number of A', _renumber(base)
            yield n + ' waters as ATOM', [('ATOM  ' + l[6:]) if l[17:20] == 'HOH' else l for l in base]
    def selections():
        # chain selections, including the chain without identifier (option value ' ', stored on atoms as '_')
        base = native.pdb_lines('1HPX')
        blank_b = [(l[:21] + ' ' + l[22:]) if l[:6] in ('ATOM  ', 'HETATM') and l[21] == 'B' else l for l in base]
        for sel in ([' '], ['A', ' '], [' ', 'A'], ['A']):
            opts = []
            for c in sel:
                opts += ['-c', c]
            yield '1HPX chain B without identifier, -c %r' % (sel,), blank_b, opts, \
                [l for l in blank_b if not (l[:6] in ('ATOM  ', 'HETATM') and l[21] not in sel)]
    work = [(n, ls, [], ls) for n, ls in layouts()] + list(selections())
    for name, lines, opts, lines_expected in work:
        ev += 1
        classes.add(name.split(' ', 1)[-1])
        try:
            mol = native.run_text(lines, opts)
        except (Exception, SystemExit) as e:   # noqa
            viol.append({'what': '%s: %s' % (name, e), 'replay': None})
            continue
        exp = expected_sites(lines_expected, p.ignore_residues, p.ions)
        # alt-loc: a site is expected once per conformation; compare on the first conformation
        c = mol.conformations[mol.conformation_names[0]]
        got = {}
        for g in c.groups:
            if g.residue_type in TABLE and g.atom.type == 'atom':
                k = (g.residue_type, g.atom.chain_id, g.atom.res_num, g.atom.icode)
                got.setdefault(k, []).append(g)
        want = {}
        for (rt, ch, num, ic, alt), pk in exp.items():
            want[(rt, ch, num, ic)] = pk
        bad = []
        for k, pk in want.items():
            gs = got.get(k, [])
            if len(gs) != 1:
                bad.append('%r expected once, found %d time(s)' % (k, len(gs)))
            elif abs(gs[0].model_pka - pk) > 1e-9 and not gs[0].atom.cysteine_bridge:
                bad.append('%r model pKa %r, table %r' % (k, gs[0].model_pka, pk))
        for k in got:
            if k not in want:
                bad.append('%r reported but not in the structure' % (k,))
        summ = out.get_summary_section(mol, 'AVR', mol.version.parameters)
        rows = re.findall(r'(?m)^ {3}(.{9}) +(-?\d+\.\d\d) +(-?\d+\.\d\d)', summ)
        nrep = len([g for g in mol.conformations['AVR'].groups if g.residue_type in mol.version.parameters.write_out_order
                    and not (g.coupled_titrating_group and mol.version.parameters.remove_penalised_group)])
        if len(rows) != nrep:
            bad.append('summary has %d rows for %d reportable groups' % (len(rows), nrep))
        # property form: every site of the structure has a summary row - also a group discarded due to covalent coupling
        labels = {r[0].strip() for r in rows}
        for g in mol.conformations['AVR'].groups:
            if g.residue_type in TABLE and g.atom.type == 'atom' and g.label.strip() not in labels and g.coupled_titrating_group \
                    and not any(v['what'].startswith(name.split(' ')[0]) and 'discarded due to covalent coupling' in v['what'] for v in viol):
                viol.append({'what': '%s: %s is in the results (pKa %.2f) but has no row in the summary and determinant tables: discarded '
                                     'due to covalent coupling with %s (remove_penalised_group)' % (
                                         name, ' '.join(g.label.split()), g.pka_value, ' '.join(g.coupled_titrating_group.label.split())),
                             'replay': None})
                break
        for g in c.groups:
            if g.atom.cysteine_bridge and g.residue_type == 'CYS' and abs(g.pka_value - 99.99) > 1e-9:
                bad.append('bridged CYS %s reported with %r' % (g.label, g.pka_value))
        if bad and len([v for v in viol if 'discarded due to covalent coupling' not in v['what']]) < 3:
            viol.append({'what': '%s: %s' % (name, bad[:3]), 'replay': None})
    pr.bounded.append({'name': 'C01-monitor: census from the input text vs groups and summary', 'evaluations': ev,
                       'distinct_nontrivial': len(classes), 'bound': '%d layouts' % ev,
                       'rule': 'repo structures x {as is, no TER, OXT not last, no OXT, renumbered second chain, waters as ATOM}',
                       'violations': viol})


def _oxt_first(lines):
    out, i = [], 0
    lines = [l for l in lines if not l.startswith('TER')]
    while i < len(lines):
        l = lines[i]
        if l[:6] == 'ATOM  ' and l[12:16] == ' OXT':
            # move OXT right after the O of its residue
            j = len(out) - 1
            while j >= 0 and not (out[j][12:16] == ' O  ' and out[j][21:27] == l[21:27]):
                j -= 1
            if j >= 0:
                out.insert(j + 1, l)
            else:
                out.append(l)
        else:
            out.append(l)
        i += 1
    return out


def _renumber(lines):
    chains = []
    for l in lines:
        if l[:6] == 'ATOM  ' and l[21] not in chains:
            chains.append(l[21])
    if len(chains) < 2:
        return lines
    a, b = chains[0], chains[1]
    last_a = max(int(l[22:26]) for l in lines if l[:6] == 'ATOM  ' and l[21] == a)
    first_b = min(int(l[22:26]) for l in lines if l[:6] in ('ATOM  ', 'HETATM') and l[21] == b)
    shift = last_a - first_b
    out = []
    for l in lines:
        if l[:6] in ('ATOM  ', 'HETATM') and l[21] == b:
            l = l[:22] + '%4d' % (int(l[22:26]) + shift) + l[26:]
        out.append(l)
    return [l for l in out if not l.startswith('TER')]
