"""Loop proof rules as loop hooks (see DESIGN 1.1 'Loops').

LoopSpec implements the standard invariant rule on the REAL loop body:
   init:  the invariant holds on entry                                  (obligation)
   step:  from an arbitrary state satisfying the invariant, one iteration with an
          arbitrary element re-establishes it                           (obligation), path is cut
   exit:  the code after the loop runs from an arbitrary state satisfying the invariant
The fold rule (ii) and the stutter rule (iii) are instances: their step obligations are
stated by the callbacks.
"""
import ast
import z3

from .core import _Break, _Continue
from .ctx import CutPath
from .values import Sym


class LoopSpec:
    def __init__(self, name, elem, havoc, init=None, step=None, at_exit=None, on_break=None, explore_exit=True,
                 explore_step=True):
        """
        name      label used in obligation names
        elem      f(ex, ctx, env) -> value bound to the loop target in the step path
        havoc     f(ex, ctx, env, phase) -> state token; sets modified locals/fields to arbitrary values
                  satisfying the invariant ('step' or 'exit' phase) via ctx.assume
        init      f(ex, ctx, env): obligations that the invariant holds at loop entry
        step      f(ex, ctx, env, token, elem, how): obligations after one iteration
                  (how in 'normal', 'continue', 'break')
        at_exit   f(ex, ctx, env, token): extra assumptions for the code after the loop
        """
        self.name = name
        self.elem = elem
        self.havoc = havoc
        self.init = init
        self.step = step
        self.at_exit = at_exit
        self.explore_exit = explore_exit
        self.explore_step = explore_step
        self._n = 0

    def __call__(self, ex, ctx, st, env):
        self.node = st
        if self.init:
            self.init(ex, ctx, env)
        k = ctx._fresh.get('loopmode', 0)
        ctx._fresh['loopmode'] = k + 1
        mode = Sym(z3.Bool('loopmode!%s!%d' % (self.name, k)))
        do_step = ctx.branch(mode.e) if (self.explore_exit and self.explore_step) else self.explore_step
        if do_step:
            token = self.havoc(ex, ctx, env, 'step')
            x = self.elem(ex, ctx, env)
            if isinstance(st, ast.For):
                ex.assign(st.target, x, env)
                how = 'normal'
                try:
                    ex.exec_block(st.body, env)
                except _Continue:
                    how = 'continue'
                except _Break:
                    how = 'break'
            else:
                how = 'normal'
                if not ex.truth(ex.eval(st.test, env)):
                    raise CutPath()
                try:
                    ex.exec_block(st.body, env)
                except _Continue:
                    how = 'continue'
                except _Break:
                    how = 'break'
            if self.step:
                self.step(ex, ctx, env, token, x, how)
            raise CutPath()
        token = self.havoc(ex, ctx, env, 'exit')
        if self.at_exit:
            self.at_exit(ex, ctx, env, token)
        return None
