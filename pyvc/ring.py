"""'ring' back end: decides polynomial identities by normalisation (sympy expand).

An obligation  hyps |- /\ lhs_i == rhs_i  is discharged when, after rewriting
with those hypotheses that are equations  atom == polynomial  (atom = a
variable or an uninterpreted application, e.g. SIN_(-b) == -SIN_(b)), every
lhs_i - rhs_i expands to the zero polynomial.  Uninterpreted applications are
treated as indeterminates (sound: the identity then holds for every
interpretation).  It never refutes: a non-zero normal form means 'unknown'.
"""
import z3
import sympy


class NotPoly(Exception):
    pass


def _conv(e, table):
    if z3.is_rational_value(e):
        return sympy.Rational(e.numerator_as_long(), e.denominator_as_long())
    if z3.is_int_value(e):
        return sympy.Integer(e.as_long())
    k = e.decl().kind()
    ch = e.children()
    if k == z3.Z3_OP_ADD:
        return sympy.Add(*[_conv(c, table) for c in ch])
    if k == z3.Z3_OP_MUL:
        return sympy.Mul(*[_conv(c, table) for c in ch])
    if k == z3.Z3_OP_SUB:
        r = _conv(ch[0], table)
        for c in ch[1:]:
            r = r - _conv(c, table)
        return r
    if k == z3.Z3_OP_UMINUS:
        return -_conv(ch[0], table)
    if k == z3.Z3_OP_TO_REAL:
        return _conv(ch[0], table)
    if k == z3.Z3_OP_POWER and z3.is_int_value(ch[1]):
        return _conv(ch[0], table) ** ch[1].as_long()
    if k == z3.Z3_OP_DIV and z3.is_rational_value(ch[1]):
        return _conv(ch[0], table) / _conv(ch[1], table)
    if k == z3.Z3_OP_UNINTERPRETED or k == z3.Z3_OP_DIV:
        key = e.sexpr()
        if key not in table:
            table[key] = (sympy.Symbol('t%d' % len(table)), e)
        return table[key][0]
    raise NotPoly(str(e.decl()))


def _atomic(e):
    return e.decl().kind() == z3.Z3_OP_UNINTERPRETED


def _equations(f):
    """Flatten conjunctions, yield (lhs, rhs) of equalities between arithmetic terms."""
    if z3.is_and(f):
        for c in f.children():
            yield from _equations(c)
    elif z3.is_eq(f) and z3.is_arith(f.children()[0]):
        a, b = f.children()
        yield a, b


def prove_identity(hyps, goal, limit_terms=200000):
    goals = list(_equations(goal))
    if not goals or (z3.is_and(goal) and len(goals) != len(goal.children())) or \
            (not z3.is_and(goal) and not z3.is_eq(goal)):
        return False
    table = {}
    subs = {}
    try:
        for h in hyps:
            for a, b in _equations(h):
                for lhs, rhs in ((a, b), (b, a)):
                    if _atomic(lhs) and lhs.num_args() > 0 and not (_atomic(rhs) and rhs.num_args() > 0 and rhs.sexpr() > lhs.sexpr()):
                        s = _conv(lhs, table)
                        if s not in subs:
                            subs[s] = _conv(rhs, table)
                        break
        rest = []
        for a, b in goals:
            d = _conv(a, table) - _conv(b, table)
            for _ in range(4):
                d2 = d.xreplace(subs)
                if d2 == d:
                    break
                d = d2
            d = sympy.expand(d)
            if d != 0:
                rest.append(d)
        if not rest:
            return True
        # ideal membership: the goal polynomial reduces to 0 modulo the polynomial equations among the hypotheses
        # (d = sum q_i * (lhs_i - rhs_i)  =>  d == 0 whenever the hypotheses hold).  Sound; incomplete.
        gens = []
        syms = set().union(*[r.free_symbols for r in rest])
        for h in hyps:
            for a, b in _equations(h):
                try:
                    g = sympy.expand(_conv(a, table) - _conv(b, table))
                except NotPoly:
                    continue
                if g != 0 and g.free_symbols & syms and len(gens) < 40:
                    gens.append(g)
        if not gens:
            return False
        allsyms = sorted(set().union(syms, *[g.free_symbols for g in gens]), key=str)
        for d in rest:
            try:
                _, r = sympy.reduced(d, gens, *allsyms, order='grevlex')
            except Exception:
                return False
            if sympy.expand(r) != 0:
                try:
                    G = sympy.groebner(gens, *allsyms, order='grevlex')
                    if not G.contains(d):
                        return False
                except Exception:
                    return False
        return True
    except NotPoly:
        return False
