"""Models of the Python builtins / stdlib functions the verified code uses.
Each model states what it assumes; anything else raises Unsupported."""
import math
import z3

from .values import (FmtStr, Sym, Obj, SStr, Opaque, Unsupported, PyRaise, arith, compare, sym_abs,
                     to_bool, to_z3_num, lift, mk_str, str_chars, And, Or, Not, Ite, simp)

WS = (9, 10, 11, 12, 13, 28, 29, 30, 31, 32)      # str.strip()/int() whitespace within ASCII (A-ASCII)


def _B(name):
    def deco(fn):
        from .core import Builtin
        BUILTINS[name] = Builtin(name, fn)
        return fn
    return deco


BUILTINS = {}


def install():
    from .core import Builtin, ClassRef, PyClassRef, FuncInfo, Closure, BoundMethod

    @_B('len')
    def _len(ex, v):
        if isinstance(v, (list, tuple, dict, str, set, frozenset, SStr)):
            return len(v)
        if isinstance(v, Obj) and v.cls is not None and v.cls.find_method('__len__'):
            return ex.call_repo(v.cls.find_method('__len__'), [], {}, v)
        if v is None:
            raise PyRaise('TypeError', 'len(None)')
        raise Unsupported('len of %r' % type(v).__name__)

    @_B('abs')
    def _abs(ex, v):
        if isinstance(v, Sym):
            if not getattr(ex, 'fork_minmax', True):
                return sym_abs(v)
            # fork so that later nonlinear reasoning sees a plain term
            if ex.ctx.branch(compare('>=', v, 0)):
                return v
            return arith('-', 0, v)
        return abs(v)

    def _minmax(is_min):
        def f(ex, *args, key=None, default=None):
            items = ex.iterate(args[0]) if len(args) == 1 else list(args)
            if (items and key is None and not getattr(ex, 'fork_minmax', True)
                    and all(isinstance(x, (Sym, int, float)) and not isinstance(x, bool) for x in items)
                    and any(isinstance(x, Sym) for x in items)):
                best = items[0]
                for x in items[1:]:
                    best = Ite(compare('<' if is_min else '>', x, best), x, best)
                return best
            if not items:
                if default is not None:
                    return default
                raise PyRaise('ValueError', 'min/max of empty sequence')
            best = items[0]
            bk = ex.call(key, [best]) if key is not None else best
            for x in items[1:]:
                k = ex.call(key, [x]) if key is not None else x
                c = ex.compare_op(__import__('ast').Lt() if is_min else __import__('ast').Gt(), k, bk)
                if ex.truth(c):
                    best, bk = x, k
            return best
        return f
    _B('min')(_minmax(True))
    _B('max')(_minmax(False))

    @_B('sum')
    def _sum(ex, it, start=0):
        r = start
        for x in ex.iterate(it):
            r = ex.binop(__import__('ast').Add(), r, x)
        return r

    @_B('range')
    def _range(ex, *a):
        if any(isinstance(x, Sym) for x in a):
            raise Unsupported('range with symbolic bound (needs a loop invariant)')
        return list(range(*a))

    @_B('enumerate')
    def _enumerate(ex, it, start=0):
        return [(i + start, x) for i, x in enumerate(ex.iterate(it))]

    @_B('zip')
    def _zip(ex, *its):
        return list(zip(*[ex.iterate(i) for i in its]))

    _NODEFAULT = object()

    @_B('iter')
    def _iter(ex, it):
        from .core import GenList
        return GenList(ex.iterate(it))

    @_B('next')
    def _next(ex, it, default=_NODEFAULT):
        # generators / iterators are evaluated eagerly into a GenList (element evaluation in this subset has no side effects)
        from .core import GenList
        if not isinstance(it, GenList):
            raise Unsupported('next() on %r' % type(it).__name__)
        if it:
            return it.pop(0)
        if default is _NODEFAULT:
            raise PyRaise('StopIteration', '')
        return default

    @_B('reversed')
    def _reversed(ex, it):
        return list(reversed(ex.iterate(it)))

    @_B('sorted')
    def _sorted(ex, it, key=None, reverse=False):
        items = ex.iterate(it)
        keys = [ex.call(key, [x]) if key is not None else x for x in items]
        if any(isinstance(k, (Sym, SStr, Obj)) for k in keys):
            # insertion sort with forking comparisons
            idx = list(range(len(items)))
            out = []
            for i in idx:
                pos = len(out)
                for j in range(len(out)):
                    if ex.truth(ex.compare_op(__import__('ast').Lt(), keys[i], keys[out[j]])):
                        pos = j
                        break
                out.insert(pos, i)
            res = [items[i] for i in out]
        else:
            res = [x for _, x in sorted(zip(keys, range(len(items))), key=lambda t: t[0])]
            res = [items[i] for i in res]
        return list(reversed(res)) if reverse else res

    @_B('list')
    def _list(ex, it=()):
        return list(ex.iterate(it))

    @_B('tuple')
    def _tuple(ex, it=()):
        return tuple(ex.iterate(it))

    @_B('set')
    def _set(ex, it=()):
        from .core import check_hashable
        return set(check_hashable(x) for x in ex.iterate(it))

    @_B('dict')
    def _dict(ex, it=(), **kw):
        d = dict(it) if isinstance(it, dict) else dict(ex.iterate(it))
        d.update(kw)
        return d

    @_B('filter')
    def _filter(ex, f, it):
        return [x for x in ex.iterate(it) if ex.truth(ex.call(f, [x]) if f is not None else x)]

    @_B('map')
    def _map(ex, f, it):
        return [ex.call(f, [x]) for x in ex.iterate(it)]

    @_B('functools.reduce')
    def _reduce(ex, f, it, *init):
        xs = list(ex.iterate(it))
        if init:
            acc = init[0]
        elif xs:
            acc, xs = xs[0], xs[1:]
        else:
            raise PyRaise('TypeError', 'reduce() of empty iterable with no initial value')
        for x in xs:
            acc = ex.call(f, [acc, x])
        return acc

    @_B('any')
    def _any(ex, it):
        for x in ex.iterate(it):
            if ex.truth(x):
                return True
        return False

    @_B('all')
    def _all(ex, it):
        for x in ex.iterate(it):
            if not ex.truth(x):
                return False
        return True

    @_B('isinstance')
    def _isinstance(ex, v, t):
        ts = t if isinstance(t, tuple) else (t,)
        for c in ts:
            if isinstance(c, Builtin) and c.name in ('str', 'int', 'float', 'bool', 'list', 'tuple', 'dict', 'set'):
                c = PyClassRef(c.name)
            if isinstance(c, ClassRef):
                if isinstance(v, Obj) and v.cls is not None and v.cls.is_subclass_of(c.info.name):
                    return True
            elif isinstance(c, PyClassRef):
                if c.name == 'int' and (isinstance(v, int) and not isinstance(v, bool) or isinstance(v, Sym) and v.is_int):
                    return True
                if c.name == 'float' and (isinstance(v, float) or isinstance(v, Sym) and v.is_real):
                    return True
                if c.name == 'str' and isinstance(v, (str, SStr)):
                    return True
                if c.name == 'bool' and (isinstance(v, bool) or isinstance(v, Sym) and v.is_bool):
                    return True
                if c.name in ('list', 'tuple', 'dict', 'set') and type(v).__name__ == c.name:
                    return True
                if c.name == 'PathLike' and type(v).__name__ == 'PyPath':
                    return True
            elif isinstance(c, Opaque):
                if isinstance(v, (Obj, str, SStr, int, float, Sym, list, tuple, dict)) or v is None:
                    # typing aliases such as _PathLikeTypes
                    if 'PathLike' in c.what:
                        return isinstance(v, str)
                raise Unsupported('isinstance against opaque %s' % c.what)
            else:
                raise Unsupported('isinstance target %r' % (c,))
        return False

    @_B('hasattr')
    def _hasattr(ex, o, name):
        try:
            ex.getattr(o, name)
            return True
        except PyRaise:
            return False

    @_B('getattr')
    def _getattr(ex, o, name, *default):
        try:
            return ex.getattr(o, name)
        except PyRaise:
            if default:
                return default[0]
            raise

    @_B('setattr')
    def _setattr(ex, o, name, v):
        ex.setattr(o, name, v)

    @_B('id')
    def _id(ex, o):
        return Opaque('id')

    @_B('round')
    def _round(ex, v, nd=None):
        if isinstance(v, Sym):
            # model: the result r is a multiple of 10**-nd with |r - v| <= 0.5 * 10**-nd
            # (ties: either neighbour - weaker than CPython's round-half-even, hence sound)
            n = 0 if nd is None else nd
            if not isinstance(n, int):
                raise Unsupported('round with symbolic digits')
            key = ('round', n, ex.ctx._key(v.e))
            if key in ex.ctx.cache:
                return ex.ctx.cache[key]
            k = ex.ctx.fresh('round_k', 'int')
            scale = 10 ** n
            r = Sym(z3.ToReal(k.e) / scale)
            half = z3.RealVal(1) / (2 * scale)
            ex.ctx.assume(z3.And(r.e - to_z3_num(v, True) <= half, to_z3_num(v, True) - r.e <= half), kind='def')
            ex.ctx.cache[key] = r if nd is not None else k
            return ex.ctx.cache[key]
        if isinstance(v, float) and nd is not None:
            from decimal import Decimal
            return float(round(Decimal(repr(v)), nd))      # A-REAL: the float denotes its decimal repr
        return round(v, nd) if nd is not None else round(v)

    @_B('float')
    def _float(ex, v=0.0):
        if isinstance(v, Sym):
            if v.is_real:
                return v
            return Sym(z3.ToReal(to_z3_num(v)))
        if isinstance(v, SStr):
            return ex.parse_float(v) if hasattr(ex, 'parse_float') else _unsupported('float(symbolic string)')
        if isinstance(v, (int, float)):
            return float(v)
        if isinstance(v, str):
            try:
                return float(v)
            except ValueError:
                raise PyRaise('ValueError', 'float()')
        if v is None:
            raise PyRaise('TypeError', 'float(None)')
        raise Unsupported('float(%r)' % type(v).__name__)

    @_B('int')
    def _int(ex, v=0, base=10):
        if isinstance(v, (str, SStr)):
            return py_int_of_string(ex, v, base)
        if isinstance(v, Sym):
            if v.is_int:
                return v
            # truncation toward zero
            e = v.e
            return Sym(simp(z3.If(e >= 0, z3.ToInt(e), -z3.ToInt(-e))))
        if isinstance(v, (int, float)):
            if isinstance(v, float) and (v != v or abs(v) == math.inf):
                raise PyRaise('OverflowError' if v == v else 'ValueError')
            return int(v)
        if v is None:
            raise PyRaise('TypeError', 'int(None)')
        raise Unsupported('int(%r)' % type(v).__name__)

    @_B('str')
    def _str(ex, v=''):
        if isinstance(v, (str, SStr)):
            return v
        if isinstance(v, (int, float, bool)) or v is None:
            return str(v)
        return Opaque('str()')

    @_B('bool')
    def _bool(ex, v=False):
        return ex.truth(v)

    @_B('ord')
    def _ord(ex, s):
        c = str_chars(s)
        if len(c) != 1:
            raise PyRaise('TypeError', 'ord() expected a character')
        return c[0]

    @_B('chr')
    def _chr(ex, c):
        if isinstance(c, Sym):
            return SStr([c])
        return chr(c)

    @_B('type')
    def _type(ex, v):
        return Opaque('type')

    @_B('print')
    def _print(ex, *a, **k):
        return None

    @_B('open')
    def _open(ex, *a, **k):
        raise Unsupported('open()')

    # ---- math
    @_B('math.sqrt')
    def _sqrt(ex, x):
        return ex.m_sqrt(x)

    @_B('math.sin')
    def _sin(ex, x):
        if isinstance(x, Sym):
            return ex.ctx.sin(x)
        if x == 0:
            return 0.0
        return ex.ctx.sin(Sym(to_z3_num(x, True)))

    @_B('math.cos')
    def _cos(ex, x):
        if isinstance(x, Sym):
            return ex.ctx.cos(x)
        if x == 0:
            return 1.0
        return ex.ctx.cos(Sym(to_z3_num(x, True)))

    @_B('math.asin')
    def _asin(ex, x):
        if isinstance(x, Sym):
            if ex.ctx.branch(Or(compare('<', x, -1), compare('>', x, 1))):
                raise PyRaise('ValueError', 'math domain error')
            return ex.ctx.asin(x)
        if not -1 <= x <= 1:
            raise PyRaise('ValueError', 'math domain error')
        return ex.ctx.asin(Sym(to_z3_num(x, True)))

    @_B('math.acos')
    def _acos(ex, x):
        if isinstance(x, Sym):
            if ex.ctx.branch(Or(compare('<', x, -1), compare('>', x, 1))):
                raise PyRaise('ValueError', 'math domain error')
            return ex.ctx.acos(x)
        if not -1 <= x <= 1:
            raise PyRaise('ValueError', 'math domain error')
        return ex.ctx.acos(Sym(to_z3_num(x, True)))

    @_B('math.log10')
    def _log10(ex, x):
        if isinstance(x, Sym):
            if ex.ctx.branch(compare('<=', x, 0)):
                raise PyRaise('ValueError', 'math domain error')
            return ex.ctx.log10(x)
        if x <= 0:
            raise PyRaise('ValueError', 'math domain error')
        return ex.ctx.log10(Sym(to_z3_num(x, True)))

    @_B('math.pow')
    def _pow(ex, a, b):
        return ex.power(a, b)

    @_B('math.floor')
    def _floor(ex, x):
        if isinstance(x, Sym):
            if x.is_int:
                return x
            return Sym(z3.ToInt(x.e))
        return math.floor(x)

    @_B('math.fabs')
    def _fabs(ex, x):
        return _abs(ex, x)

    @_B('math.radians')
    def _radians(ex, x):
        from fractions import Fraction
        if isinstance(x, Sym):
            return Sym(x.e * ex.ctx.PI / 180)
        q = Fraction(repr(float(x))) / 180
        return Sym(z3.RealVal(str(q)) * ex.ctx.PI)

    @_B('math.degrees')
    def _degrees(ex, x):
        if isinstance(x, Sym):
            return Sym(x.e * 180 / ex.ctx.PI)
        return math.degrees(x)

    @_B('math.copysign')
    def _copysign(ex, a, b):
        if isinstance(a, Sym) or isinstance(b, Sym):
            mag = _abs(ex, a)
            # note: copysign(x, 0.0) is +x, copysign(x, -0.0) is -x; reals have one zero
            if ex.truth(compare('>=', b, 0)):
                return mag
            return arith('-', 0, mag)
        return math.copysign(a, b)

    @_B('math.hypot')
    def _hypot(ex, *xs):
        s = 0
        for x in xs:
            s = ex.binop(__import__('ast').Add(), s, ex.binop(__import__('ast').Mult(), x, x))
        return ex.m_sqrt(s)

    @_B('math.isclose')
    def _isclose(ex, *a, **k):
        raise Unsupported('math.isclose')

    @_B('contextlib.nullcontext')
    def _nullcontext(ex, x=None):
        return x

    @_B('contextlib.closing')
    def _closing(ex, x):
        return x

    @_B('pathlib.Path')
    def _path(ex, p):
        from .core import PyPath
        if isinstance(p, PyPath):
            return p
        if isinstance(p, str):
            return PyPath(p)
        raise Unsupported('Path of %r' % type(p).__name__)

    @_B('json.load')
    def _json_load(ex, f):
        # data files shipped with the repository are read concretely from the working tree
        import json as _json
        from .core import PyPath
        if isinstance(f, PyPath):
            return _json.load(open(f.p))
        raise Unsupported('json.load of %r' % (f,))

    @_B('decimal.Decimal')
    def _decimal(ex, v):
        # A-REAL: Decimal(x) is the exact value of x; decimal arithmetic = real arithmetic
        if isinstance(v, (Sym, int, float)):
            return v
        raise Unsupported('Decimal of %r' % type(v).__name__)


def _unsupported(msg):
    raise Unsupported(msg)


# ---------------------------------------------------------------- int(str) model
DIGIT0, DIGIT9 = 48, 57


def _is_digit(c):
    return And(compare('>=', c, DIGIT0), compare('<=', c, DIGIT9))


def _in_codes(c, codes):
    if isinstance(c, int):
        return c in codes
    return Or(*[compare('==', c, k) for k in codes])


def strip_forks(ex, chars, strip_set=WS):
    """Model of str.strip(): forks on how many leading/trailing characters are stripped."""
    chars = list(chars)
    lo = 0
    while lo < len(chars) and ex.truth(_in_codes(chars[lo], strip_set)):
        lo += 1
    hi = len(chars)
    while hi > lo and ex.truth(_in_codes(chars[hi - 1], strip_set)):
        hi -= 1
    return chars[lo:hi]


def digit_value36(ex, c):
    """Value of an ASCII alphanumeric in base 36, or None (forks)."""
    if isinstance(c, int):
        ch = chr(c)
        if ch.isdigit() and c < 128:
            return c - 48
        if 'a' <= ch <= 'z':
            return c - 87
        if 'A' <= ch <= 'Z':
            return c - 55
        return None
    if ex.truth(_is_digit(c)):
        return arith('-', c, 48)
    if ex.truth(And(compare('>=', c, 97), compare('<=', c, 122))):
        return arith('-', c, 87)
    if ex.truth(And(compare('>=', c, 65), compare('<=', c, 90))):
        return arith('-', c, 55)
    return None


def py_int_of_string(ex, s, base=10):
    """CPython int(str, base) for base 10 / 36 over ASCII (A-ASCII): optional
    surrounding whitespace, optional sign, digits with single underscores
    BETWEEN digits.  Anything else raises ValueError."""
    if base not in (10, 36):
        raise Unsupported('int() base %r' % base)
    chars = strip_forks(ex, str_chars(s))
    sign = 1
    if chars and ex.truth(_in_codes(chars[0], (43, 45))):
        if ex.truth(compare('==', chars[0], 45)) if not isinstance(chars[0], int) else chars[0] == 45:
            sign = -1
        chars = chars[1:]
    if not chars:
        raise PyRaise('ValueError', 'invalid literal for int()')
    val = 0
    prev_us = True      # an underscore may not come first
    for c in chars:
        is_us = _in_codes(c, (95,))
        if ex.truth(is_us):
            if prev_us:
                raise PyRaise('ValueError', 'invalid literal for int()')
            prev_us = True
            continue
        if base == 10:
            if not ex.truth(_is_digit(c)):
                raise PyRaise('ValueError', 'invalid literal for int()')
            d = c - 48 if isinstance(c, int) else arith('-', c, 48)
        else:
            d = digit_value36(ex, c)
            if d is None:
                raise PyRaise('ValueError', 'invalid literal for int()')
        val = ex.binop(__import__('ast').Add(), ex.binop(__import__('ast').Mult(), val, base), d)
        prev_us = False
    if prev_us:
        raise PyRaise('ValueError', 'invalid literal for int()')
    if sign == -1:
        return arith('-', 0, val) if isinstance(val, Sym) else -val
    return val


# ---------------------------------------------------------------- methods of builtin types
def _str_method(s, name):
    def strip(ex, chars=None):
        cs = WS if chars is None else tuple(str_chars(chars))
        return mk_str(strip_forks(ex, str_chars(s), cs))

    def lstrip(ex, chars=None):
        cs = WS if chars is None else tuple(str_chars(chars))
        c = list(str_chars(s))
        lo = 0
        while lo < len(c) and ex.truth(_in_codes(c[lo], cs)):
            lo += 1
        return mk_str(c[lo:])

    def rstrip(ex, chars=None):
        cs = WS if chars is None else tuple(str_chars(chars))
        c = list(str_chars(s))
        hi = len(c)
        while hi > 0 and ex.truth(_in_codes(c[hi - 1], cs)):
            hi -= 1
        return mk_str(c[:hi])

    def startswith(ex, p):
        pc = str_chars(p)
        c = str_chars(s)
        if len(pc) > len(c):
            return False
        return ex.equals(mk_str(c[:len(pc)]), p)

    def endswith(ex, p):
        pc = str_chars(p)
        c = str_chars(s)
        if len(pc) > len(c):
            return False
        return ex.equals(mk_str(c[len(c) - len(pc):]), p)

    def lower(ex):
        out = []
        for c in str_chars(s):
            if isinstance(c, int):
                out.append(ord(chr(c).lower()) if c < 128 else c)
            else:
                if ex.truth(And(compare('>=', c, 65), compare('<=', c, 90))):
                    out.append(arith('+', c, 32))
                else:
                    out.append(c)
        return mk_str(out)

    def upper(ex):
        out = []
        for c in str_chars(s):
            if isinstance(c, int):
                out.append(ord(chr(c).upper()) if c < 128 else c)
            else:
                if ex.truth(And(compare('>=', c, 97), compare('<=', c, 122))):
                    out.append(arith('-', c, 32))
                else:
                    out.append(c)
        return mk_str(out)

    def fmt(ex, *a, **k):
        if isinstance(s, str) and all(isinstance(x, (int, float, str, bool)) or x is None for x in list(a) + list(k.values())):
            try:
                return s.format(*a, **k)
            except (ValueError, IndexError, KeyError, TypeError) as e:
                raise PyRaise(type(e).__name__, str(e))
        if isinstance(s, str):
            import re as _re
            import string as _string
            from .core import PyPath
            # '{:s}' / '{0:>9s}' on a value that is not a string is a TypeError in CPython
            auto = 0
            for _lit, field, spec, conv in _string.Formatter().parse(s):
                if field is None:
                    continue
                head = field.split('.')[0].split('[')[0]
                if head == '':
                    v = a[auto] if auto < len(a) else None
                    auto += 1
                elif head.isdigit():
                    v = a[int(head)] if int(head) < len(a) else None
                else:
                    v = k.get(head)
                plain = ('.' not in field and '[' not in field)
                if plain and conv is None and spec and spec.endswith('s') and isinstance(v, (PyPath, int, float, Sym, list, tuple, dict)) \
                        and not isinstance(v, bool):
                    raise PyRaise('TypeError', 'unsupported format string passed to %s.__format__' % type(v).__name__)
            # pure string fields '{0:1s}{1:s}' on (symbolic) strings that need no padding: plain concatenation
            toks = _re.split(r'(\{\d+(?::\d*s)?\})', s)
            out, ok = [], not k
            for t in toks:
                m = _re.fullmatch(r'\{(\d+)(?::(\d*)s)?\}', t)
                if m:
                    i, w = int(m.group(1)), int(m.group(2) or 0)
                    if i < len(a) and isinstance(a[i], (str, SStr)) and len(a[i]) >= w:
                        out.extend(str_chars(a[i]))
                    else:
                        ok = False
                        break
                elif '{' in t or '}' in t:
                    ok = False
                    break
                else:
                    out.extend(ord(c) for c in t)
            if ok:
                return mk_str(out)
            return FmtStr([('fmt', s, list(a), dict(k))])
        return Opaque('str.format')

    def count(ex, sub):
        if isinstance(s, str) and isinstance(sub, str):
            return s.count(sub)
        sc = str_chars(sub)
        if len(sc) != 1:
            raise Unsupported('count of multi-char substring in symbolic string')
        n = 0
        for c in str_chars(s):
            if ex.truth(ex.equals(mk_str([c]), sub)):
                n += 1
        return n

    def split(ex, sep=None, maxsplit=-1):
        if isinstance(s, str) and (sep is None or isinstance(sep, str)):
            return s.split(sep, maxsplit)
        if isinstance(sep, str) and len(sep) == 1 and maxsplit == -1:
            # forks on every character: is it the separator?
            parts, cur = [], []
            for c in str_chars(s):
                hit = (c == ord(sep)) if isinstance(c, int) else ex.truth(compare('==', c, ord(sep)))
                if hit:
                    parts.append(mk_str(cur))
                    cur = []
                else:
                    cur.append(c)
            parts.append(mk_str(cur))
            return parts
        raise Unsupported('split of symbolic string')

    def join(ex, it):
        items = ex.iterate(it)
        out = []
        for i, x in enumerate(items):
            if i:
                out.extend(str_chars(s))
            out.extend(str_chars(x))
        return mk_str(out)

    def isdigit(ex):
        c = str_chars(s)
        if not c:
            return False
        return And(*[_is_digit(x) if not isinstance(x, int) else chr(x).isdigit() for x in c])

    def replace(ex, a, b):
        if isinstance(s, str) and isinstance(a, str) and isinstance(b, str):
            return s.replace(a, b)
        raise Unsupported('replace on symbolic string')

    def ljust(ex, n, fill=' '):
        c = list(str_chars(s))
        return mk_str(c + [ord(fill)] * max(0, n - len(c)))

    def rjust(ex, n, fill=' '):
        c = list(str_chars(s))
        return mk_str([ord(fill)] * max(0, n - len(c)) + c)

    def concrete_only(fn):
        def f(ex, *a):
            if isinstance(s, str) and all(isinstance(x, (str, int)) for x in a):
                return getattr(s, fn)(*a)
            raise Unsupported('str.%s on a symbolic string' % fn)
        return f

    table = {'strip': strip, 'lstrip': lstrip, 'rstrip': rstrip, 'startswith': startswith,
             'capitalize': concrete_only('capitalize'), 'title': concrete_only('title'), 'find': concrete_only('find'),
             'isalpha': concrete_only('isalpha'), 'isupper': concrete_only('isupper'), 'islower': concrete_only('islower'),
             'zfill': concrete_only('zfill'), 'center': concrete_only('center'), 'index': concrete_only('index'),
             'endswith': endswith, 'lower': lower, 'upper': upper, 'format': fmt, 'count': count,
             'split': split, 'join': join, 'isdigit': isdigit, 'replace': replace,
             'ljust': ljust, 'rjust': rjust}
    if name not in table:
        raise Unsupported('str.%s' % name)
    return table[name]


def _list_method(lst, name):
    def append(ex, x):
        lst.append(x)

    def extend(ex, it):
        lst.extend(ex.iterate(it))

    def remove(ex, x):
        for i, y in enumerate(lst):
            if y is x or ex.truth(ex.equals(y, x)):
                del lst[i]
                return None
        raise PyRaise('ValueError', 'list.remove(x): x not in list')

    def index(ex, x, start=0):
        for i, y in enumerate(lst):
            if i >= start and (y is x or ex.truth(ex.equals(y, x))):
                return i
        raise PyRaise('ValueError', 'not in list')

    def pop(ex, i=-1):
        try:
            return lst.pop(i)
        except IndexError:
            raise PyRaise('IndexError')

    def insert(ex, i, x):
        lst.insert(i, x)

    def sort(ex, key=None, reverse=False):
        res = BUILTINS['sorted'].fn(ex, list(lst), key=key, reverse=reverse)
        lst[:] = res

    def count(ex, x):
        return sum(1 for y in lst if y is x or ex.truth(ex.equals(y, x)))

    def copy(ex):
        return list(lst)

    def reverse(ex):
        lst.reverse()

    def clear(ex):
        del lst[:]

    table = {'append': append, 'extend': extend, 'remove': remove, 'index': index, 'pop': pop,
             'insert': insert, 'sort': sort, 'count': count, 'copy': copy, 'reverse': reverse,
             'clear': clear}
    if name not in table:
        raise Unsupported('list.%s' % name)
    return table[name]


def _dict_method(d, name):
    def keys(ex):
        return list(d.keys())

    def values(ex):
        return list(d.values())

    def items(ex):
        return list(d.items())

    def get(ex, k, default=None):
        from .core import dict_find, MISSING
        key = dict_find(ex, d, k)
        return default if key is MISSING else d[key]

    def setdefault(ex, k, default=None):
        from .core import dict_find, MISSING, _hashable
        key = dict_find(ex, d, k)
        if key is MISSING:
            d[_hashable(k)] = default
            return default
        return d[key]

    def update(ex, other=(), **kw):
        d.update(other)
        d.update(kw)

    def pop(ex, k, *default):
        try:
            return d.pop(k, *default)
        except KeyError:
            raise PyRaise('KeyError')

    def copy(ex):
        return dict(d)

    table = {'keys': keys, 'values': values, 'items': items, 'get': get, 'setdefault': setdefault,
             'update': update, 'pop': pop, 'copy': copy}
    if name not in table:
        raise Unsupported('dict.%s' % name)
    return table[name]


def _set_method(s, name):
    from .core import check_hashable

    def add(ex, x):
        s.add(check_hashable(x))

    def pop(ex):
        if not s:
            raise PyRaise('KeyError')
        h = getattr(ex, 'on_set_pop', None)
        if h:
            return h(s)
        return s.pop()

    def discard(ex, x):
        s.discard(x)

    def remove(ex, x):
        if x not in s:
            raise PyRaise('KeyError')
        s.remove(x)

    def union(ex, *o):
        return s.union(*[set(ex.iterate(x)) for x in o])

    def update(ex, *o):
        for x in o:
            s.update(check_hashable(y) for y in ex.iterate(x))

    table = {'add': add, 'pop': pop, 'discard': discard, 'remove': remove, 'union': union, 'update': update}
    if name not in table:
        raise Unsupported('set.%s' % name)
    return table[name]


install()
