"""pyvc - verification-condition generator over the real AST of /repo/propka.

The engine symbolically executes FunctionDef nodes parsed from the current
working tree of the repository (never a copy), under the value model described
in /verif/DESIGN.md section 1, and emits proof obligations that are discharged
by z3 / cvc5.  See core.py (executor), solve.py (back ends), frame.py (census),
"""
import os

REPO = os.environ.get("VERIF_REPO", "/repo")
