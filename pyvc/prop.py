"""Property run: collects obligations (VC / FRAME / GROUND) and bounded results,
discharges, replays counter-models on the real code, applies known findings,
writes evidence, prints VIOLATION / KNOWN-FINDING / UNDECIDED lines, returns exit code."""
import hashlib
import json
import os
import subprocess
import sys
import time
import traceback

import z3

from . import REPO
from .ctx import Obligation
from .solve import discharge

VERIF = os.path.dirname(os.path.dirname(os.path.abspath(__file__)))
VENV_PY = '/venv/bin/python'

STD_TRUSTED = [
    'pyvc symbolic executor (semantics of the Python subset; differential-tested against CPython in selftest)',
    'z3 4.x/5.x and cvc5 as SMT back ends',
    'A-REAL: Python floats are treated as mathematical reals (decimal value of literals)',
    'A-ASCII: strings are vectors of ASCII code points',
    'A-LOG: logging/warnings/print calls are no-ops that cannot raise',
    'A-TRIG/A-EXP: sin, cos, asin, acos, 10**x, log10 axiomatised by their real-number facts instantiated on occurring terms',
]


class Ground:
    """A closed obligation decided by exhaustive evaluation (GROUND) or by the
    syntactic frame checker (FRAME)."""

    def __init__(self, name, ok, detail='', kind='top', backend='ground', witness=None, replay=None):
        self.name = name
        self.ok = ok
        self.detail = detail
        self.kind = kind
        self.backend = backend
        self.witness = witness
        self.replay = replay        # python snippet reproducing the failure on the real code


class PropertyRun:
    def __init__(self, pid, tier='quick', seed=0):
        self.pid = pid
        self.tier = tier
        self.seed = seed
        self.t0 = time.time()
        self.obligations = []       # Obligation
        self.records = []           # solved obligations (dicts), incl. those from parallel sub-runs
        self.grounds = []           # Ground
        self.functions = {}         # fullname -> sha
        self.inlined = set()
        self.assumptions = []
        self.bounded = []           # dicts: name, evaluations, distinct, rule, bound, violations [ {what, replay} ]
        self.undecided = []
        self.notes = []
        self.samples = []
        self.violations = []        # (obligation name, replay path, found_input: bool)
        self.known_hits = []
        self.level = 'proof'
        self.explanation = ''
        self.crashed = None

    # ------------------------------------------------------------ collection
    def under_contract(self, fi, how='verified'):
        self.functions[fi.fullname] = {'sha256_16': fi.sha(), 'how': how}

    def add_paths(self, paths):
        for ctx, kind, val in paths:
            self.obligations.extend(ctx.obligations)
            for callee, how in ctx.calls:
                if how == 'inlined':
                    self.inlined.add(callee)

    def explore(self, ex, thunk, what, **kw):
        """run_paths with 'function left the supported subset' turned into an undecided entry."""
        from .values import Unsupported
        try:
            paths = ex.run_paths(thunk, **kw)
        except Unsupported as e:
            self.unsupported(what, e)
            return []
        except RecursionError as e:
            self.unsupported(what, 'recursion limit: %s' % e)
            return []
        except (KeyError, AttributeError, IndexError, TypeError, ValueError, AssertionError, NameError) as e:
            # the harness could not follow the shape of the code (renamed local, moved statement ...): undecided, never an alarm
            import traceback
            self.undecided.append({'obligation': what, 'reason': 'harness does not fit the code on this tree (%s: %s) at %s' % (
                type(e).__name__, str(e)[:120], traceback.format_exc().strip().splitlines()[-3].strip()[:120])})
            return []
        self.add_paths(paths)
        for ctx, kind, val in paths:
            if kind == 'raise' and not ctx.obligations:
                self.undecided.append({'obligation': what, 'reason': 'a path of the harness ended in %s (%s) without '
                                       'any obligation' % (val.exc_name, str(val.msg)[:200])})
        return paths

    def add(self, ob):
        if isinstance(ob, Ground):
            self.grounds.append(ob)
        else:
            self.obligations.append(ob)

    def unsupported(self, name, exc):
        """A function left the supported subset: auxiliary failure -> undecided."""
        self.undecided.append({'obligation': name, 'reason': 'not within reach: %s' % exc})

    # ------------------------------------------------------------ deciding
    def known_findings(self):
        path = os.path.join(VERIF, 'known_findings.json')
        if not os.path.exists(path):
            return []
        data = json.load(open(path))
        return [f for f in data.get('findings', []) if f.get('property') == self.pid and f.get('status') == 'known']

    def _replay_path(self, obname, payload):
        h = hashlib.sha256(json.dumps(payload, sort_keys=True, default=str).encode()).hexdigest()[:10]
        d = os.path.join(VERIF, 'replays')
        os.makedirs(d, exist_ok=True)
        safe = ''.join(c if c.isalnum() or c in '-_.' else '_' for c in obname)[:80]
        return os.path.join(d, '%s-%s-%s.json' % (self.pid, safe, h))

    def run_replay_script(self, script, timeout=300):
        """Run a python snippet on the real code; it must exit 1 iff the violation reproduces."""
        env = dict(os.environ)
        env['PYTHONPATH'] = REPO + os.pathsep + VERIF
        try:
            p = subprocess.run([VENV_PY, '-c', script], capture_output=True, text=True, timeout=timeout,
                               env=env, cwd=VERIF)
            return p.returncode, (p.stdout + p.stderr)[-4000:]
        except subprocess.TimeoutExpired:
            return 2, 'replay timed out'

    # ------------------------------------------------------------ parallel sub-runs
    def parallel(self, tasks, workers=16):
        """tasks: list of (function, args).  Each runs function(sub_run, repo, *args) in a forked
        worker that explores AND discharges its own obligations; records come back here."""
        import multiprocessing as mp
        from concurrent.futures import ProcessPoolExecutor
        # a task may be given as (function, args, 'support'): its contracts are lemmas this property's argument RESTS ON but that
        # are stronger than the property needs (e.g. the exact rotation formula for frame independence).  Refuting one of them breaks
        # the proof chain - UNDECIDED for this property - but is not by itself a violation of this property.
        jobs = [(self.pid, self.tier, self.seed, t[0].__module__, t[0].__name__, t[1], len(t) > 2 and t[2] == 'support') for t in tasks]
        if not jobs:
            return
        with ProcessPoolExecutor(max_workers=min(workers, len(jobs)), mp_context=mp.get_context('fork')) as pool:
            for res in pool.map(_sub_run, jobs):
                self.merge(res)

    def merge(self, res):
        self.records.extend(res['records'])
        self.grounds.extend(Ground(**g) for g in res['grounds'])
        self.functions.update(res['functions'])
        self.inlined.update(res['inlined'])
        self.undecided.extend(res['undecided'])
        self.notes.extend(res['notes'])
        self.samples.extend(res['samples'])
        for a in res['assumptions']:
            if a not in self.assumptions:
                self.assumptions.append(a)
        self.bounded.extend(res['bounded'])

    def vacuity_guard(self, budget=12):
        """Contradictory hypotheses prove anything.  A sample of the proved obligations of every task gets its hypotheses checked for satisfiability; an unsatisfiable set is reported as UNDECIDED (vacuous)."""
        import random as _r
        import z3 as _z3
        obs = [o for o in self.obligations if getattr(o, 'status', None) == 'proved' and o.hyps]
        # (an obligation whose goal is literally False states 'this path is unreachable': contradictory hypotheses ARE its proof)
        rest = [o for o in obs if not _z3.is_false(o.goal)]
        rng = _r.Random(len(obs))
        sample = rest[:2] + (rng.sample(rest[2:], min(budget, len(rest) - 2)) if len(rest) > 2 else [])
        seen = set()
        for o in sample:
            key = tuple(h.get_id() for h in o.hyps)
            if key in seen:
                continue
            seen.add(key)
            s_ = _z3.Solver()
            s_.set('timeout', 3000)
            for h in o.hyps:
                s_.add(h)
            if s_.check() == _z3.unsat:
                if o.meta.get('expect') == 'refuted':
                    continue
                o.status = 'unknown'
                self.undecided.append({'obligation': o.name, 'reason': 'VACUOUS: the hypotheses of this obligation are contradictory '
                                       '(an assumption of the harness or a contract excludes every state)'})

    def export(self, timeout_ms):
        discharge(self.obligations, timeout_ms=timeout_ms, workers=1)
        self.vacuity_guard()
        return {'records': [self._record(o) for o in self.obligations] + self.records,
                'grounds': [dict(name=g.name, ok=g.ok, detail=g.detail, kind=g.kind, backend=g.backend,
                                 witness=g.witness, replay=g.replay) for g in self.grounds],
                'functions': self.functions, 'inlined': sorted(self.inlined), 'undecided': self.undecided,
                'notes': self.notes, 'samples': self.samples[:4], 'assumptions': self.assumptions,
                'bounded': self.bounded}

    @staticmethod
    def _record(ob):
        rec = {'name': ob.name, 'kind': ob.kind, 'status': ob.status, 'backend': ob.backend,
               'seconds': ob.seconds, 'model': ob.model, 'expect': ob.meta.get('expect'),
               'exact': ob.meta.get('exact', True), 'goal': (_short(ob.goal) if ob.status == 'refuted' else ''), 'script': None,
               'has_builder': ob.meta.get('replay') is not None}
        if ob.status == 'refuted' and ob.meta.get('replay') is not None:
            try:
                rec['script'] = ob.meta['replay'](ob.model)
            except Exception as e:
                rec['replay_error'] = repr(e)
        return rec

    def finish(self, timeout_ms=None, workers=None):
        try:
            return self._finish(timeout_ms, workers)
        except Exception:
            traceback.print_exc()
            print('CHECKER-CRASH property=%s' % self.pid)
            return 3

    def _finish(self, timeout_ms, workers):
        if timeout_ms is None:
            timeout_ms = 30000 if self.tier == 'quick' else 120000
        discharge(self.obligations, timeout_ms=timeout_ms, workers=workers)
        self.vacuity_guard()
        self.records = [self._record(o) for o in self.obligations] + self.records
        known = self.known_findings()
        n_ob = len(self.records) + len(self.grounds)
        if n_ob == 0:
            print('CHECKER-CRASH property=%s zero obligations generated (vacuity guard)' % self.pid)
            return 3
        discharged = 0
        solver_s = 0.0
        backends = {}
        for ob in self.records:
            solver_s += ob['seconds'] or 0.0
            backends[ob['backend']] = backends.get(ob['backend'], 0) + 1
            if ob.get('expect') == 'refuted':
                # vacuity guard: a deliberately false post must be refuted
                if ob['status'] == 'refuted':
                    discharged += 1
                elif ob['status'] == 'proved':
                    print('CHECKER-CRASH property=%s vacuity guard %s was PROVED: contradictory hypotheses' % (self.pid, ob['name']))
                    return 3
                else:
                    self.undecided.append({'obligation': ob['name'], 'reason': 'vacuity guard undecided'})
                continue
            if ob['status'] == 'proved':
                discharged += 1
            elif ob['status'] == 'unknown':
                self.undecided.append({'obligation': ob['name'], 'reason': 'solver unknown/timeout (%s, %.1fs)' % (ob['backend'], ob['seconds'])})
            else:
                self._handle_refuted(ob, known)
        for g in self.grounds:
            backends[g.backend] = backends.get(g.backend, 0) + 1
            if g.ok:
                discharged += 1
            else:
                self._handle_ground_fail(g, known)
        for b in self.bounded:
            for v in b.get('violations', []):
                self._handle_bounded_violation(b, v, known)
        # ---- vacuity guard: obligations the property module declares as required must have been generated
        names = [r['name'] for r in self.records] + [g.name for g in self.grounds]
        for req in getattr(self, 'required', []):
            if not any(n.startswith(req) for n in names):
                self.undecided.append({'obligation': req, 'reason': 'required obligation was not generated on this tree '
                                       '(the code left the shape the harness expects)'})
        # ---- evidence
        level = self.level
        explanation = self.explanation
        if self.undecided:
            level = 'other'
            explanation = ('proof not re-established on this tree for %d obligation(s); bounded only for those. '
                           % len(self.undecided)) + explanation
        cov = {
            'obligations': n_ob,
            'discharged': discharged,
            'checker_cmd': './check %s --tier %s' % (self.pid, self.tier),
            'trusted_base': STD_TRUSTED,
            'by_backend': backends,
            'solver_seconds': round(solver_s, 2),
            'functions_under_contract': self.functions,
            'functions_inlined_into_callers': sorted(self.inlined),
            'undecided': self.undecided,
            'obligation_list': ([{'name': o['name'], 'kind': o['kind'], 'status': o['status'], 'backend': o['backend'],
                                  'seconds': round(o['seconds'] or 0, 2)} for o in self.records] +
                                [{'name': g.name, 'kind': g.kind, 'status': 'proved' if g.ok else 'refuted',
                                  'backend': g.backend, 'detail': g.detail[:300]} for g in self.grounds]),
            'bounded_stand_ins': [{k: v for k, v in b.items() if k != 'violations'} for b in self.bounded],
            'known_findings_reported': self.known_hits,
            'samples': self.samples[:8] or [o['name'] for o in self.records[:5]] + [g.name for g in self.grounds[:5]],
            'explanation': explanation or 'all obligations are VC/FRAME/GROUND obligations generated from the working tree',
            'notes': self.notes,
        }
        ev = sum(b.get('evaluations', 0) for b in self.bounded)
        dn = sum(b.get('distinct_nontrivial', 0) for b in self.bounded)
        if ev:
            cov['evaluations'] = ev
            cov['distinct_nontrivial'] = dn
            cov['rule'] = '; '.join('%s: %s' % (b['name'], b.get('rule', '')) for b in self.bounded)
        evidence = {
            'property_id': self.pid,
            'tier': self.tier,
            'seed': self.seed,
            'level': level,
            'coverage': cov,
            'assumptions': STD_TRUSTED + self.assumptions,
            'wall_s': round(time.time() - self.t0, 2),
            'violations': len(self.violations),
        }
        os.makedirs(os.path.join(VERIF, 'evidence'), exist_ok=True)
        with open(os.path.join(VERIF, 'evidence', '%s.json' % self.pid), 'w') as f:
            json.dump(evidence, f, indent=1, default=str)
        for u in self.undecided:
            print('UNDECIDED property=%s obligation=%s (%s)' % (self.pid, u['obligation'], u['reason']))
        for k in dict.fromkeys(self.known_hits):        # each finding once
            print('KNOWN-FINDING: property=%s %s' % (self.pid, k))
        for name, path, found in self.violations:
            print('VIOLATION property=%s replay=%s%s' % (self.pid, path, '' if found else ' no-failing-input-found'))
        print('%s: %d/%d obligations discharged, %d undecided, %d violation(s), %.1fs'
              % (self.pid, discharged, n_ob, len(self.undecided), len(self.violations), time.time() - self.t0))
        return 1 if self.violations else 0

    # ------------------------------------------------------------ failures
    def _known_match(self, known, name, text=''):
        for f in known:
            if f.get('obligation') == name or (f.get('match') and f['match'] in (name + ' ' + text)):
                return f
        return None

    def _handle_refuted(self, ob, known):
        name = ob['name']
        k = self._known_match(known, name)
        payload = {'property': self.pid, 'obligation': name, 'kind': ob['kind'],
                   'solver': ob['backend'], 'model': ob['model'], 'goal': ob['goal']}
        reproduced = None
        if ob.get('replay_error'):
            payload['replay_error'] = ob['replay_error']
        if ob.get('script'):
            rc, out = self.run_replay_script(ob['script'])
            payload['replay_script'] = ob['script']
            payload['replay_output'] = out
            reproduced = (rc == 1)
            payload['reproduced_on_real_code'] = reproduced
        if k is not None:
            self.known_hits.append('%s [%s]' % (k.get('what', name), name))
            return
        if reproduced:
            path = self._replay_path(name, payload)
            json.dump(payload, open(path, 'w'), indent=1, default=str)
            self.violations.append((name, path, True))
        elif ob['kind'] == 'top' and ob.get('exact', True):
            # exact top-level obligation refuted; no input that fails on the real code was obtained
            # (no replay builder, or the model lives in the abstraction only)
            path = self._replay_path(name, payload)
            json.dump(payload, open(path, 'w'), indent=1, default=str)
            self.violations.append((name, path, False))
        else:
            self.undecided.append({'obligation': name,
                                   'reason': 'auxiliary obligation refuted by solver; model did not reproduce a '
                                             'top-level contract violation on the real code'})

    def _handle_ground_fail(self, g, known):
        k = self._known_match(known, g.name, g.detail)
        if k is not None:
            self.known_hits.append('%s [%s]' % (k.get('what', g.name), g.name))
            return
        payload = {'property': self.pid, 'obligation': g.name, 'kind': g.kind, 'backend': g.backend,
                   'detail': g.detail, 'witness': g.witness}
        found = False
        if g.replay:
            rc, out = self.run_replay_script(g.replay)
            payload['replay_script'] = g.replay
            payload['replay_output'] = out
            found = (rc == 1)
        if g.kind == 'aux' and not found:
            self.undecided.append({'obligation': g.name, 'reason': g.detail[:300]})
            return
        path = self._replay_path(g.name, payload)
        json.dump(payload, open(path, 'w'), indent=1, default=str)
        self.violations.append((g.name, path, found or g.backend == 'ground'))

    def _handle_bounded_violation(self, b, v, known):
        k = self._known_match(known, b['name'], v.get('what', ''))
        if k is not None:
            self.known_hits.append('%s [%s]' % (k.get('what', ''), b['name']))
            return
        payload = {'property': self.pid, 'obligation': b['name'], 'kind': 'bounded-monitor', 'what': v.get('what'),
                   'replay_script': v.get('replay'), 'input': v.get('input')}
        path = self._replay_path(b['name'], payload)
        json.dump(payload, open(path, 'w'), indent=1, default=str)
        self.violations.append((b['name'], path, True))


def _short(e):
    try:
        z3.set_option(max_depth=12, max_args=12, max_lines=40)
        return str(e)[:1500]
    except Exception:
        return '<goal>'


def replay_file(path):
    """./check --replay <file>: re-run the stored script on the current tree."""
    d = json.load(open(path))
    script = d.get('replay_script')
    if not script:
        print('replay file carries no executable input (obligation %s); solver output:' % d.get('obligation'))
        print(json.dumps({k: d[k] for k in d if k in ('model', 'goal', 'detail', 'witness')}, indent=1)[:3000])
        return 2
    env = dict(os.environ)
    env['PYTHONPATH'] = REPO + os.pathsep + VERIF
    p = subprocess.run([VENV_PY, '-c', script], env=env, cwd=VERIF)
    print('replay exit code %d (1 = violation reproduced)' % p.returncode)
    return p.returncode


def _sub_run(job):
    pid, tier, seed, modname, fname, args, support = job
    import importlib
    from .loader import Repo
    sub = PropertyRun(pid, tier, seed)
    try:
        mod = importlib.import_module(modname)
        getattr(mod, fname)(sub, Repo(), *args)
        res = sub.export(30000 if tier == 'quick' else 120000)
        if support:
            for rec in res['records']:
                if rec.get('kind') == 'top':
                    rec['kind'] = 'aux'
                    rec['name'] = '(supporting lemma) ' + rec['name']
                # a replay of a supporting lemma demonstrates a violation of THAT lemma, not of this property
                rec['script'] = None
            for g in res['grounds']:
                if g.get('kind') == 'top':
                    g['kind'] = 'aux'
        return res
    except Exception as e:
        import traceback
        sub.undecided.append({'obligation': '%s%r' % (fname, args), 'reason': 'worker crashed: %s' % traceback.format_exc()[-600:]})
        sub.obligations = []
        return sub.export(1000)
