"""Path context: path condition, branching with feasibility pruning, obligations,
definitional axioms for transcendental functions."""
import z3
from .values import Sym, lift, to_bool, to_z3_num, Unsupported, simp


class Infeasible(Exception):
    pass


class CutPath(Exception):
    """Path deliberately ended by the harness (e.g. after a loop-body step)."""


class Obligation:
    def __init__(self, name, hyps, goal, kind='top', meta=None, hyp_kinds=None):
        self.name = name
        self.hyps = list(hyps)
        self.hyp_kinds = list(hyp_kinds) if hyp_kinds is not None else ['assume'] * len(self.hyps)
        self.goal = goal
        self.kind = kind          # 'top' (taken from the property) | 'aux' (helper/invariant/callee-pre)
        self.meta = meta or {}
        self.status = None        # 'proved' | 'refuted' | 'unknown'
        self.model = None
        self.backend = None
        self.seconds = 0.0

    def formula(self):
        return z3.Implies(z3.And(*self.hyps) if self.hyps else z3.BoolVal(True), self.goal)


class Ctx:
    """State of ONE symbolic path.  A fresh Ctx is made for every path; the
    harness re-creates the symbolic inputs with the same variable names."""

    FEAS_TIMEOUT_MS = 1500

    def __init__(self, prefix=(), prune=True):
        self.prefix = list(prefix)
        self.taken = []            # booleans
        self.pc = []               # z3 Bool terms (branch conditions and assumptions)
        self.pc_kinds = []         # 'def' (axiom instance / proved cut) | 'branch' | 'assume'
        self.alternatives = []     # decision prefixes still to explore
        self.obligations = []
        self.prune = prune
        self._solver = None
        self._fresh = {}
        self.cache = {}            # (fn, key) -> value, for sqrt / sin / cos / exp10 terms
        self.trig_args = []        # z3 terms used as arguments of sin/cos
        self.notes = []
        self.calls = []            # log of (callee, how) for evidence
        self.events = []           # harness-visible trace (yields etc.)

    # ---- variables
    def fresh(self, base, sort='real'):
        n = self._fresh.get(base, 0)
        self._fresh[base] = n + 1
        name = base if n == 0 else '%s!%d' % (base, n)
        return self.var(name, sort)

    @staticmethod
    def var(name, sort='real'):
        if sort == 'real':
            return Sym(z3.Real(name))
        if sort == 'int':
            return Sym(z3.Int(name))
        if sort == 'bool':
            return Sym(z3.Bool(name))
        raise Unsupported('sort ' + sort)

    # ---- solver
    def solver(self):
        if self._solver is None:
            self._solver = z3.Solver()
            self._solver.set('timeout', self.FEAS_TIMEOUT_MS)
            for c in self.pc:
                self._solver.add(c)
        return self._solver

    def _feasible(self, cond):
        """(feasible?, witness model or None)"""
        s = self.solver()
        s.push()
        s.add(cond)
        r = s.check()
        m = s.model() if r == z3.sat else None
        s.pop()
        return r != z3.unsat, m

    def _model_says(self, cond):
        m = getattr(self, '_model', None)
        if m is None:
            return None
        try:
            v = m.eval(cond, model_completion=True)
        except z3.Z3Exception:
            return None
        if z3.is_true(v):
            return True
        if z3.is_false(v):
            return False
        return None

    def assume(self, cond, kind='assume'):
        c = to_bool(cond)
        c = simp(c)
        if z3.is_true(c):
            return
        self.pc.append(c)
        self.pc_kinds.append(kind)
        if getattr(self, '_model', None) is not None and self._model_says(c) is not True:
            self._model = None
        if self._solver is not None:
            self._solver.add(c)

    def branch(self, cond):
        """Decide a symbolic condition; forks by recording the alternative."""
        if isinstance(cond, bool):
            return cond
        c = simp(to_bool(cond))
        if z3.is_true(c):
            return True
        if z3.is_false(c):
            return False
        k = len(self.taken)
        if k < len(self.prefix):
            d = self.prefix[k]
        else:
            mt = mf = None
            if self.prune:
                # the last witness model satisfies the whole path condition: it decides one side for free
                says = self._model_says(c)
                if says is True:
                    t_ok, mt = True, self._model
                    f_ok, mf = self._feasible(z3.Not(c))
                elif says is False:
                    f_ok, mf = True, self._model
                    t_ok, mt = self._feasible(c)
                else:
                    t_ok, mt = self._feasible(c)
                    f_ok, mf = self._feasible(z3.Not(c))
            else:
                t_ok = f_ok = True
            if t_ok:
                d = True
                if f_ok:
                    self.alternatives.append(self.taken + [False])
            elif f_ok:
                d = False
            else:
                raise Infeasible()
            self._next_model = mt if d else mf
        self.taken.append(d)
        self.assume(c if d else z3.Not(c), kind='branch')
        if k >= len(self.prefix):
            self._model = self._next_model
        return d

    # ---- obligations
    def oblige(self, name, cond, kind='top', meta=None):
        g = simp(to_bool(cond))
        ob = Obligation(name, list(self.pc), g, kind=kind, meta=meta, hyp_kinds=list(self.pc_kinds))
        self.obligations.append(ob)
        return ob

    def oblige_from(self, name, hyps, cond, kind='aux', meta=None, then_assume=True):
        """Obligation with an explicit (small) set of hypotheses, each of which must already be a fact of this
        path (an element of the path condition, or a conjunction of such) - sound: fewer hypotheses."""
        hs = [simp(to_bool(h)) for h in hyps]
        for i, h in enumerate(hs):
            if not any(h.eq(p) for p in self.pc):
                # the hypothesis is not literally a fact of this path: prove it from the full path condition first
                self.obligations.append(Obligation('(side condition %d of) %s' % (i, name), list(self.pc), h, kind='aux',
                                                   hyp_kinds=list(self.pc_kinds)))
        ob = Obligation(name, hs, simp(to_bool(cond)), kind=kind, meta=meta, hyp_kinds=['def'] * len(hs))
        self.obligations.append(ob)
        if then_assume:
            self.assume(cond, kind='def')
        return ob

    def cut(self, name, cond, meta=None):
        """Cut rule: oblige a fact at this point, then use it as an assumption."""
        ob = self.oblige(name, cond, kind='aux', meta=meta)
        self.assume(cond, kind='def')
        return ob

    # ---- transcendental functions (A-TRIG / A-EXP / sqrt)
    def _key(self, e):
        return e.get_id() if hasattr(e, 'get_id') else ('c', e)

    def _poly_key(self, e):
        """canonical key of a polynomial term (expanded, monomials sorted); falls back to the term id"""
        try:
            import sympy
            from .ring import _conv
            table = self.cache.setdefault(('polytable',), {})
            return ('poly', str(sympy.expand(_conv(e, table))))
        except Exception:
            return self._key(e)

    def sqrt(self, x):
        """sqrt over the reals: r >= 0 and r*r == x (caller has dealt with x < 0)."""
        if not isinstance(x, Sym):
            import math
            from fractions import Fraction
            r = math.sqrt(x)
            if Fraction(repr(r)) ** 2 == Fraction(repr(float(x))):
                return r
            x = Sym(to_z3_num(x, True))
        e = simp(to_z3_num(x, True))
        # key on the sum-of-monomials normal form, so that equal polynomials share one sqrt term
        k = ('sqrt', self._poly_key(e))
        if k in self.cache:
            return self.cache[k]
        r = self.fresh('sqrt', 'real')
        self.assume(z3.And(r.e >= 0, r.e * r.e == e), kind='def')
        self.cache[k] = r
        return r

    SIN = z3.Function('SIN_', z3.RealSort(), z3.RealSort())
    COS = z3.Function('COS_', z3.RealSort(), z3.RealSort())
    EXP10 = z3.Function('EXP10_', z3.RealSort(), z3.RealSort())
    LOG10 = z3.Function('LOG10_', z3.RealSort(), z3.RealSort())
    PI = z3.Real('PI_')

    def _trig_register(self, a):
        """Instantiate the real-number facts of sin/cos at a new argument term."""
        k = ('trig', self._key(a))
        if k in self.cache:
            return
        self.cache[k] = True
        s, c = self.SIN(a), self.COS(a)
        self.assume(s * s + c * c == 1, kind='def')
        pi = self.PI
        if not any(self._key(t) == self._key(pi) for t in self.trig_args):
            if ('pi',) not in self.cache:
                self.cache[('pi',)] = True
                self.assume(z3.And(pi > z3.RealVal('3.1415'), pi < z3.RealVal('3.1416'),
                                   self.SIN(pi) == 0, self.COS(pi) == -1,
                                   self.SIN(pi / 2) == 1, self.COS(pi / 2) == 0,
                                   self.SIN(-pi) == 0, self.COS(-pi) == -1,
                                   self.SIN(-pi / 2) == -1, self.COS(-pi / 2) == 0,
                                   self.SIN(z3.RealVal(0)) == 0, self.COS(z3.RealVal(0)) == 1))
        for t in self.trig_args:
            # oddness / evenness, instantiated pairwise on the occurring terms
            self.assume(z3.Implies(a == -t, z3.And(s == -self.SIN(t), c == self.COS(t))), kind='def')
        self.trig_args.append(a)

    def sin(self, x):
        a = simp(to_z3_num(x, True))
        self._trig_register(a)
        return lift(self.SIN(a))

    def cos(self, x):
        a = simp(to_z3_num(x, True))
        self._trig_register(a)
        return lift(self.COS(a))

    def asin(self, u):
        """Angle a in [-pi/2, pi/2] with sin a = u (so cos a >= 0)."""
        e = simp(to_z3_num(u, True))
        k = ('asin', self._key(e))
        if k in self.cache:
            return self.cache[k]
        a = self.fresh('asin', 'real')
        self._trig_register(a.e)
        self.assume(z3.And(self.SIN(a.e) == e, self.COS(a.e) >= 0,
                           a.e >= -self.PI / 2, a.e <= self.PI / 2))
        self.cache[k] = a
        return a

    def acos(self, u):
        """Angle a in [0, pi] with cos a = u (so sin a >= 0)."""
        e = simp(to_z3_num(u, True))
        k = ('acos', self._key(e))
        if k in self.cache:
            return self.cache[k]
        a = self.fresh('acos', 'real')
        self._trig_register(a.e)
        self.assume(z3.And(self.COS(a.e) == e, self.SIN(a.e) >= 0,
                           a.e >= 0, a.e <= self.PI))
        self.cache[k] = a
        return a

    def exp10(self, x):
        """10**x: positive, exp10(0)=1, strictly monotone - instantiated pairwise."""
        e = simp(to_z3_num(x, True))
        k = ('exp10', self._key(e))
        if k in self.cache:
            return self.cache[k]
        t = self.EXP10(e)
        self.assume(t > 0, kind='def')
        self.assume(z3.Implies(e == 0, t == 1), kind='def')
        self.assume(z3.Implies(e > 0, t > 1), kind='def')
        self.assume(z3.Implies(e < 0, t < 1), kind='def')
        for (kk, other) in list(self.cache.items()):
            if isinstance(kk, tuple) and kk[0] == 'exp10arg':
                o = other
                self.assume(z3.Implies(e < o, t < self.EXP10(o)), kind='def')
                self.assume(z3.Implies(e > o, t > self.EXP10(o)), kind='def')
                self.assume(z3.Implies(e == -o, t * self.EXP10(o) == 1), kind='def')
        self.cache[('exp10arg', self._key(e))] = e
        r = Sym(t)
        self.cache[k] = r
        return r

    def log10(self, x):
        """log10(x) for x > 0: the inverse of exp10 (exp10(log10 x) = x)."""
        e = simp(to_z3_num(x, True))
        k = ('log10', self._key(e))
        if k in self.cache:
            return self.cache[k]
        t = self.LOG10(e)
        self.cache[k] = Sym(t)
        return Sym(t)
