"""Parse /repo/propka/*.py from the CURRENT working tree and index functions/classes."""
import ast
import hashlib
import os

from . import REPO


class FuncInfo:
    def __init__(self, module, qualname, node, cls=None):
        self.module = module
        self.qualname = qualname            # e.g. 'Vector.cross' or 'squared_distance'
        self.node = node
        self.cls = cls
        self.decorators = [ast.unparse(d) for d in node.decorator_list]

    @property
    def fullname(self):
        return '%s.%s' % (self.module.name, self.qualname)

    @property
    def is_generator(self):
        for n in ast.walk(self.node):
            if isinstance(n, (ast.Yield, ast.YieldFrom)):
                # exclude nested defs
                return True
        return False

    def source(self):
        return ast.get_source_segment(self.module.text, self.node) or ''

    def sha(self):
        return hashlib.sha256(self.source().encode()).hexdigest()[:16]

    def __repr__(self):
        return '<Func %s>' % self.fullname


class ClassInfo:
    def __init__(self, module, name, node):
        self.module = module
        self.name = name
        self.node = node
        self.base_names = [ast.unparse(b) for b in node.bases]
        self.methods = {}
        self.class_attrs = {}     # name -> ast expr
        for st in node.body:
            if isinstance(st, (ast.FunctionDef,)):
                # overloads: keep the last definition (as Python does)
                self.methods[st.name] = FuncInfo(module, '%s.%s' % (name, st.name), st, cls=self)
            elif isinstance(st, ast.Assign):
                for t in st.targets:
                    if isinstance(t, ast.Name):
                        self.class_attrs[t.id] = st.value
            elif isinstance(st, ast.AnnAssign) and isinstance(st.target, ast.Name) and st.value is not None:
                self.class_attrs[st.target.id] = st.value

    def bases(self):
        out = []
        for b in self.base_names:
            b = b.split('.')[-1]
            ci = self.module.resolve_class(b)
            if ci is not None:
                out.append(ci)
        return out

    def mro(self):
        seen = [self]
        for b in self.bases():
            for c in b.mro():
                if c not in seen:
                    seen.append(c)
        return seen

    def find_method(self, name):
        for c in self.mro():
            if name in c.methods:
                return c.methods[name]
        return None

    def find_class_attr(self, name):
        for c in self.mro():
            if name in c.class_attrs:
                return c, c.class_attrs[name]
        return None, None

    def is_subclass_of(self, other_name):
        return any(c.name == other_name for c in self.mro())

    def __repr__(self):
        return '<Class %s.%s>' % (self.module.name, self.name)


class ModuleInfo:
    def __init__(self, repo, name, path):
        self.repo = repo
        self.name = name
        self.path = path
        self.text = open(path).read()
        self.tree = ast.parse(self.text)
        self.functions = {}
        self.classes = {}
        self.assigns = {}        # global name -> ast expr (last top-level assignment)
        self.imports = {}        # local name -> ('module', modname) | ('from', modname, name)
        self._index(self.tree.body)

    def _index(self, body):
        for st in body:
            if isinstance(st, ast.FunctionDef):
                self.functions[st.name] = FuncInfo(self, st.name, st)
            elif isinstance(st, ast.ClassDef):
                self.classes[st.name] = ClassInfo(self, st.name, st)
            elif isinstance(st, ast.Assign):
                for t in st.targets:
                    if isinstance(t, ast.Name):
                        self.assigns[t.id] = st.value
            elif isinstance(st, ast.AnnAssign) and isinstance(st.target, ast.Name) and st.value is not None:
                self.assigns[st.target.id] = st.value
            elif isinstance(st, ast.Import):
                for a in st.names:
                    self.imports[(a.asname or a.name).split('.')[0]] = ('module', a.name if a.asname else a.name.split('.')[0])
            elif isinstance(st, ast.ImportFrom):
                mod = st.module or ''
                if st.level:
                    pkg = self.name.rsplit('.', st.level)[0]
                    mod = pkg + ('.' + mod if mod else '')
                for a in st.names:
                    self.imports[a.asname or a.name] = ('from', mod, a.name)
            elif isinstance(st, ast.If):
                # e.g. "if TYPE_CHECKING:" blocks - index for class resolution only
                self._index(st.body)

    def resolve_class(self, name):
        if name in self.classes:
            return self.classes[name]
        imp = self.imports.get(name)
        if imp and imp[0] == 'from':
            m = self.repo.module(imp[1])
            if m is not None:
                return m.resolve_class(imp[2])
        return None


class Repo:
    """Index of the propka package in the working tree."""

    def __init__(self, root=None):
        self.root = root or REPO
        self.modules = {}

    def module(self, name):
        if name in self.modules:
            return self.modules[name]
        if not name.startswith('propka'):
            return None
        rel = name.replace('.', '/')
        path = os.path.join(self.root, rel + '.py')
        if not os.path.exists(path):
            path = os.path.join(self.root, rel, '__init__.py')
            if not os.path.exists(path):
                return None
        m = ModuleInfo(self, name, path)
        self.modules[name] = m
        return m

    def func(self, fullname):
        """'propka.vector_algebra.Vector.cross' or 'propka.calculations.distance'."""
        parts = fullname.split('.')
        for i in range(len(parts) - 1, 0, -1):
            m = self.module('.'.join(parts[:i]))
            if m is not None:
                rest = parts[i:]
                if len(rest) == 1 and rest[0] in m.functions:
                    return m.functions[rest[0]]
                if len(rest) == 2 and rest[0] in m.classes:
                    fi = m.classes[rest[0]].find_method(rest[1])
                    if fi is not None:
                        return fi
                raise KeyError('function %s not found in %s' % (fullname, m.path))
        raise KeyError(fullname)

    def cls(self, fullname):
        mod, name = fullname.rsplit('.', 1)
        m = self.module(mod)
        if m is None or name not in m.classes:
            raise KeyError(fullname)
        return m.classes[name]

    def all_modules(self):
        d = os.path.join(self.root, 'propka')
        for f in sorted(os.listdir(d)):
            if f.endswith('.py') and f != '_version.py':
                n = 'propka.' + f[:-3] if f != '__init__.py' else 'propka'
                self.module(n)
        return [m for m in self.modules.values()]


def nth_loop(func_node, ordinal):
    """Return the ordinal-th (0-based, source order) For/While node of a function,
    not descending into nested function definitions."""
    loops = []

    def walk(node):
        for ch in ast.iter_child_nodes(node):
            if isinstance(ch, (ast.FunctionDef, ast.Lambda, ast.ClassDef)):
                continue
            if isinstance(ch, (ast.For, ast.While)):
                loops.append(ch)
            walk(ch)
    walk(func_node)
    return loops[ordinal]
