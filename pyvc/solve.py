"""Back ends: z3 (in-process, in a worker pool via SMT-LIB2 text) and cvc5 (CLI)
as second opinion for z3's 'unknown'."""
import os
import subprocess
import tempfile
import time
from concurrent.futures import ProcessPoolExecutor

import z3


def _to_smt2(hyps, goal):
    s = z3.Solver()
    for h in hyps:
        s.add(h)
    s.add(z3.Not(goal))
    return s.to_smt2()


def _z3_check(smt2, timeout_ms, tactic=None):
    t0 = time.time()
    fs = z3.parse_smt2_string(smt2)
    if tactic:
        s = z3.Tactic(tactic).solver()
    else:
        s = z3.Solver()
    s.set('timeout', timeout_ms)
    s.add(fs)
    r = s.check()
    model = None
    if r == z3.sat:
        m = s.model()
        model = {}
        for d in m.decls():
            if d.arity() == 0:
                v = m[d]
                model[d.name()] = _val(v)
    return str(r), model, time.time() - t0


def _val(v):
    try:
        if z3.is_int_value(v):
            return v.as_long()
        if z3.is_rational_value(v):
            return '%s/%s' % (v.numerator_as_long(), v.denominator_as_long())
        if z3.is_algebraic_value(v):
            return v.approx(20).as_decimal(20).rstrip('?')
        if z3.is_true(v):
            return True
        if z3.is_false(v):
            return False
    except Exception:
        pass
    return str(v)


def _cvc5_check(smt2, timeout_ms):
    t0 = time.time()
    # cvc5 needs a logic; ALL covers UF + NRA + LIA
    text = '(set-logic ALL)\n' + smt2
    with tempfile.NamedTemporaryFile('w', suffix='.smt2', delete=False) as f:
        f.write(text)
        path = f.name
    try:
        p = subprocess.run(['/usr/bin/cvc5', '--tlimit=%d' % timeout_ms, '--nl-ext-tplanes', path],
                           capture_output=True, text=True, timeout=timeout_ms / 1000.0 + 5)
        out = p.stdout.strip().splitlines()
        r = out[0] if out else 'unknown'
    except Exception:
        r = 'unknown'
    finally:
        os.unlink(path)
    if r not in ('sat', 'unsat'):
        r = 'unknown'
    return r, None, time.time() - t0


def _solve_one(args):
    name, smt2, timeout_ms, use_cvc5, sliced = args
    res = _solve_text(name, smt2, timeout_ms, use_cvc5)
    if res[1] == 'unknown' and sliced is not None:
        # hypothesis slicing: fewer hypotheses can only make the goal harder to
        # prove, so an 'unsat' here is a proof; anything else is ignored
        r2 = _solve_text(name, sliced, timeout_ms, use_cvc5)
        if r2[1] == 'unsat':
            return name, 'unsat', None, r2[3] + '+sliced', res[4] + r2[4]
        return name, res[1], res[2], res[3], res[4] + r2[4]
    return res


def _solve_text(name, smt2, timeout_ms, use_cvc5):
    total = 0.0
    # a short attempt with the default strategy, then nlsat, then the default
    # strategy with the full budget, then cvc5
    plan = [(None, min(timeout_ms, 3000)), ('qfnra-nlsat', timeout_ms), (None, timeout_ms)]
    r, model, backend = 'unknown', None, 'z3'
    for tactic, tmo in plan:
        try:
            r, model, dt = _z3_check(smt2, tmo, tactic=tactic)
        except z3.Z3Exception:
            r, model, dt = 'unknown', None, 0.0
        total += dt
        backend = 'z3' if tactic is None else 'z3/nlsat'
        if r != 'unknown':
            break
    if r == 'unknown' and use_cvc5:
        r2, m2, dt = _cvc5_check(smt2, timeout_ms)
        total += dt
        if r2 == 'unsat':      # cvc5 gives no model here: only accept proofs from it
            r, backend = r2, 'cvc5'
    return name, r, model, backend, total


def _check_direct(hyps, goal, timeout_ms, tactic=None):
    t0 = time.time()
    s = z3.Tactic(tactic).solver() if tactic else z3.Solver()
    s.set('timeout', timeout_ms)
    for h in hyps:
        s.add(h)
    s.add(z3.Not(goal))
    r = s.check()
    model = None
    if r == z3.sat:
        m = s.model()
        model = {d.name(): _val(m[d]) for d in m.decls() if d.arity() == 0}
    return str(r), model, time.time() - t0


def _solve_direct(i, ob, timeout_ms, use_cvc5):
    """In-process solving on the z3 objects (no SMT-LIB round trip)."""
    total = 0.0
    r, model, backend = 'unknown', None, 'z3'
    # nlsat either answers quickly or diverges, depending on the order in which it meets the hypotheses (observed: the same
    # query 0.07 s / 2.7 s / > 60 s): short attempts on three orders of the SAME hypothesis set, then the full budget
    short = min(timeout_ms, 10000)
    hy = list(ob.hyps)
    orders = [hy, hy[::-1], sorted(hy, key=lambda h: len(h.sexpr()) if len(hy) < 200 else 0)]
    plan = [(None, min(timeout_ms, 3000), hy)] + [('qfnra-nlsat', short, o) for o in orders] + \
           [(None, timeout_ms, hy), ('qfnra-nlsat', timeout_ms, hy)]
    for tactic, tmo, hyps_ in plan:
        try:
            r, model, dt = _check_direct(hyps_, ob.goal, tmo, tactic)
        except z3.Z3Exception:
            r, model, dt = 'unknown', None, 0.0
        total += dt
        backend = 'z3' if tactic is None else 'z3/nlsat'
        if r != 'unknown':
            break
    if r == 'unknown':
        defs = [h for h, k in zip(ob.hyps, ob.hyp_kinds) if k == 'def']
        if len(defs) < len(ob.hyps) and ob.meta.get('slice', True):
            r2, _, dt = _check_direct(defs, ob.goal, timeout_ms, 'qfnra-nlsat')
            total += dt
            if r2 == 'unsat':
                return i, 'unsat', None, 'z3/nlsat+sliced', total
    if r == 'unknown' and use_cvc5:
        r2, m2, dt = _cvc5_check(_to_smt2(ob.hyps, ob.goal), timeout_ms)
        total += dt
        if r2 == 'unsat':
            r, backend = r2, 'cvc5'
    return i, r, model, backend, total


def discharge(obligations, timeout_ms=20000, workers=None, use_cvc5=True):
    """Solve all obligations (parallel).  Sets status/model/backend/seconds on each."""
    workers = workers or min(16, max(1, os.cpu_count() or 1))
    jobs = []
    for i, ob in enumerate(obligations):
        if z3.is_true(ob.goal):
            ob.status, ob.backend, ob.seconds = 'proved', 'simplifier', 0.0
            continue
        if ob.meta.get('ring'):
            import time as _t
            from .ring import prove_identity
            t0 = _t.time()
            try:
                ok = prove_identity([h for h, k in zip(ob.hyps, ob.hyp_kinds) if k == 'def' or ob.meta.get('ring') == 'all'], ob.goal)
            except Exception:
                ok = False
            if ok:
                ob.status, ob.backend, ob.seconds = 'proved', 'ring(sympy)', _t.time() - t0
                continue
        if workers == 1:
            jobs.append((i, None, ob.meta.get('timeout_ms', timeout_ms), use_cvc5, None))
            continue
        sliced = None
        defs = [h for h, k in zip(ob.hyps, ob.hyp_kinds) if k == 'def']
        if len(defs) < len(ob.hyps) and ob.meta.get('slice', True):
            sliced = _to_smt2(defs, ob.goal)
        jobs.append((i, _to_smt2(ob.hyps, ob.goal), ob.meta.get('timeout_ms', timeout_ms), use_cvc5, sliced))
    if not jobs:
        return obligations
    if workers == 1:
        results = [_solve_direct(i, obligations[i], j[2], use_cvc5) for i, j in zip([j[0] for j in jobs], jobs)]
    elif len(jobs) == 1:
        results = [_solve_one(j) for j in jobs]
    else:
        with ProcessPoolExecutor(max_workers=min(workers, len(jobs))) as pool:
            results = list(pool.map(_solve_one, jobs))
    for i, r, model, backend, secs in results:
        ob = obligations[i]
        ob.status = {'unsat': 'proved', 'sat': 'refuted'}.get(r, 'unknown')
        ob.model = model
        ob.backend = backend
        ob.seconds = secs
    return obligations
