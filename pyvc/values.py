"""Symbolic values of the pyvc executor."""
import z3
from fractions import Fraction


class Unsupported(Exception):
    """Construct outside the supported subset: function is 'not within reach'."""


class PyRaise(Exception):
    """A Python exception raised by the program under symbolic execution."""

    def __init__(self, exc_name, msg=None):
        Exception.__init__(self, exc_name)
        self.exc_name = exc_name
        self.msg = msg


def real_val(v):
    if isinstance(v, bool):
        return z3.RealVal(1 if v else 0)
    if isinstance(v, int):
        return z3.RealVal(v)
    if isinstance(v, float):
        if v != v or v in (float('inf'), float('-inf')):
            raise Unsupported('non-finite float constant in arithmetic')
        # A-REAL: a float literal denotes the decimal number that repr() prints
        return z3.RealVal(str(Fraction(repr(v))))
    if isinstance(v, Fraction):
        return z3.RealVal(str(v))
    raise Unsupported('real_val(%r)' % (v,))


class Sym:
    """Symbolic scalar: wraps a z3 Int, Real or Bool expression."""
    __slots__ = ('e',)

    def __init__(self, e):
        self.e = e

    # -- sort helpers
    @property
    def is_bool(self):
        return z3.is_bool(self.e)

    @property
    def is_int(self):
        return z3.is_int(self.e)

    @property
    def is_real(self):
        return z3.is_real(self.e)

    def __repr__(self):
        return 'Sym(%s)' % (self.e,)

    def __hash__(self):
        return id(self)

    def __bool__(self):
        raise Unsupported('Python truth value of a symbolic term taken outside the executor: %s' % self.e)

    # arithmetic (used by spec functions written in plain Python)
    def __add__(self, o): return arith('+', self, o)
    def __radd__(self, o): return arith('+', o, self)
    def __sub__(self, o): return arith('-', self, o)
    def __rsub__(self, o): return arith('-', o, self)
    def __mul__(self, o): return arith('*', self, o)
    def __rmul__(self, o): return arith('*', o, self)
    def __truediv__(self, o): return arith('/', self, o)
    def __rtruediv__(self, o): return arith('/', o, self)
    def __pow__(self, o): return arith('**', self, o)
    def __neg__(self): return arith('-', 0, self)
    def __pos__(self): return self
    def __abs__(self): return sym_abs(self)
    def __lt__(self, o): return compare('<', self, o)
    def __le__(self, o): return compare('<=', self, o)
    def __gt__(self, o): return compare('>', self, o)
    def __ge__(self, o): return compare('>=', self, o)
    def __eq__(self, o): return compare('==', self, o)
    def __ne__(self, o): return compare('!=', self, o)


def is_sym(v):
    return isinstance(v, Sym)


def is_num(v):
    return isinstance(v, (int, float, Fraction)) and not isinstance(v, bool) or isinstance(v, bool)


def to_z3_num(v, want_real=False):
    """Return a z3 arithmetic term for a Python number or Sym."""
    if isinstance(v, Sym):
        e = v.e
        if z3.is_bool(e):
            e = z3.If(e, z3.IntVal(1), z3.IntVal(0))
        if want_real and z3.is_int(e):
            e = z3.ToReal(e)
        return e
    if isinstance(v, bool):
        return z3.RealVal(int(v)) if want_real else z3.IntVal(int(v))
    if isinstance(v, int):
        return z3.RealVal(v) if want_real else z3.IntVal(v)
    if isinstance(v, (float, Fraction)):
        return real_val(v)
    raise Unsupported('not a number: %r' % (v,))


def _is_realish(v):
    if isinstance(v, Sym):
        return z3.is_real(v.e)
    return isinstance(v, (float, Fraction))


def simp(e):
    return z3.simplify(e, som=False)


def lift(e):
    """Wrap a z3 term, returning a concrete Python value if it is a literal."""
    e = simp(e)
    if z3.is_true(e):
        return True
    if z3.is_false(e):
        return False
    if z3.is_int_value(e):
        return e.as_long()
    return Sym(e)


def arith(op, a, b):
    if not (isinstance(a, Sym) or isinstance(b, Sym)):
        import operator
        f = {'+': operator.add, '-': operator.sub, '*': operator.mul, '/': operator.truediv,
             '**': operator.pow, '//': operator.floordiv, '%': operator.mod}[op]
        return f(a, b)
    real = _is_realish(a) or _is_realish(b) or op == '/'
    if op == '**':
        return sym_pow(a, b)
    x = to_z3_num(a, real)
    y = to_z3_num(b, real)
    if op == '+':
        r = x + y
    elif op == '-':
        r = x - y
    elif op == '*':
        r = x * y
    elif op == '/':
        r = x / y
    elif op == '//':
        if real:
            raise Unsupported('floor division of reals')
        r = x / y   # z3 Int division; callers guarantee a positive divisor
    elif op == '%':
        if real:
            raise Unsupported('modulo of reals')
        r = x % y
    else:
        raise Unsupported('arith op %s' % op)
    return Sym(simp(r)) if not z3.is_int_value(simp(r)) else simp(r).as_long()


def sym_pow(a, b):
    if isinstance(b, int) and not isinstance(b, bool) and 0 <= b <= 8:
        if b == 0:
            return 1
        r = a
        for _ in range(b - 1):
            r = arith('*', r, a)
        return r
    if isinstance(b, float) and b == 0.5:
        raise Unsupported('x**0.5 must be routed through the executor (sqrt)')
    raise Unsupported('power with symbolic or large exponent')


def sym_abs(a):
    e = to_z3_num(a)
    return Sym(simp(z3.If(e >= 0, e, -e)))


def compare(op, a, b):
    real = _is_realish(a) or _is_realish(b)
    if isinstance(a, Sym) and a.is_bool and isinstance(b, (bool, Sym)) and (isinstance(b, bool) or b.is_bool):
        x = a.e
        y = z3.BoolVal(b) if isinstance(b, bool) else b.e
        if op == '==':
            return lift(x == y)
        if op == '!=':
            return lift(x != y)
    x = to_z3_num(a, real)
    y = to_z3_num(b, real)
    r = {'<': lambda: x < y, '<=': lambda: x <= y, '>': lambda: x > y,
         '>=': lambda: x >= y, '==': lambda: x == y, '!=': lambda: x != y}[op]()
    return lift(r)


def to_bool(v):
    """z3 Bool term for a value used as a formula (no forking)."""
    if isinstance(v, z3.BoolRef):
        return v
    if isinstance(v, z3.ExprRef):
        return v != 0
    if isinstance(v, Sym):
        if v.is_bool:
            return v.e
        return v.e != 0
    if isinstance(v, bool):
        return z3.BoolVal(v)
    if v is None:
        return z3.BoolVal(False)
    if isinstance(v, (int, float)):
        return z3.BoolVal(v != 0)
    if isinstance(v, (list, tuple, dict, str, set)):
        return z3.BoolVal(len(v) > 0)
    return z3.BoolVal(True)


def And(*xs):
    xs = [to_bool(x) for x in xs]
    return lift(z3.And(*xs)) if xs else True


def Or(*xs):
    xs = [to_bool(x) for x in xs]
    return lift(z3.Or(*xs)) if xs else False


def Not(x):
    return lift(z3.Not(to_bool(x)))


def Implies(a, b):
    return lift(z3.Implies(to_bool(a), to_bool(b)))


def Ite(c, a, b):
    if isinstance(c, bool):
        return a if c else b
    real = _is_realish(a) or _is_realish(b)
    return Sym(simp(z3.If(to_bool(c), to_z3_num(a, real), to_z3_num(b, real))))


class Obj:
    """Symbolic object: concrete identity, symbolic fields."""
    _count = 0

    def __init__(self, cls, name=None):
        Obj._count += 1
        self.cls = cls            # ClassInfo or None (duck-typed record)
        self.attrs = {}
        self.name = name or ('obj%d' % Obj._count)

    def __repr__(self):
        return '<Obj %s:%s>' % (self.cls.name if self.cls else 'record', self.name)


class SStr:
    """String of known length whose characters may be symbolic code points."""

    def __init__(self, chars):
        self.chars = list(chars)   # each: int code point or Sym(Int)

    def __len__(self):
        return len(self.chars)

    def is_concrete(self):
        return all(isinstance(c, int) for c in self.chars)

    def concrete(self):
        return ''.join(chr(c) for c in self.chars)

    def __repr__(self):
        return 'SStr(%s)' % ''.join(chr(c) if isinstance(c, int) else '?' for c in self.chars)


def mk_str(chars):
    s = SStr(chars)
    return s.concrete() if s.is_concrete() else s


def str_chars(s):
    if isinstance(s, str):
        return [ord(c) for c in s]
    if isinstance(s, SStr):
        return s.chars
    raise Unsupported('not a string: %r' % (s,))


class Opaque:
    """A value the model knows nothing about (loggers, formatted messages...)."""

    def __init__(self, what):
        self.what = what

    def __repr__(self):
        return '<Opaque %s>' % self.what


class FmtStr(Opaque):
    """Rope produced by formatting symbolic values: a list of parts
    ('lit', text) | ('fmt', template, args, kwargs).  Lets a contract inspect WHAT is
    printed WHERE without modelling number formatting."""

    def __init__(self, parts):
        Opaque.__init__(self, 'formatted string')
        self.parts = []
        for p in parts:      # canonical form: adjacent literals merged
            if p[0] == 'lit' and self.parts and self.parts[-1][0] == 'lit':
                self.parts[-1] = ('lit', self.parts[-1][1] + p[1])
            elif not (p[0] == 'lit' and p[1] == ''):
                self.parts.append(p)

    @staticmethod
    def of(v):
        if isinstance(v, FmtStr):
            return v.parts
        if isinstance(v, str):
            return [('lit', v)] if v else []
        if isinstance(v, SStr):
            return [('fmt', '{}', [v], {})]
        raise Unsupported('concatenation of string with %r' % type(v).__name__)

    def fmt_parts(self):
        return [p for p in self.parts if p[0] == 'fmt']

    @staticmethod
    def values_of(part):
        """The values a 'fmt' part prints, in template order (independent of field names, widths and literals).
        Attribute fields '{g.pka_value}' give ('attr', object, 'pka_value')."""
        import string
        _, template, args, kwargs = part
        out, auto = [], 0
        for _lit, field, _spec, _conv in string.Formatter().parse(template):
            if field is None:
                continue
            head, *rest = field.replace('[', '.').replace(']', '').split('.')
            if head == '':
                v = args[auto] if auto < len(args) else None
                auto += 1
            elif head.isdigit():
                v = args[int(head)] if int(head) < len(args) else None
            else:
                v = kwargs.get(head)
            for r in rest:
                v = ('attr', v, r)
            out.append(v)
        return out

    def __repr__(self):
        return '<FmtStr %d parts>' % len(self.parts)
