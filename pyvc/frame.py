"""FRAME back end: syntactic census of attribute loads/stores over the real AST.

For a field name f the census lists every function of propka/ that
  * loads   x.f            (ast.Attribute in Load context)
  * stores  x.f = ...      (Store/AugStore/Del context, incl. tuple targets)
  * mentions f inside a format-string constant ('{r.f}' / '{0.f}'), which
    str.format resolves at run time
  * uses reflection (getattr/setattr/vars/__dict__/hasattr) - listed separately;
    sound under A-REFL: the reflection sites are enumerated and must be on an
    explicit allow list.
Keyword arguments 'f=' of calls are also recorded ('kwarg').
"""
import ast
import re


class Census:
    def __init__(self, repo):
        self.repo = repo
        self.loads = {}      # field -> set of function fullnames
        self.stores = {}
        self.fmt = {}
        self.kwargs = {}
        self.reflection = []  # (function, source)
        self.module_level = {}  # field -> set of modules with module-level access
        self.name_loads = {}    # global name -> set of functions loading it
        self._build()

    def _build(self):
        for m in self.repo.all_modules():
            self._scan_scope(m, m.tree.body, m.name + '.<module>')

    def _scan_scope(self, m, body, scope):
        for st in body:
            if isinstance(st, (ast.FunctionDef, ast.AsyncFunctionDef)):
                self._scan_func(m, st, scope.rsplit('.<module>', 1)[0] + '.' + st.name if scope.endswith('<module>')
                                else scope + '.' + st.name)
            elif isinstance(st, ast.ClassDef):
                for s2 in st.body:
                    if isinstance(s2, ast.FunctionDef):
                        self._scan_func(m, s2, '%s.%s.%s' % (m.name, st.name, s2.name))
                    else:
                        self._scan_node(s2, '%s.%s.<class>' % (m.name, st.name))
            else:
                self._scan_node(st, scope)

    def _scan_func(self, m, fn, name):
        # nested defs/lambdas are attributed to the enclosing function
        for st in fn.body:
            self._scan_node(st, name)
        for d in fn.args.defaults + fn.args.kw_defaults:
            if d is not None:
                self._scan_node(d, name)

    def _scan_node(self, node, scope):
        for n in ast.walk(node):
            if isinstance(n, ast.Attribute):
                tgt = self.loads if isinstance(n.ctx, ast.Load) else self.stores
                tgt.setdefault(n.attr, set()).add(scope)
            elif isinstance(n, ast.Constant) and isinstance(n.value, str) and '{' in n.value:
                for f in re.findall(r'\{[^{}]*?\.([A-Za-z_][A-Za-z0-9_]*)', n.value):
                    self.fmt.setdefault(f, set()).add(scope)
            elif isinstance(n, ast.Name) and isinstance(n.ctx, ast.Load):
                self.name_loads.setdefault(n.id, set()).add(scope)
            if isinstance(n, ast.Call):
                for kw in n.keywords:
                    if kw.arg:
                        self.kwargs.setdefault(kw.arg, set()).add(scope)
                if isinstance(n.func, ast.Name) and n.func.id in ('getattr', 'setattr', 'vars', 'hasattr', 'delattr'):
                    self.reflection.append((scope, ast.unparse(n)))
            if isinstance(n, ast.Attribute) and n.attr == '__dict__':
                self.reflection.append((scope, ast.unparse(n)))

    def readers(self, field):
        """Functions that read field: attribute loads, format strings in the function, and
        functions that use a module-level format constant mentioning the field."""
        out = set(self.loads.get(field, ())) | set(self.fmt.get(field, ()))
        res = set()
        for sc in out:
            if sc.endswith('.<module>'):
                mod = sc[:-len('.<module>')]
                for (m, cname), fields in module_fmt_constants(self.repo).items():
                    if m == mod and field in fields:
                        users = {u for u in self.name_loads.get(cname, ()) if not u.endswith('<module>')}
                        res |= users if users else {sc + ':' + cname}
            else:
                res.add(sc)
        return res

    def writers(self, field):
        return set(self.stores.get(field, ()))


def module_fmt_constants(repo):
    """Module-level format strings (e.g. atom.STR_FMT) and the functions that use them."""
    out = {}
    for m in repo.all_modules():
        for name, expr in m.assigns.items():
            try:
                v = ast.literal_eval(expr)
            except Exception:
                continue
            if isinstance(v, str) and '{' in v:
                fields = set(re.findall(r'\{[^{}]*?\.([A-Za-z_][A-Za-z0-9_]*)', v))
                if fields:
                    out[(m.name, name)] = fields
    return out
