"""Symbolic executor over the real AST (see DESIGN.md section 1).

Executes FunctionDef nodes parsed from the working tree.  One call of
Executor.run_paths explores every feasible path by re-execution with a
decision prefix (deterministic: the harness re-creates the inputs per path).
"""
import ast
import os
import builtins
import math
import string as _string

import z3

from .values import (FmtStr, Sym, Obj, SStr, Opaque, Unsupported, PyRaise, arith, compare,
                     sym_abs, sym_pow, to_bool, to_z3_num, lift, mk_str, str_chars,
                     And, Or, Not, Implies, Ite, simp, real_val)
from .ctx import Ctx, Infeasible, CutPath
from .loader import FuncInfo, ClassInfo, nth_loop


class _Return(Exception):
    def __init__(self, value):
        self.value = value


class _Break(Exception):
    pass


class _Continue(Exception):
    pass


class Builtin:
    """A callable implemented by the executor (model of a Python builtin/stdlib function)."""

    def __init__(self, name, fn):
        self.name = name
        self.fn = fn

    def __repr__(self):
        return '<Builtin %s>' % self.name


class BoundMethod:
    def __init__(self, self_obj, func):
        self.self_obj = self_obj
        self.func = func


class Closure:
    def __init__(self, node, env, module, name):
        self.node = node
        self.env = env
        self.module = module
        self.name = name


class ModuleRef:
    def __init__(self, name):
        self.name = name


class PyPath:
    """pathlib.Path restricted to pure path arithmetic on concrete strings."""

    def __init__(self, p):
        self.p = p


class ModuleGlobals:
    def __init__(self, module):
        self.module = module


class SuperProxy:
    def __init__(self, obj, cls):
        self.obj = obj
        self.cls = cls


class ClassRef:
    """Reference to a repo class used as a value (constructor, isinstance target)."""

    def __init__(self, info):
        self.info = info


class PyClassRef:
    """Reference to a Python builtin class (int, float, str, exceptions ...)."""

    def __init__(self, name):
        self.name = name


class Env:
    def __init__(self, module, local=None, parent=None):
        self.module = module
        self.local = local if local is not None else {}
        self.parent = parent      # enclosing function Env for closures

    def lookup_local(self, name):
        e = self
        while e is not None:
            if name in e.local:
                return True, e.local[name]
            e = e.parent
        return False, None


EXC_NAMES = {n for n in dir(builtins) if isinstance(getattr(builtins, n), type)
             and issubclass(getattr(builtins, n), BaseException)}

LOG_NAMES = {'_LOGGER', 'logging', 'warnings'}


from time import time as _time_now


class GenList(list):
    """An eagerly evaluated generator / iterator: consumed from the front by next()."""


class Executor:
    def __init__(self, repo, contracts=None, inline_depth=12):
        self.repo = repo
        self.contracts = contracts or {}     # fullname -> callable(ex, ctx, args, kwargs) returning value
        self.inline_depth = inline_depth
        self.ctx = None
        self.deadline = None
        self._budget_s = 0
        self.depth = 0
        self.global_cache = {}
        self.assert_mode = 'assume'          # 'assume' | 'oblige' | 'raise'
        self.loop_hooks = {}                 # (fullname, ordinal) -> callable(ex, ctx, node, env)
        self.closure_contracts = {}          # nested-function name -> callable(ex, ctx, closure, args, kwargs)
        self.stmt_hooks = {}                 # (fullname, source prefix) -> callable(ex, ctx, env), run AFTER the statement
        self.max_unroll = 64
        self.func_stack = []
        self.pure = False                    # True while evaluating contract expressions (no forking on and/or)

    # ------------------------------------------------------------------ paths
    def run_paths(self, thunk, max_paths=4000, prune=True, budget_s=None):
        """thunk(ex, ctx) -> outcome.  Returns list of (ctx, kind, value).
        budget_s: wall-clock limit for the whole exploration (checked at every statement): exceeding it is 'Unsupported'
        (the caller records UNDECIDED) - a check never hangs on code that makes the symbolic execution diverge."""
        import time as _time
        if budget_s is None:
            budget_s = float(os.environ.get('VERIF_EXPLORE_BUDGET_S', '900'))
        self.deadline = _time.time() + budget_s
        self._budget_s = budget_s
        results = []
        work = [[]]
        while work:
            prefix = work.pop()
            ctx = Ctx(prefix, prune=prune)
            self.ctx = ctx
            self.depth = 0
            self.func_stack = []
            try:
                val = thunk(self, ctx)
                results.append((ctx, 'return', val))
            except PyRaise as e:
                results.append((ctx, 'raise', e))
            except CutPath:
                results.append((ctx, 'cut', None))
            except Infeasible:
                pass
            for alt in ctx.alternatives:
                work.append(alt)
            if len(results) > max_paths:
                raise Unsupported('path explosion (> %d paths)' % max_paths)
        return results

    # ------------------------------------------------------------------ calls
    def call_function(self, fi, args, kwargs=None, self_obj=None):
        """Execute the real AST of a repo function with the given arguments."""
        kwargs = dict(kwargs or {})
        if isinstance(fi, FuncInfo) and any(d.split('(')[0].split('.')[-1] in ('lru_cache', 'cache', 'cached_property', 'memoize')
                                            for d in fi.decorators):
            # a memoised function carries hidden state between calls: not modelled, never treated as its plain body
            raise Unsupported('memoised function %s (%s)' % (fi.fullname, fi.decorators))
        if self.depth > self.inline_depth:
            raise Unsupported('inline depth exceeded at %s' % fi.fullname)
        node = fi.node
        env = Env(fi.module)
        self._bind_params(node, env, args, kwargs, self_obj, fi)
        if self.depth == 0:
            self.top_env = env
        return self._run_body(fi, node, env)

    def _run_body(self, fi, node, env):
        self.depth += 1
        self.func_stack.append(fi)
        gen = fi.is_generator if isinstance(fi, FuncInfo) else False
        if gen:
            env.local['__yields__'] = []
        try:
            try:
                self.exec_block(node.body, env)
                rv = None
            except _Return as r:
                rv = r.value
        finally:
            self.depth -= 1
            self.func_stack.pop()
        if gen:
            # generators are evaluated eagerly: the call returns the list of yielded values
            return env.local['__yields__']
        return rv

    def _bind_params(self, node, env, args, kwargs, self_obj, fi):
        a = node.args
        params = [p.arg for p in a.posonlyargs + a.args]
        defaults = a.defaults
        args = list(args)
        is_static = isinstance(fi, FuncInfo) and any('staticmethod' in d for d in fi.decorators)
        if self_obj is not None and not is_static:
            args = [self_obj] + args
        denv = Env(env.module, parent=env.parent)
        for i, p in enumerate(params):
            if i < len(args):
                env.local[p] = args[i]
            elif p in kwargs:
                env.local[p] = kwargs.pop(p)
            else:
                di = i - (len(params) - len(defaults))
                if di < 0:
                    raise PyRaise('TypeError', 'missing argument %s' % p)
                env.local[p] = self.eval(defaults[di], denv)
        if len(args) > len(params):
            if a.vararg:
                env.local[a.vararg.arg] = tuple(args[len(params):])
            else:
                raise PyRaise('TypeError', 'too many positional arguments')
        elif a.vararg:
            env.local[a.vararg.arg] = ()
        for p, d in zip(a.kwonlyargs, a.kw_defaults):
            if p.arg in kwargs:
                env.local[p.arg] = kwargs.pop(p.arg)
            elif d is not None:
                env.local[p.arg] = self.eval(d, denv)
            else:
                raise PyRaise('TypeError', 'missing kw-only argument')
        if kwargs:
            if a.kwarg:
                env.local[a.kwarg.arg] = kwargs
            else:
                raise PyRaise('TypeError', 'unexpected keyword %s' % list(kwargs))

    def call(self, f, args, kwargs=None):
        kwargs = kwargs or {}
        if isinstance(f, Builtin):
            return f.fn(self, *args, **kwargs)
        if isinstance(f, BoundMethod):
            fi = f.func
            if isinstance(fi, FuncInfo):
                return self.call_repo(fi, args, kwargs, f.self_obj)
            if isinstance(fi, Closure):
                return self.call(fi, [f.self_obj] + list(args), kwargs)
            raise Unsupported('bound method of %r' % (fi,))
        if isinstance(f, FuncInfo):
            return self.call_repo(f, args, kwargs, None)
        if isinstance(f, Closure):
            h = self.closure_contracts.get(f.name)
            if h is not None and not getattr(self, '_bypass_closure_contract', False):
                return h(self, self.ctx, f, list(args), dict(kwargs))
            self._bypass_closure_contract = False
            env = Env(f.module, parent=f.env)
            self._bind_params(f.node, env, args, dict(kwargs), None, None)
            if isinstance(f.node, ast.Lambda):
                return self.eval(f.node.body, env)
            self.depth += 1
            try:
                try:
                    self.exec_block(f.node.body, env)
                    return None
                except _Return as r:
                    return r.value
            finally:
                self.depth -= 1
        if isinstance(f, ClassRef):
            return self.instantiate(f.info, args, kwargs)
        if isinstance(f, PyClassRef):
            return self.call_pyclass(f.name, args, kwargs)
        if isinstance(f, Opaque):
            return Opaque('result of %s' % f.what)
        if callable(f) and getattr(f, '_pyvc_spec', False):
            return f(*args, **kwargs)
        raise Unsupported('call of %r' % (f,))

    def call_closure_body(self, f, args, kwargs=None):
        """Execute the real body of a nested function once, even if it has a contract
        (recursive calls inside it use the contract again)."""
        self._bypass_closure_contract = True
        return self.call(f, args, kwargs or {})

    def call_repo(self, fi, args, kwargs, self_obj):
        c = self.contracts.get(fi.fullname)
        if c is not None:
            self.ctx.calls.append((fi.fullname, 'contract'))
            return c(self, self.ctx, fi, list(args), dict(kwargs), self_obj)
        self.ctx.calls.append((fi.fullname, 'inlined'))
        return self.call_function(fi, args, kwargs, self_obj)

    def instantiate(self, ci, args, kwargs):
        c = self.contracts.get('%s.%s' % (ci.module.name, ci.name))
        if c is not None:
            return c(self, self.ctx, ci, list(args), dict(kwargs), None)
        o = Obj(ci)
        init = ci.find_method('__init__')
        if init is not None:
            self.call_repo(init, args, kwargs, o)
        elif ci.is_subclass_of('Exception'):
            o.attrs['args'] = tuple(args)
        return o

    def call_pyclass(self, name, args, kwargs):
        if name in EXC_NAMES:
            o = Obj(None, name='exc')
            o.attrs['__exc__'] = name
            o.attrs['args'] = tuple(args)
            return o
        fn = BUILTINS.get(name)
        if fn is not None:
            return fn.fn(self, *args, **kwargs)
        raise Unsupported('constructor %s' % name)

    # ------------------------------------------------------------------ names
    def lookup(self, name, env):
        found, v = env.lookup_local(name)
        if found:
            return v
        return self.lookup_global(name, env.module)

    def lookup_global(self, name, module):
        key = (module.name, name)
        if key in self.global_cache:
            return self.global_cache[key]
        v = self._lookup_global(name, module)
        if not isinstance(v, (list, dict, set, Obj)):
            # mutable module-level objects are rebuilt per path
            self.global_cache[key] = v
        return v

    def _lookup_global(self, name, module):
        if name in module.functions:
            return module.functions[name]
        if name in module.classes:
            return ClassRef(module.classes[name])
        if name in module.assigns:
            if name in LOG_NAMES:
                return Opaque(name)
            pk = ('globalobj', module.name, name)
            if pk in self.ctx.cache:
                return self.ctx.cache[pk]
            v = self.eval(module.assigns[name], Env(module))
            if isinstance(v, (list, dict, set, Obj)):
                self.ctx.cache[pk] = v
            return v
        if name in module.imports:
            imp = module.imports[name]
            if imp[0] == 'module':
                if imp[1].startswith('propka'):
                    return ModuleRef(imp[1])
                return ModuleRef(imp[1])
            modname, attr = imp[1], imp[2]
            if modname.startswith('propka') and self.repo.module(modname + '.' + attr) is not None:
                return ModuleRef(modname + '.' + attr)
            m = self.repo.module(modname)
            if m is not None:
                return self.lookup_global(attr, m)
            sub = self.repo.module(modname + '.' + attr) if modname.startswith('propka') else None
            if sub is not None:
                return ModuleRef(modname + '.' + attr)
            return self.module_attr(modname, attr)
        if name == '__file__':
            return module.path
        if name == '__name__':
            return module.name
        if name in BUILTINS:
            return BUILTINS[name]
        if name in EXC_NAMES or name in ('int', 'float', 'str', 'bool', 'list', 'dict', 'set', 'tuple', 'object'):
            return PyClassRef(name)
        if name in ('True', 'False', 'None'):
            return {'True': True, 'False': False, 'None': None}[name]
        raise PyRaise('NameError', name)

    def module_attr(self, modname, attr):
        if modname.startswith('propka'):
            if self.repo.module(modname + '.' + attr) is not None:
                return ModuleRef(modname + '.' + attr)
            m = self.repo.module(modname)
            if m is not None:
                return self.lookup_global(attr, m)
        key = '%s.%s' % (modname, attr)
        if key in BUILTINS:
            return BUILTINS[key]
        if modname == 'math':
            if attr == 'pi':
                return Sym(Ctx.PI)
            if attr == 'inf':
                return math.inf
        if modname == 'string':
            return getattr(_string, attr)
        if modname in ('logging', 'warnings', 'typing'):
            return Opaque(key)
        if modname == 'os' and attr == 'PathLike':
            return PyClassRef('PathLike')
        if modname == 'decimal' and attr == 'Decimal':
            return BUILTINS['decimal.Decimal']
        if modname == 'pathlib' and attr == 'Path':
            return BUILTINS['pathlib.Path']
        raise Unsupported('module attribute %s' % key)

    # ------------------------------------------------------------------ statements
    def exec_block(self, body, env):
        for st in body:
            self.exec_stmt(st, env)
            if self.stmt_hooks and self.func_stack:
                self._stmt_hook(st, env)

    def _stmt_hook(self, st, env):
        """Proof-guidance hooks ('after the statement whose source starts with ...').
        A hook may only add obligations and facts that it obliges first (cut rule)."""
        fi = self.func_stack[-1]
        for (fname, prefix), hook in self.stmt_hooks.items():
            if fname == fi.fullname:
                src = ast.get_source_segment(fi.module.text, st) or ''
                if src.startswith(prefix):
                    hook(self, self.ctx, env)

    def exec_stmt(self, st, env):
        if self.deadline is not None and _time_now() > self.deadline:
            raise Unsupported('exploration budget of %.0f s exceeded (symbolic execution diverges or explodes here: line %d)'
                              % (self._budget_s, getattr(st, 'lineno', 0)))
        m = getattr(self, 'st_' + type(st).__name__, None)
        if m is None:
            raise Unsupported('statement %s at line %d' % (type(st).__name__, st.lineno))
        return m(st, env)

    def st_Expr(self, st, env):
        if isinstance(st.value, ast.Constant):
            return     # docstring
        self.eval(st.value, env)

    def st_Pass(self, st, env):
        pass

    def st_Return(self, st, env):
        raise _Return(self.eval(st.value, env) if st.value is not None else None)

    def st_Break(self, st, env):
        raise _Break()

    def st_Continue(self, st, env):
        raise _Continue()

    def st_Assign(self, st, env):
        v = self.eval(st.value, env)
        for t in st.targets:
            self.assign(t, v, env)

    def st_AnnAssign(self, st, env):
        if st.value is not None:
            self.assign(st.target, self.eval(st.value, env), env)

    def st_AugAssign(self, st, env):
        cur = self.eval(_load(st.target), env)
        rhs = self.eval(st.value, env)
        if isinstance(cur, Obj) and isinstance(st.op, (ast.Add,)) and cur.cls is not None \
                and cur.cls.find_method('__iadd__'):
            v = self.call_repo(cur.cls.find_method('__iadd__'), [rhs], {}, cur)
        elif isinstance(cur, list) and isinstance(st.op, ast.Add):
            cur.extend(self.iterate(rhs))
            v = cur
        else:
            v = self.binop(st.op, cur, rhs)
        self.assign(st.target, v, env)

    def assign(self, target, v, env):
        if isinstance(target, ast.Name):
            env.local[target.id] = v
        elif isinstance(target, ast.Attribute):
            o = self.eval(target.value, env)
            self.setattr(o, target.attr, v)
        elif isinstance(target, (ast.Tuple, ast.List)):
            items = self.iterate(v)
            if len(items) != len(target.elts):
                raise PyRaise('ValueError', 'unpack')
            for t, x in zip(target.elts, items):
                self.assign(t, x, env)
        elif isinstance(target, ast.Subscript):
            o = self.eval(target.value, env)
            k = self.eval(target.slice, env)
            self.setitem(o, k, v)
        else:
            raise Unsupported('assignment target %s' % type(target).__name__)

    def setattr(self, o, name, v):
        if isinstance(o, Obj):
            if o.cls is not None:
                # data descriptors (squared_property)
                c, expr = o.cls.find_class_attr(name)
                if expr is not None:
                    d = self.class_attr_value(c, name, expr)
                    if isinstance(d, Obj) and d.cls is not None and d.cls.find_method('__set__'):
                        self.call_repo(d.cls.find_method('__set__'), [o, v], {}, d)
                        return
            w = getattr(self, 'on_write', None)
            if w:
                w(o, name, v)
            o.attrs[name] = v
            return
        if v is None and o is None:
            raise PyRaise('AttributeError', name)
        if o is None:
            raise PyRaise('AttributeError', "NoneType has no attribute " + name)
        raise Unsupported('attribute store on %r' % (o,))

    def setitem(self, o, k, v):
        if isinstance(o, dict):
            key = dict_find(self, o, k)
            o[_hashable(k) if key is MISSING else key] = v
        elif isinstance(o, list):
            if isinstance(k, Sym):
                raise Unsupported('list store with symbolic index')
            try:
                o[k] = v
            except IndexError:
                raise PyRaise('IndexError')
        else:
            raise Unsupported('item store on %r' % (o,))

    def st_If(self, st, env):
        if self.truth(self.eval(st.test, env)):
            self.exec_block(st.body, env)
        else:
            self.exec_block(st.orelse, env)

    def st_For(self, st, env):
        hook = self._loop_hook(st)
        if hook is not None:
            return hook(self, self.ctx, st, env)
        it = self.eval(st.iter, env)
        broke = False
        if isinstance(it, list):
            # CPython's list iterator: index-based over the LIVE list (mutation during iteration is visible)
            def live():
                i = 0
                while i < len(it):
                    yield it[i]
                    i += 1
            items = live()
        else:
            items = list(self.iterate(it))
        for x in items:
            self.assign(st.target, x, env)
            try:
                self.exec_block(st.body, env)
            except _Break:
                broke = True
                break
            except _Continue:
                continue
        if not broke:
            self.exec_block(st.orelse, env)

    def st_While(self, st, env):
        hook = self._loop_hook(st)
        if hook is not None:
            return hook(self, self.ctx, st, env)
        n = 0
        while self.truth(self.eval(st.test, env)):
            n += 1
            if n > self.max_unroll:
                raise Unsupported('while loop exceeded unroll bound without invariant (line %d)' % st.lineno)
            try:
                self.exec_block(st.body, env)
            except _Break:
                return
            except _Continue:
                continue
        self.exec_block(st.orelse, env)

    def _loop_hook(self, st):
        if not self.loop_hooks or not self.func_stack:
            return None
        fi = self.func_stack[-1]
        for (fname, ordinal), hook in self.loop_hooks.items():
            if fname == fi.fullname:
                try:
                    if nth_loop(fi.node, ordinal) is st:
                        return hook
                except IndexError:
                    pass
        return None

    def st_Raise(self, st, env):
        if st.exc is None:
            cur = env.lookup_local('__active_exc__')
            if cur[0]:
                raise cur[1]
            raise PyRaise('RuntimeError', 'no active exception')
        e = self.eval(st.exc, env)
        if isinstance(e, PyClassRef):
            raise PyRaise(e.name)
        if isinstance(e, ClassRef):
            raise PyRaise(_exc_base(e.info))
        if isinstance(e, Obj):
            if '__exc__' in e.attrs:
                raise PyRaise(e.attrs['__exc__'], e.attrs.get('args'))
            if e.cls is not None:
                raise PyRaise(_exc_base(e.cls), e.attrs.get('args'))
        raise Unsupported('raise of %r' % (e,))

    def st_Try(self, st, env):
        try:
            try:
                self.exec_block(st.body, env)
            except PyRaise as e:
                for h in st.handlers:
                    if self._handler_matches(h, e, env):
                        if h.name:
                            eo = Obj(None, name='exc')
                            eo.attrs['__exc__'] = e.exc_name
                            eo.attrs['args'] = e.msg
                            env.local[h.name] = eo
                        env.local['__active_exc__'] = e
                        self.exec_block(h.body, env)
                        break
                else:
                    raise
            else:
                self.exec_block(st.orelse, env)
        finally:
            if st.finalbody:
                self.exec_block(st.finalbody, env)

    def _handler_matches(self, h, e, env):
        if h.type is None:
            return True
        names = []
        t = h.type
        elts = t.elts if isinstance(t, ast.Tuple) else [t]
        for x in elts:
            names.append(ast.unparse(x).split('.')[-1])
        ecls = getattr(builtins, e.exc_name, None)
        for n in names:
            c = getattr(builtins, n, None)
            if c is not None and ecls is not None and issubclass(ecls, c):
                return True
            if n == e.exc_name:
                return True
        return False

    def st_Assert(self, st, env):
        c = self.eval(st.test, env)
        if self.assert_mode == 'assume':
            if not self.truth_noraise(c):
                raise Infeasible()
        elif self.assert_mode == 'raise':
            if not self.truth(c):
                raise PyRaise('AssertionError')
        else:
            raise Unsupported('assert mode')

    def truth_noraise(self, c):
        """assume the condition (used for 'assert' treated as assumption)."""
        if isinstance(c, Sym):
            self.ctx.assume(to_bool(c))
            return True
        return self.truth(c)

    def st_FunctionDef(self, st, env):
        env.local[st.name] = Closure(st, env, env.module, st.name)

    def st_Import(self, st, env):
        for a in st.names:
            env.local[(a.asname or a.name).split('.')[0]] = ModuleRef(a.name if a.asname else a.name.split('.')[0])

    def st_ImportFrom(self, st, env):
        for a in st.names:
            env.local[a.asname or a.name] = self.module_attr(st.module, a.name)

    def st_With(self, st, env):
        for item in st.items:
            v = self.eval(item.context_expr, env)
            if item.optional_vars is not None:
                self.assign(item.optional_vars, v, env)
        self.exec_block(st.body, env)

    def st_Delete(self, st, env):
        for t in st.targets:
            if isinstance(t, ast.Subscript):
                o = self.eval(t.value, env)
                k = self.eval(t.slice, env)
                if isinstance(o, (dict, list)) and not isinstance(k, (Sym, SStr)):
                    try:
                        del o[k]
                    except (KeyError, IndexError) as ex:
                        raise PyRaise(type(ex).__name__)
                    continue
            raise Unsupported('del')

    def st_Global(self, st, env):
        raise Unsupported('global statement')

    # ------------------------------------------------------------------ expressions
    def eval(self, node, env):
        m = getattr(self, 'ev_' + type(node).__name__, None)
        if m is None:
            raise Unsupported('expression %s at line %d' % (type(node).__name__, getattr(node, 'lineno', 0)))
        return m(node, env)

    def ev_Constant(self, n, env):
        return n.value

    def ev_Name(self, n, env):
        return self.lookup(n.id, env)

    def ev_Tuple(self, n, env):
        return tuple(self._elts(n.elts, env))

    def ev_List(self, n, env):
        return list(self._elts(n.elts, env))

    def ev_Set(self, n, env):
        return set(_hashable(x) for x in self._elts(n.elts, env))

    def _elts(self, elts, env):
        out = []
        for e in elts:
            if isinstance(e, ast.Starred):
                out.extend(self.iterate(self.eval(e.value, env)))
            else:
                out.append(self.eval(e, env))
        return out

    def ev_Dict(self, n, env):
        d = {}
        for k, v in zip(n.keys, n.values):
            if k is None:
                d.update(self.eval(v, env))
            else:
                d[_hashable(self.eval(k, env))] = self.eval(v, env)
        return d

    def ev_JoinedStr(self, n, env):
        parts = []
        symbolic = False
        for v in n.values:
            if isinstance(v, ast.Constant):
                parts.append(('lit', v.value))
            else:
                x = self.eval(v.value, env)
                spec = ''
                if v.format_spec is not None:
                    spec = self.eval(v.format_spec, env)
                if isinstance(x, (Sym, SStr, Obj, Opaque)) or not isinstance(spec, str):
                    symbolic = True
                    parts.append(('fmt', '{:%s}' % spec if isinstance(spec, str) else '{}', [x], {}))
                else:
                    try:
                        if v.conversion == 115:
                            x = str(x)
                        parts.append(('lit', format(x, spec)))
                    except Exception:
                        symbolic = True
                        parts.append(('fmt', '{:%s}' % spec, [x], {}))
        if symbolic:
            return FmtStr(parts)
        return ''.join(p[1] for p in parts)

    def ev_Attribute(self, n, env):
        o = self.eval(n.value, env)
        return self.getattr(o, n.attr)

    def getattr(self, o, name):
        if isinstance(o, Obj):
            r = getattr(self, 'on_read', None)
            if name in o.attrs:
                if r:
                    r(o, name)
                return o.attrs[name]
            if o.cls is not None:
                fi = o.cls.find_method(name)
                if fi is not None:
                    if any('property' in d for d in fi.decorators):
                        return self.call_repo(fi, [], {}, o)
                    if any('staticmethod' in d for d in fi.decorators):
                        return fi
                    return BoundMethod(o, fi)
                c, expr = o.cls.find_class_attr(name)
                if expr is not None:
                    v = self.class_attr_value(c, name, expr)
                    if isinstance(v, Obj) and v.cls is not None and v.cls.find_method('__get__'):
                        return self.call_repo(v.cls.find_method('__get__'), [o, ClassRef(o.cls)], {}, v)
                    if r:
                        r(o, name)
                    return v
            lazy = o.attrs.get('__lazy__')
            if lazy is not None:
                v = lazy(o, name)
                if v is not NotImplemented:
                    o.attrs[name] = v
                    return v
            raise PyRaise('AttributeError', '%r has no attribute %s' % (o, name))
        if o is None:
            raise PyRaise('AttributeError', "'NoneType' object has no attribute '%s'" % name)
        if isinstance(o, ModuleRef):
            return self.module_attr(o.name, name)
        if isinstance(o, SuperProxy):
            mro = o.obj.cls.mro()
            idx = [c.name for c in mro].index(o.cls.name)
            for c in mro[idx + 1:]:
                if name in c.methods:
                    return BoundMethod(o.obj, c.methods[name])
            if name == '__init__':
                return Builtin('object.__init__', lambda ex, *a, **k: None)
            raise PyRaise('AttributeError', name)
        if isinstance(o, ClassRef):
            fi = o.info.find_method(name)
            if fi is not None:
                return fi
            c, expr = o.info.find_class_attr(name)
            if expr is not None:
                return self.class_attr_value(c, name, expr)
            raise PyRaise('AttributeError', name)
        if isinstance(o, PyPath):
            import os as _os
            if name == 'parent':
                return PyPath(_os.path.dirname(o.p))
            if name == 'stem':
                return _os.path.splitext(_os.path.basename(o.p))[0]
            if name == 'suffix':
                return _os.path.splitext(o.p)[1]
            if name == 'name':
                return _os.path.basename(o.p)
            if name in ('is_file', 'exists'):
                # existence of a file of the tree under verification (or of the host file system): a fact of the environment the
                # check runs in, read directly
                fn = _os.path.isfile if name == 'is_file' else _os.path.exists
                return Builtin('Path.' + name, lambda ex, fn=fn: bool(fn(o.p)))
            if name == 'write_text':
                # file output: recorded, not performed
                return Builtin('Path.write_text', lambda ex, text, **k: ex.ctx.events.append(('write_text', o.p, text)))
            raise Unsupported('Path.%s' % name)
        if isinstance(o, Opaque):
            return Opaque('%s.%s' % (o.what, name))
        if isinstance(o, (str, SStr)):
            return Builtin('str.' + name, _str_method(o, name))
        if isinstance(o, list):
            return Builtin('list.' + name, _list_method(o, name))
        if isinstance(o, dict):
            return Builtin('dict.' + name, _dict_method(o, name))
        if isinstance(o, (set, frozenset)):
            return Builtin('set.' + name, _set_method(o, name))
        if isinstance(o, tuple):
            return Builtin('tuple.' + name, _list_method(list(o), name))
        if isinstance(o, Builtin) and o.name == 'dict' and name == 'fromkeys':
            # every key gets the SAME value object (as in CPython): aliasing of a mutable default is modelled, not hidden
            def fromkeys(ex, keys, value=None):
                d = {}
                for k_ in ex.iterate(keys):
                    if isinstance(k_, (Sym, SStr)):
                        raise Unsupported('dict.fromkeys with symbolic keys')
                    d[k_] = value
                return d
            return Builtin('dict.fromkeys', fromkeys)
        raise Unsupported('attribute %s of %r' % (name, type(o).__name__))

    def class_attr_value(self, cinfo, name, expr):
        """Class-level attribute: evaluated once per path (mutable class state is per path)."""
        key = ('classattr', cinfo.module.name, cinfo.name, name)
        if key not in self.ctx.cache:
            v = self.eval(expr, Env(cinfo.module))
            self.ctx.cache[key] = v
            if isinstance(v, Obj) and v.cls is not None and v.cls.find_method('__set_name__'):
                # descriptor protocol: type.__new__ calls __set_name__(owner, name)
                self.call_repo(v.cls.find_method('__set_name__'), [ClassRef(cinfo), name], {}, v)
        return self.ctx.cache[key]

    def ev_Subscript(self, n, env):
        o = self.eval(n.value, env)
        if isinstance(n.slice, ast.Slice):
            lo = self.eval(n.slice.lower, env) if n.slice.lower else None
            hi = self.eval(n.slice.upper, env) if n.slice.upper else None
            st = self.eval(n.slice.step, env) if n.slice.step else None
            if any(isinstance(x, Sym) for x in (lo, hi, st)):
                raise Unsupported('symbolic slice bounds')
            sl = slice(lo, hi, st)
            if isinstance(o, SStr):
                return mk_str(o.chars[sl])
            if isinstance(o, (str, list, tuple)):
                return o[sl]
            raise Unsupported('slice of %r' % type(o).__name__)
        k = self.eval(n.slice, env)
        return self.getitem(o, k)

    def getitem(self, o, k):
        if isinstance(o, ModuleGlobals):
            if not isinstance(k, str):
                raise Unsupported('globals()[symbolic]')
            try:
                return self.lookup_global(k, o.module)
            except PyRaise:
                raise PyRaise('KeyError', k)
        if isinstance(o, (list, tuple, str)):
            if isinstance(k, Sym):
                if not k.is_int or len(o) > 64:
                    raise Unsupported('symbolic index')
                n_ = len(o)
                if not self.ctx.branch(And(compare('>=', k, -n_), compare('<', k, n_))):
                    raise PyRaise('IndexError')
                if isinstance(o, str):
                    # character with a symbolic code point: no forking
                    code = ord(o[n_ - 1])
                    for j in range(n_ - 2, -1, -1):
                        code = Ite(Or(compare('==', k, j), compare('==', k, j - n_)), ord(o[j]), code)
                    return mk_str([code])
                for j in range(n_):
                    if self.ctx.branch(Or(compare('==', k, j), compare('==', k, j - n_))):
                        return o[j]
                raise Infeasible()
            if not isinstance(k, int):
                raise PyRaise('TypeError', 'indices must be integers')
            try:
                return o[k]
            except IndexError:
                raise PyRaise('IndexError')
        if isinstance(o, SStr):
            if isinstance(k, Sym):
                raise Unsupported('symbolic index')
            try:
                return mk_str([o.chars[k]])
            except IndexError:
                raise PyRaise('IndexError')
        if isinstance(o, dict):
            key = dict_find(self, o, k)
            if key is MISSING:
                raise PyRaise('KeyError', k)
            return o[key]
        if isinstance(o, Obj) and o.cls is not None and o.cls.find_method('__getitem__'):
            return self.call_repo(o.cls.find_method('__getitem__'), [k], {}, o)
        if o is None:
            raise PyRaise('TypeError', 'NoneType is not subscriptable')
        raise Unsupported('subscript of %r' % type(o).__name__)

    def ev_Call(self, n, env):
        # logging / warnings / print: no-ops that cannot raise (A-LOG)
        fn_src = ast.unparse(n.func)
        root = fn_src.split('.')[0]
        if root in LOG_NAMES or fn_src == 'print':
            # queries of the logging configuration are environment input: unconstrained fresh values (both outcomes explored)
            leaf = fn_src.split('.')[-1]
            if leaf in ('isEnabledFor', 'hasHandlers'):
                return self.ctx.fresh('env_logging_' + leaf, 'bool')
            if leaf == 'getEffectiveLevel':
                return self.ctx.fresh('env_logging_level', 'int')
            return None
        if fn_src == 'globals' and not n.args:
            return ModuleGlobals(env.module)
        if fn_src == 'super' and not n.args and self.func_stack and self.func_stack[-1].cls is not None:
            fi = self.func_stack[-1]
            first = fi.node.args.args[0].arg
            return SuperProxy(env.local[first], fi.cls)
        f = self.eval(n.func, env)
        args = []
        for a in n.args:
            if isinstance(a, ast.Starred):
                args.extend(self.iterate(self.eval(a.value, env)))
            else:
                args.append(self.eval(a, env))
        kwargs = {}
        for kw in n.keywords:
            if kw.arg is None:
                kwargs.update(self.eval(kw.value, env))
            else:
                kwargs[kw.arg] = self.eval(kw.value, env)
        return self.call(f, args, kwargs)

    def ev_Lambda(self, n, env):
        return Closure(n, env, env.module, '<lambda>')

    def ev_IfExp(self, n, env):
        if self.truth(self.eval(n.test, env)):
            return self.eval(n.body, env)
        return self.eval(n.orelse, env)

    def ev_BoolOp(self, n, env):
        if self.pure:
            vals = [self.eval(v, env) for v in n.values]
            if all(isinstance(v, (bool, Sym)) for v in vals):
                return And(*vals) if isinstance(n.op, ast.And) else Or(*vals)
        is_and = isinstance(n.op, ast.And)
        v = None
        for sub in n.values:
            v = self.eval(sub, env)
            t = self.truth(v)
            if is_and and not t:
                return v if not isinstance(v, Sym) else False
            if not is_and and t:
                return v if not isinstance(v, Sym) else True
        return v if not isinstance(v, Sym) else (True if is_and else False)

    def ev_UnaryOp(self, n, env):
        v = self.eval(n.operand, env)
        if isinstance(n.op, ast.Not):
            if self.pure and isinstance(v, Sym):
                return Not(v)
            return not self.truth(v)
        if isinstance(n.op, ast.USub):
            if isinstance(v, Sym):
                return arith('-', 0, v)
            if isinstance(v, Obj) and v.cls is not None and v.cls.find_method('__neg__'):
                return self.call_repo(v.cls.find_method('__neg__'), [], {}, v)
            return -v
        if isinstance(n.op, ast.UAdd):
            return v
        raise Unsupported('unary op')

    def ev_BinOp(self, n, env):
        a = self.eval(n.left, env)
        b = self.eval(n.right, env)
        return self.binop(n.op, a, b)

    _OPNAMES = {ast.Add: ('+', '__add__', '__radd__'), ast.Sub: ('-', '__sub__', '__rsub__'),
                ast.Mult: ('*', '__mul__', '__rmul__'), ast.Div: ('/', '__truediv__', '__rtruediv__'),
                ast.MatMult: ('@', '__matmul__', '__rmatmul__'), ast.Pow: ('**', '__pow__', '__rpow__'),
                ast.FloorDiv: ('//', '__floordiv__', None), ast.Mod: ('%', '__mod__', None),
                ast.BitOr: ('|', '__or__', None), ast.BitAnd: ('&', '__and__', None)}

    def binop(self, op, a, b):
        sym, meth, rmeth = self._OPNAMES.get(type(op), (None, None, None))
        if sym is None:
            raise Unsupported('binary operator %s' % type(op).__name__)
        if isinstance(a, Obj) and a.cls is not None and a.cls.find_method(meth):
            return self.call_repo(a.cls.find_method(meth), [b], {}, a)
        if isinstance(b, Obj) and b.cls is not None and rmeth and b.cls.find_method(rmeth):
            return self.call_repo(b.cls.find_method(rmeth), [a], {}, b)
        if isinstance(a, PyPath) and sym == '/':
            import os as _os
            return PyPath(_os.path.join(a.p, b.p if isinstance(b, PyPath) else b))
        if isinstance(a, (str, SStr)) and isinstance(b, (str, SStr)) and sym == '+':
            return mk_str(str_chars(a) + str_chars(b))
        if sym == '+' and (isinstance(a, FmtStr) or isinstance(b, FmtStr)) and \
                isinstance(a, (str, SStr, FmtStr)) and isinstance(b, (str, SStr, FmtStr)):
            return FmtStr(FmtStr.of(a) + FmtStr.of(b))
        if isinstance(a, Sym) or isinstance(b, Sym):
            if sym == '/':
                if self.ctx.branch(compare('==', b, 0)):
                    raise PyRaise('ZeroDivisionError')
                # b != 0 holds on this path: a/b with a == +-b syntactically is +-1
                if isinstance(a, Sym) and isinstance(b, Sym):
                    za, zb = to_z3_num(a, True), to_z3_num(b, True)
                    if z3.is_rational_value(simp(za - zb)) and simp(za - zb).numerator_as_long() == 0:
                        return 1.0
                    if z3.is_rational_value(simp(za + zb)) and simp(za + zb).numerator_as_long() == 0:
                        return -1.0
                return arith('/', a, b)
            if sym == '**':
                return self.power(a, b)
            if sym in ('//', '%'):
                if self.ctx.branch(compare('==', b, 0)):
                    raise PyRaise('ZeroDivisionError')
                if isinstance(b, float) and b > 0 and isinstance(a, Sym) and sym == '%':
                    # real remainder for a >= 0 (Decimal % has the sign of the dividend; callers guarantee a >= 0
                    # or accept floor semantics - stated where used)
                    za = to_z3_num(a, True)
                    zb = real_val(b)
                    return Sym(simp(za - zb * z3.ToReal(z3.ToInt(za / zb))))
                if isinstance(b, float) and b > 0 and isinstance(a, Sym) and sym == '//':
                    # floor division by a positive float constant: floor(a / b), a float in CPython (z3 ToInt is floor)
                    za = to_z3_num(a, True)
                    return Sym(simp(z3.ToReal(z3.ToInt(za / real_val(b)))))
                if not isinstance(b, int) or isinstance(b, bool) or b <= 0:
                    raise Unsupported('// or % with non-constant or non-positive divisor')
                return arith(sym, a, b)
            if isinstance(a, (Sym, int, float, bool)) and isinstance(b, (Sym, int, float, bool)):
                return arith(sym, a, b)
            raise Unsupported('binop %s on %r, %r' % (sym, type(a).__name__, type(b).__name__))
        if isinstance(a, (Opaque,)) or isinstance(b, Opaque):
            return Opaque('binop')
        try:
            if sym == '+':
                return a + b
            if sym == '-':
                return a - b
            if sym == '*':
                return a * b
            if sym == '/':
                return self._concrete_div(a, b)
            if sym == '**':
                return self.power(a, b)
            if sym == '//':
                return a // b
            if sym == '%':
                if isinstance(a, str):
                    return Opaque('%-format')
                return a % b
            if sym == '|':
                return a | b
            if sym == '&':
                return a & b
        except ZeroDivisionError:
            raise PyRaise('ZeroDivisionError')
        except TypeError as e:
            raise PyRaise('TypeError', str(e))
        raise Unsupported('binop')

    def _concrete_div(self, a, b):
        # keep exact decimal semantics (A-REAL): floats are decimal reals
        if isinstance(a, int) and isinstance(b, int) and b != 0 and a % b == 0:
            return float(a // b)
        if b == 0:
            raise PyRaise('ZeroDivisionError')
        if isinstance(a, (int, float)) and isinstance(b, (int, float)):
            from fractions import Fraction
            if abs(a) == math.inf or abs(b) == math.inf:
                return a / b
            q = Fraction(repr(float(a))) / Fraction(repr(float(b)))
            f = float(q)
            if Fraction(repr(f)) == q:
                return f
            return Sym(z3.RealVal(str(q)))
        return a / b

    def power(self, a, b):
        if isinstance(b, float) and b == 0.5:
            return self.m_sqrt(a)
        if isinstance(a, (int, float)) and not isinstance(a, bool) and a == 10 and isinstance(b, Sym):
            return self.ctx.exp10(b)
        if isinstance(a, Sym):
            if isinstance(b, float) and b == int(b):
                b = int(b)
            return sym_pow(a, b)
        if isinstance(b, Sym):
            raise Unsupported('power with symbolic exponent and base %r' % (a,))
        try:
            return a ** b
        except ZeroDivisionError:
            raise PyRaise('ZeroDivisionError')
        except OverflowError:
            raise PyRaise('OverflowError')

    def m_sqrt(self, x):
        if isinstance(x, Sym):
            if self.ctx.branch(compare('<', x, 0)):
                raise PyRaise('ValueError', 'math domain error')
            return self.ctx.sqrt(x)
        if x < 0:
            raise PyRaise('ValueError', 'math domain error')
        if x == math.inf:
            return math.inf
        return self.ctx.sqrt(x)

    def _strip_eq_literal(self, n, env):
        """`X.strip() == 'LIT'` (either order, == or !=) with X a side-effect-free expression whose value is a string with symbolic
        characters: one formula (exists an offset: blanks, LIT, blanks) instead of a fork per stripped prefix/suffix length."""
        if len(n.ops) != 1 or not isinstance(n.ops[0], (ast.Eq, ast.NotEq)):
            return None
        for a, b in ((n.left, n.comparators[0]), (n.comparators[0], n.left)):
            if not (isinstance(a, ast.Call) and isinstance(a.func, ast.Attribute) and a.func.attr == 'strip' and not a.args
                    and not a.keywords and isinstance(b, ast.Constant) and isinstance(b.value, str)):
                continue
            tgt = a.func.value
            while isinstance(tgt, (ast.Attribute, ast.Subscript)):
                if isinstance(tgt, ast.Subscript) and not isinstance(tgt.slice, (ast.Constant, ast.Slice)):
                    return None
                tgt = tgt.value
            if not isinstance(tgt, ast.Name):
                return None
            v = self.eval(a.func.value, env)
            if not isinstance(v, SStr) or v.is_concrete():
                return None
            from .builtins_model import _in_codes, WS
            lit = [ord(c) for c in b.value]
            chars = v.chars
            if lit and (lit[0] in WS or lit[-1] in WS):
                r = False
            elif not lit:
                r = And(*[_in_codes(c, WS) for c in chars])
            else:
                alts = []
                for i in range(0, len(chars) - len(lit) + 1):
                    alts.append(And(*([_in_codes(c, WS) for c in chars[:i]] +
                                      [(c == k) if isinstance(c, int) else compare('==', c, k) for c, k in zip(chars[i:], lit)] +
                                      [_in_codes(c, WS) for c in chars[i + len(lit):]])))
                r = Or(*alts) if alts else False
            if isinstance(n.ops[0], ast.NotEq):
                r = Not(r) if isinstance(r, Sym) else (not r)
            return (r,)
        return None

    def ev_Compare(self, n, env):
        sp = self._strip_eq_literal(n, env)
        if sp is not None:
            return sp[0]
        left = self.eval(n.left, env)
        result = True
        for op, rn in zip(n.ops, n.comparators):
            right = self.eval(rn, env)
            r = self.compare_op(op, left, right)
            if len(n.ops) == 1:
                return r
            if self.pure:
                result = And(result, r)
            else:
                if not self.truth(r):
                    return False
            left = right
        return result

    def compare_op(self, op, a, b):
        if isinstance(op, ast.Is):
            return self.identical(a, b)
        if isinstance(op, ast.IsNot):
            return not self.identical(a, b)
        if isinstance(op, ast.Eq):
            return self.equals(a, b)
        if isinstance(op, ast.NotEq):
            r = self.equals(a, b)
            return Not(r) if isinstance(r, Sym) else (not r)
        if isinstance(op, ast.In):
            return self.contains(b, a)
        if isinstance(op, ast.NotIn):
            r = self.contains(b, a)
            return Not(r) if isinstance(r, Sym) else (not r)
        sym = {ast.Lt: '<', ast.LtE: '<=', ast.Gt: '>', ast.GtE: '>='}[type(op)]
        if isinstance(a, Sym) or isinstance(b, Sym):
            if a is None or b is None:
                raise PyRaise('TypeError', 'ordering comparison with None')
            if isinstance(a, float) and abs(a) == math.inf:
                return (a > 0) == (sym in ('>', '>='))
            if isinstance(b, float) and abs(b) == math.inf:
                return (b > 0) == (sym in ('<', '<='))
            return compare(sym, a, b)
        if isinstance(a, Obj) or isinstance(b, Obj):
            raise Unsupported('ordering of objects')
        try:
            return {'<': a < b, '<=': a <= b, '>': a > b, '>=': a >= b}[sym]
        except TypeError as e:
            raise PyRaise('TypeError', str(e))

    def identical(self, a, b):
        if isinstance(a, (Sym, SStr)) or isinstance(b, (Sym, SStr)):
            if a is None or b is None:
                return False
            raise Unsupported("'is' on symbolic scalars")
        if a is None or b is None or isinstance(a, bool) or isinstance(b, bool):
            return a is b
        if isinstance(a, (Obj, list, dict)) or isinstance(b, (Obj, list, dict)):
            return a is b
        return a is b or (type(a) is type(b) and a == b and isinstance(a, (int, str)))

    def equals(self, a, b):
        """Python == (may return a symbolic Bool)."""
        if isinstance(a, Obj):
            if a.cls is not None and a.cls.find_method('__eq__'):
                return self.call_repo(a.cls.find_method('__eq__'), [b], {}, a)
            return a is b
        if isinstance(b, Obj):
            if b.cls is not None and b.cls.find_method('__eq__'):
                return self.call_repo(b.cls.find_method('__eq__'), [a], {}, b)
            return False
        if isinstance(a, (str, SStr)) and isinstance(b, (str, SStr)):
            ca, cb = str_chars(a), str_chars(b)
            if len(ca) != len(cb):
                return False
            conj = []
            for x, y in zip(ca, cb):
                if isinstance(x, int) and isinstance(y, int):
                    if x != y:
                        return False
                else:
                    conj.append(compare('==', x, y))
            return And(*conj) if conj else True
        if isinstance(a, (str, SStr)) or isinstance(b, (str, SStr)):
            return False if (a is None or b is None or isinstance(a, (int, float, Sym, list, tuple, dict)) or
                             isinstance(b, (int, float, Sym, list, tuple, dict))) else _unsup('string equality')
        if a is None or b is None:
            return a is b
        if isinstance(a, Sym) or isinstance(b, Sym):
            if isinstance(a, (Sym, int, float, bool)) and isinstance(b, (Sym, int, float, bool)):
                if isinstance(a, float) and abs(a) == math.inf or isinstance(b, float) and abs(b) == math.inf:
                    return False
                return compare('==', a, b)
            return False
        if isinstance(a, (list, tuple)) and isinstance(b, (list, tuple)) and type(a) is type(b):
            if len(a) != len(b):
                return False
            rs = [self.equals(x, y) for x, y in zip(a, b)]
            if any(r is False for r in rs):
                return False
            return And(*rs) if any(isinstance(r, Sym) for r in rs) else True
        if isinstance(a, Opaque) or isinstance(b, Opaque):
            raise Unsupported('equality on opaque value')
        return a == b

    def contains(self, container, x):
        if isinstance(container, Opaque):
            raise Unsupported('membership in opaque')
        if isinstance(container, dict):
            if has_sym(x) or any(has_sym(k) for k in container):
                return dict_find(self, container, x) is not MISSING
            container = list(container.keys())
        if isinstance(container, (str, SStr)) and isinstance(x, (str, SStr)):
            cc, cx = str_chars(container), str_chars(x)
            if len(cx) == 0:
                return True
            opts = []
            for i in range(len(cc) - len(cx) + 1):
                r = self.equals(mk_str(cc[i:i + len(cx)]), mk_str(cx))
                if r is True:
                    return True
                if r is not False:
                    opts.append(r)
            return Or(*opts) if opts else False
        if isinstance(container, (set, frozenset)) and isinstance(x, Obj):
            # hash-based containers compare the hash first: with an identity hash only the very same object is found
            check_hashable(x)
            return any(y is x for y in container)
        if isinstance(container, (list, tuple, set, frozenset)):
            opts = []
            for y in container:
                r = self.equals(y, x) if not isinstance(x, Obj) or isinstance(y, Obj) else False
                if x is y:
                    r = True
                if r is True:
                    return True
                if r is not False:
                    opts.append(r)
            return Or(*opts) if opts else False
        if container is None:
            raise PyRaise('TypeError', "argument of type 'NoneType' is not iterable")
        if isinstance(container, Obj) and container.cls is not None and container.cls.find_method('__contains__'):
            return self.call_repo(container.cls.find_method('__contains__'), [x], {}, container)
        raise Unsupported('membership in %r' % type(container).__name__)

    def ev_ListComp(self, n, env):
        out = []
        self._comp(n.generators, 0, env, lambda e: out.append(self.eval(n.elt, e)))
        return out

    def ev_GeneratorExp(self, n, env):
        return GenList(self.ev_ListComp(n, env))

    def ev_SetComp(self, n, env):
        out = []
        self._comp(n.generators, 0, env, lambda e: out.append(_hashable(self.eval(n.elt, e))))
        return set(out)

    def ev_DictComp(self, n, env):
        out = {}

        def add(e):
            out[_hashable(self.eval(n.key, e))] = self.eval(n.value, e)
        self._comp(n.generators, 0, env, add)
        return out

    def _comp(self, gens, i, env, emit):
        if i == len(gens):
            emit(env)
            return
        g = gens[i]
        items = self.iterate(self.eval(g.iter, env))
        for x in items:
            e2 = Env(env.module, parent=env)
            self.assign(g.target, x, e2)
            if all(self.truth(self.eval(c, e2)) for c in g.ifs):
                self._comp(gens, i + 1, e2, emit)

    def ev_Yield(self, n, env):
        v = self.eval(n.value, env) if n.value is not None else None
        found, ys = env.lookup_local('__yields__')
        if not found:
            raise Unsupported('yield outside generator')
        ys.append(v)
        h = getattr(self, 'on_yield', None)
        if h:
            h(v, env)
        return None

    def ev_Starred(self, n, env):
        raise Unsupported('starred expression')

    def ev_NamedExpr(self, n, env):
        v = self.eval(n.value, env)
        self.assign(n.target, v, env)
        return v

    # ------------------------------------------------------------------ helpers
    def truth(self, v):
        if isinstance(v, bool):
            return v
        if isinstance(v, Sym):
            if v.is_bool:
                return self.ctx.branch(v.e)
            return self.ctx.branch(v.e != 0)
        if v is None:
            return False
        if isinstance(v, (int, float, str, list, tuple, dict, set, frozenset)):
            return bool(v)
        if isinstance(v, SStr):
            return len(v) > 0
        if isinstance(v, Obj):
            if v.cls is not None:
                m = v.cls.find_method('__bool__')
                if m:
                    return self.truth(self.call_repo(m, [], {}, v))
                m = v.cls.find_method('__len__')
                if m:
                    return self.truth(compare('!=', self.call_repo(m, [], {}, v), 0)
                                      if isinstance(self.call_repo(m, [], {}, v), Sym)
                                      else self.call_repo(m, [], {}, v) != 0)
            return True
        if isinstance(v, (FuncInfo, Closure, BoundMethod, Builtin, ClassRef, PyClassRef, ModuleRef)):
            return True
        if isinstance(v, Opaque):
            raise Unsupported('truth of opaque value %s' % v.what)
        raise Unsupported('truth of %r' % type(v).__name__)

    def iterate(self, v):
        if isinstance(v, (list, tuple)):
            return list(v)
        if isinstance(v, (set, frozenset)):
            h = getattr(self, 'on_set_iter', None)
            return h(v) if h else list(v)
        if isinstance(v, dict):
            return list(v.keys())
        if isinstance(v, str):
            return list(v)
        if isinstance(v, SStr):
            return [mk_str([c]) for c in v.chars]
        if isinstance(v, range):
            return list(v)
        if v is None:
            raise PyRaise('TypeError', "'NoneType' object is not iterable")
        if isinstance(v, Obj) and '__iter_items__' in v.attrs:
            return list(v.attrs['__iter_items__'])
        if isinstance(v, Obj) and v.cls is not None and v.cls.find_method('__iter__'):
            return self.iterate(self.call_repo(v.cls.find_method('__iter__'), [], {}, v))
        raise Unsupported('iteration over %r' % type(v).__name__)


def _unsup(msg):
    raise Unsupported(msg)


def _exc_base(ci):
    for c in ci.mro():
        for b in c.base_names:
            b = b.split('.')[-1]
            if b in EXC_NAMES:
                return b
    return 'Exception'


def _hashable(k):
    if isinstance(k, list):
        return tuple(k)
    return k


def hash_kind(o):
    """How CPython hashes this value inside a set / as a dict key: 'identity' (object identity decides membership: the default,
    or a __hash__ that returns id(self)), 'unhashable' (__eq__ without __hash__) or 'custom'."""
    if not isinstance(o, Obj) or o.cls is None:
        return 'identity'
    m = o.cls.find_method('__hash__')
    if m is None:
        return 'unhashable' if o.cls.find_method('__eq__') is not None else 'identity'
    body = [st for st in m.node.body if not (isinstance(st, ast.Expr) and isinstance(st.value, ast.Constant))]
    if len(body) == 1 and isinstance(body[0], ast.Return) and body[0].value is not None \
            and ast.unparse(body[0].value).replace(' ', '') in ('id(self)', 'object.__hash__(self)', 'super().__hash__()'):
        return 'identity'
    return 'custom'


def check_hashable(o):
    """The engine keeps objects in Python sets / dict keys by identity: only sound for identity-hashed classes."""
    for x in (o if isinstance(o, tuple) else (o,)):
        k = hash_kind(x)
        if k == 'unhashable':
            raise PyRaise('TypeError', 'unhashable type')
        if k == 'custom':
            raise Unsupported('objects of %s in a set / as dict keys: user-defined __hash__ is not modelled' % x.cls.name)
    return o


def has_sym(k):
    if isinstance(k, (Sym, SStr)):
        return True
    if isinstance(k, (tuple, list)):
        return any(has_sym(x) for x in k)
    return False


def dict_find(ex, d, k):
    """Existing key of d equal to k (forks on symbolic equality), or the sentinel MISSING."""
    if not has_sym(k) and not any(has_sym(x) for x in d):
        k = _hashable(k)
        return k if k in d else MISSING
    for key in list(d.keys()):
        if ex.truth(ex.equals(key, k)):
            return key
    return MISSING


MISSING = object()


def _load(target):
    t = ast.copy_location(type(target)(**{f: getattr(target, f) for f in target._fields}), target)
    t.ctx = ast.Load()
    return t


# ---------------------------------------------------------------------- builtins
from .builtins_model import BUILTINS, _str_method, _list_method, _dict_method, _set_method  # noqa: E402
