"""Driver: exit 0 held / 1 violation (VIOLATION line) / 2 undecided and no fallback / 3 checker crash."""
import argparse
import importlib
import os
import sys
import traceback

VERIF = os.path.dirname(os.path.abspath(__file__))
sys.path.insert(0, VERIF)
os.chdir(VERIF)
os.environ.setdefault('JENSENGROUP_PROPKA_VERIF', '1')


def main():
    ap = argparse.ArgumentParser()
    ap.add_argument('prop', nargs='?')
    ap.add_argument('--tier', default=os.environ.get('VERIF_TIER', 'quick'))
    ap.add_argument('--replay')
    ap.add_argument('--selfcheck', action='store_true')
    a = ap.parse_args()
    if a.selfcheck:
        import z3
        from pyvc.loader import Repo
        r = Repo()
        r.func('propka.vector_algebra.rotate_vector_around_an_axis')
        s = z3.Solver(); x = z3.Real('x'); s.add(x * x == 2)
        assert str(s.check()) == 'sat'
        print('selfcheck ok: z3', z3.get_version_string())
        from props import leanlemma
        for name in ('Folding',):
            ok, out, secs = leanlemma.check(name)
            print('lean lemma', name, 'ok' if ok else 'FAILED', '%.0fs' % secs, out[:200].replace('\n', ' | '))
        return 0
    if a.replay:
        from pyvc.prop import replay_file
        return replay_file(a.replay)
    seed = int(os.environ.get('VERIF_SEED', '0') or 0)
    tier = a.tier if a.tier in ('quick', 'thorough') else 'quick'
    from pyvc.prop import PropertyRun
    from pyvc.loader import Repo
    pr = PropertyRun(a.prop, tier, seed)
    try:
        mod = importlib.import_module('props.' + a.prop)
        repo = Repo()
        import json as _json
        rq = os.path.join(VERIF, 'props', 'required.json')
        pr.required = _json.load(open(rq)).get(a.prop, []) if os.path.exists(rq) else []
        mod.run(pr, repo)
    except Exception:
        traceback.print_exc()
        print('CHECKER-CRASH property=%s' % a.prop)
        return 3
    return pr.finish()


if __name__ == '__main__':
    sys.exit(main())
