"""Driver: exit 0 held / 1 violation (VIOLATION line) / 2 undecided and no fallback / 3 checker crash."""
import argparse
import importlib
import os
import sys
import traceback

VERIF = os.path.dirname(os.path.abspath(__file__))
sys.path.insert(0, VERIF)
os.chdir(VERIF)
os.environ.setdefault('JENSENGROUP_PROPKA_VERIF', '1')


def _guard_monitor(fn, pid):
    """An exception that escapes from the REAL program while a monitor runs it on one of its inputs is a finding about the program
    (reported as a monitor violation with the traceback), not a crash of the checker; anything else is re-raised."""
    from pyvc import REPO

    def run(pr):
        try:
            return fn(pr)
        except (Exception, SystemExit) as e:      # noqa  (argparse inside propka ends with SystemExit)
            tb = traceback.extract_tb(e.__traceback__)
            root = os.path.realpath(REPO) + os.sep
            if not tb or not os.path.realpath(tb[-1].filename).startswith(root):
                raise
            where = ' <- '.join('%s:%d %s' % (os.path.basename(f.filename), f.lineno, f.name) for f in reversed(tb[-4:]))
            pr.bounded.append({'name': '%s-monitor: the real program runs to completion on the monitor inputs' % pid, 'evaluations': 1,
                               'distinct_nontrivial': 1, 'bound': 'the inputs of the monitor up to the failing one',
                               'rule': 'no exception escapes from propka on a monitor input',
                               'violations': [{'what': 'propka raised %s: %s (%s)' % (type(e).__name__, str(e)[:200], where),
                                               'replay': None}]})
    return run


def main():
    ap = argparse.ArgumentParser()
    ap.add_argument('prop', nargs='?')
    ap.add_argument('--tier', default=os.environ.get('VERIF_TIER', 'quick'))
    ap.add_argument('--replay')
    ap.add_argument('--selfcheck', action='store_true')
    a = ap.parse_args()
    if a.selfcheck:
        import z3
        from pyvc.loader import Repo
        r = Repo()
        r.func('propka.vector_algebra.rotate_vector_around_an_axis')
        s = z3.Solver(); x = z3.Real('x'); s.add(x * x == 2)
        assert str(s.check()) == 'sat'
        print('selfcheck ok: z3', z3.get_version_string())
        from props import leanlemma
        for name in ('Folding',):
            ok, out, secs = leanlemma.check(name)
            print('lean lemma', name, 'ok' if ok else 'FAILED', '%.0fs' % secs, out[:200].replace('\n', ' | '))
        return 0
    if a.replay:
        from pyvc.prop import replay_file
        return replay_file(a.replay)
    seed = int(os.environ.get('VERIF_SEED', '0') or 0)
    tier = a.tier if a.tier in ('quick', 'thorough') else 'quick'
    from pyvc.prop import PropertyRun
    from pyvc.loader import Repo
    pr = PropertyRun(a.prop, tier, seed)
    try:
        mod = importlib.import_module('props.' + a.prop)
        repo = Repo()
        import json as _json
        rq = os.path.join(VERIF, 'props', 'required.json')
        pr.required = _json.load(open(rq)).get(a.prop, []) if os.path.exists(rq) else []
        if hasattr(mod, 'bounded'):
            mod.bounded = _guard_monitor(mod.bounded, a.prop)
        mod.run(pr, repo)
    except (Exception, SystemExit):
        traceback.print_exc()
        print('CHECKER-CRASH property=%s' % a.prop)
        return 3
    return pr.finish()


if __name__ == '__main__':
    sys.exit(main())
