/-
C10, obligation 2: the calculus link between the extracted folding-energy expression and the
charge curves.  The z3-proved extraction VC says (per titratable group)
    dG(pH) = C - 1.36 * (L (pH - pKa) - L (pH - pKm)),      L x = log10 (1 + 10^x)
and   Q_folded - Q_unfolded = -(sig (pH - pKa) - sig (pH - pKm)),   sig x = 10^x / (1 + 10^x).
This file proves  d/dpH [ -1.36 * (L (pH - a) - L (pH - m)) ] = -1.36 * (sig (pH - a) - sig (pH - m)),
hence d(dG)/d(pH) = 1.36 * (Q_folded - Q_unfolded).
-/
import Mathlib

open Real

noncomputable def L (x : ℝ) : ℝ := Real.log (1 + (10:ℝ) ^ x) / Real.log 10

noncomputable def sig (x : ℝ) : ℝ := (10:ℝ) ^ x / (1 + (10:ℝ) ^ x)

theorem hasDerivAt_L (x : ℝ) : HasDerivAt L (sig x) x := by
  have h10 : (0:ℝ) < 10 := by norm_num
  have hlog : Real.log 10 ≠ 0 := by
    have : (0:ℝ) < Real.log 10 := Real.log_pos (by norm_num)
    exact ne_of_gt this
  have hpow : HasDerivAt (fun t : ℝ => (10:ℝ) ^ t) ((10:ℝ) ^ x * Real.log 10) x :=
    (Real.hasStrictDerivAt_const_rpow h10 x).hasDerivAt
  have hpos : (0:ℝ) < 1 + (10:ℝ) ^ x := by
    have := Real.rpow_pos_of_pos h10 x
    linarith
  have h1 : HasDerivAt (fun t : ℝ => 1 + (10:ℝ) ^ t) ((10:ℝ) ^ x * Real.log 10) x := by
    simpa using hpow.const_add 1
  have h2 := h1.log (ne_of_gt hpos)
  have h3 := h2.div_const (Real.log 10)
  have : (10:ℝ) ^ x * Real.log 10 / (1 + (10:ℝ) ^ x) / Real.log 10 = sig x := by
    unfold sig
    field_simp
  unfold L
  rw [← this]
  exact h3

theorem linkage (a m x : ℝ) :
    HasDerivAt (fun t : ℝ => (-1.36 : ℝ) * (L (t - a) - L (t - m)))
      ((-1.36 : ℝ) * (sig (x - a) - sig (x - m))) x := by
  have ha : HasDerivAt (fun t : ℝ => L (t - a)) (sig (x - a)) x := by
    have h := (hasDerivAt_L (x - a)).comp x ((hasDerivAt_id x).sub_const a)
    rw [mul_one] at h
    exact h
  have hm : HasDerivAt (fun t : ℝ => L (t - m)) (sig (x - m)) x := by
    have h := (hasDerivAt_L (x - m)).comp x ((hasDerivAt_id x).sub_const m)
    rw [mul_one] at h
    exact h
  exact (ha.sub hm).const_mul (-1.36 : ℝ)

#print axioms linkage
